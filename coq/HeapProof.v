(* C20: the static string heap stores texts intact or not at all (heap level) *)
From Coq Require Import Bool List ZArith Lia.
Import ListNotations.
Local Open Scope bool_scope.
Local Open Scope Z_scope.

(* ---------- model of scpiheap_* (utils.c); these definitions are the ones extracted and run against the code ---------- *)
Definition getb (d:list Z) (i:Z) : Z := if (i <? 0) then 0 else nth (Z.to_nat i) d 0.
Fixpoint setb (d:list Z) (i:nat) (v:Z) : list Z :=
  match d, i with
  | [], _ => []
  | _::r, O => v::r
  | c::r, S i' => c :: setb r i' v
  end.
Fixpoint write (d:list Z) (at_:Z) (src:list Z) : list Z :=
  match src with [] => d | c::r => write (setb d (Z.to_nat at_) c) (at_+1) r end.
Fixpoint fill0 (d:list Z) (at_:Z) (n:nat) : list Z :=
  match n with O => d | S n' => fill0 (setb d (Z.to_nat at_) 0) (at_+1) n' end.
Fixpoint strnlen_at (d:list Z) (i:Z) (n:nat) : Z :=
  match n with O => 0 | S n' => if getb d i =? 0 then 0 else 1 + strnlen_at d (i+1) n' end.
Fixpoint strnlen_l (s:list Z) (n:nat) : Z :=
  match n with O => 0 | S n' => match s with c::r => if c =? 0 then 0 else 1 + strnlen_l r n' | [] => 0 end end.

Record heap := { hdata : list Z; hwr : Z; hcount : Z; hsize : Z }.
Definition heap_init (size:Z) : heap := {| hdata := repeat 0 (Z.to_nat size); hwr := 0; hcount := size; hsize := size |}.

Definition heap_strndup (h:heap) (s:list Z) (n:Z) : option Z * heap :=
  if hsize h =? 0 then (None, h) else
  if negb (getb (hdata h) (hwr h) =? 0) then (None, h) else
  if match s with [] => true | c::_ => c =? 0 end then (None, h) else
  let slen := strnlen_l s (Z.to_nat n) in
  let len := slen + 1 in
  if hcount h <? len then (None, h) else
  let src := firstn (Z.to_nat len) (s ++ [0]) in
  let head := hwr h in
  let rem := hsize h - hwr h in
  let '(d1, wr1, cnt1, src1) :=
     if rem <=? len then (write (hdata h) (hwr h) (firstn (Z.to_nat rem) src), 0, hcount h - rem, skipn (Z.to_nat rem) src)
     else (hdata h, hwr h, hcount h, src) in
  let d2 := write d1 wr1 src1 in
  let wr2 := wr1 + Z.of_nat (length src1) in
  let cnt2 := cnt1 - Z.of_nat (length src1) in
  let d3 := if 0 <? wr2 then setb d2 (Z.to_nat (wr2 - 1)) 0 else setb d2 (Z.to_nat (hsize h - 1)) 0 in
  (Some head, {| hdata := d3; hwr := wr2; hcount := cnt2; hsize := hsize h |}).

Definition heap_get_parts (h:heap) (s:Z) : option (Z * option Z * Z) :=
  if getb (hdata h) s =? 0 then None else
  let rem := hsize h - s in
  let len1 := strnlen_at (hdata h) s (Z.to_nat rem) in
  if s + len1 - 1 =? hsize h - 1 then Some (len1, Some 0, strnlen_at (hdata h) 0 (Z.to_nat (hsize h)))
  else Some (len1, None, 0).

Definition heap_free (h:heap) (s:option Z) (rollback:bool) : heap :=
  match s with None => h | Some s =>
  match heap_get_parts h s with None => h | Some (l0, s2, l1) =>
    let '(d1, cnt1, l0', l1') :=
      match s2 with
      | Some a => (fill0 (hdata h) a (Z.to_nat (l1+1)), hcount h + (l1+1), l0, l1+1)
      | None => (hdata h, hcount h, l0+1, l1)
      end in
    let d2 := fill0 d1 s (Z.to_nat l0') in
    let cnt2 := cnt1 + l0' in
    if cnt2 =? hsize h then {| hdata := d2; hwr := 0; hcount := cnt2; hsize := hsize h |}
    else if rollback then
      let rb := l0' + l1' in
      let wr1 := if hwr h <? rb then hwr h + hsize h else hwr h in
      {| hdata := d2; hwr := wr1 - rb; hcount := cnt2; hsize := hsize h |}
    else {| hdata := d2; hwr := hwr h; hcount := cnt2; hsize := hsize h |}
  end end.

Definition heap_text (h:heap) (s:option Z) : option (list Z * option (list Z)) :=
  match s with None => None | Some s =>
  match heap_get_parts h s with None => None | Some (l0, s2, l1) =>
    let p1 := firstn (Z.to_nat l0) (skipn (Z.to_nat s) (hdata h)) in
    Some (p1, match s2 with Some a => Some (firstn (Z.to_nat l1) (skipn (Z.to_nat a) (hdata h))) | None => None end)
  end end.

(* ---------- memory lemmas ---------- *)
Lemma setb_length d i v : length (setb d i v) = length d.
Proof. revert i; induction d as [|c d IH]; intros [|i]; cbn; auto. Qed.
Lemma nth_setb_same d i v : (i < length d)%nat -> nth i (setb d i v) 0 = v.
Proof. revert i; induction d as [|c d IH]; intros [|i] H; cbn in *; try lia; auto. apply IH; lia. Qed.
Lemma nth_setb_other d i j v : i <> j -> nth j (setb d i v) 0 = nth j d 0.
Proof. revert i j; induction d as [|c d IH]; intros [|i] [|j] H; cbn; auto; try congruence. Qed.
Lemma getb_setb d i v p : 0 <= i < Z.of_nat (length d) ->
  getb (setb d (Z.to_nat i) v) p = if p =? i then v else getb d p.
Proof.
  intros Hi. unfold getb. destruct (Z.eqb_spec p i) as [->|Hne].
  - destruct (Z.ltb_spec i 0); [lia|]. apply nth_setb_same. lia.
  - destruct (Z.ltb_spec p 0); [reflexivity|]. apply nth_setb_other. lia.
Qed.
Lemma write_length d a src : length (write d a src) = length d.
Proof. revert d a; induction src as [|c r IH]; intros d a; cbn; [reflexivity|]. now rewrite IH, setb_length. Qed.
Definition znth (k:Z) (l:list Z) : Z := if k <? 0 then 0 else nth (Z.to_nat k) l 0.
Lemma getb_write d a src p : 0 <= a -> a + Z.of_nat (length src) <= Z.of_nat (length d) ->
  getb (write d a src) p = if (a <=? p) && (p <? a + Z.of_nat (length src)) then znth (p - a) src else getb d p.
Proof.
  revert d a; induction src as [|c r IH]; intros d a Ha Hl; cbn [write length].
  - destruct (Z.leb_spec a p), (Z.ltb_spec p (a + Z.of_nat 0)); cbn; try reflexivity; lia.
  - cbn [length] in Hl. rewrite Nat2Z.inj_succ in *. rewrite IH by (rewrite ?setb_length; lia). rewrite getb_setb by lia.
    destruct (Z.leb_spec (a+1) p), (Z.ltb_spec p (a + 1 + Z.of_nat (length r))), (Z.leb_spec a p), (Z.ltb_spec p (a + Z.succ (Z.of_nat (length r)))), (Z.eqb_spec p a); cbn [andb]; try lia; try reflexivity.
    + unfold znth. destruct (Z.ltb_spec (p - (a+1)) 0), (Z.ltb_spec (p - a) 0); try lia.
      replace (Z.to_nat (p - a)) with (S (Z.to_nat (p - (a+1)))) by lia. reflexivity.
    + subst. unfold znth. replace (a - a) with 0 by lia. reflexivity.
Qed.
Lemma fill0_length d a n : length (fill0 d a n) = length d.
Proof. revert d a; induction n as [|n IH]; intros d a; cbn; [reflexivity|]. now rewrite IH, setb_length. Qed.
Lemma getb_fill0 d a n p : 0 <= a -> a + Z.of_nat n <= Z.of_nat (length d) ->
  getb (fill0 d a n) p = if (a <=? p) && (p <? a + Z.of_nat n) then 0 else getb d p.
Proof.
  revert d a; induction n as [|n IH]; intros d a Ha Hl; cbn [fill0].
  - destruct (Z.leb_spec a p), (Z.ltb_spec p (a + Z.of_nat 0)); cbn; try reflexivity; lia.
  - rewrite Nat2Z.inj_succ in *. rewrite IH by (rewrite ?setb_length; lia). rewrite getb_setb by lia.
    destruct (Z.leb_spec (a+1) p), (Z.ltb_spec p (a + 1 + Z.of_nat n)), (Z.leb_spec a p), (Z.ltb_spec p (a + Z.succ (Z.of_nat n))), (Z.eqb_spec p a); cbn [andb]; try lia; reflexivity.
Qed.
(* strnlen: m nonzero bytes, then a zero byte or the limit *)
Lemma strnlen_at_char d i n m : 0 <= m <= Z.of_nat n ->
  (forall j, 0 <= j < m -> getb d (i + j) <> 0) -> (m = Z.of_nat n \/ getb d (i + m) = 0) -> strnlen_at d i n = m.
Proof.
  revert i m; induction n as [|n IH]; intros i m Hm Hnz Hend; cbn [strnlen_at]; [lia|].
  destruct (Z.eq_dec m 0) as [->|Hm0].
  - destruct Hend as [H|H]; [lia|]. rewrite Z.add_0_r in H. now rewrite H.
  - pose proof (Hnz 0 ltac:(lia)) as H0. rewrite Z.add_0_r in H0. destruct (Z.eqb_spec (getb d i) 0); [contradiction|].
    rewrite (IH (i+1) (m-1)); [lia|lia| |].
    + intros j Hj. replace (i + 1 + j) with (i + (j+1)) by lia. apply Hnz. lia.
    + destruct Hend as [H|H]; [left; lia|right]. now replace (i + 1 + (m - 1)) with (i + m) by lia.
Qed.
Lemma strnlen_l_char s n : Forall (fun c => c <> 0) (firstn n s) -> strnlen_l s n = Z.of_nat (length (firstn n s)).
Proof.
  revert s; induction n as [|n IH]; intros s H; [destruct s; reflexivity|]. destruct s as [|c r]; [reflexivity|].
  cbn [firstn] in H. inversion H; subst. cbn [strnlen_l firstn length]. destruct (Z.eqb_spec c 0); [contradiction|].
  rewrite IH by assumption. lia.
Qed.

(* ---------- circular addressing without division ---------- *)
Definition wrap (size a:Z) : Z := if a <? size then a else a - size.
Ltac cases := repeat (match goal with
  | |- context [?a <? ?b] => destruct (Z.ltb_spec a b)
  | |- context [?a <=? ?b] => destruct (Z.leb_spec a b)
  | |- context [?a =? ?b] => destruct (Z.eqb_spec a b)
  end; cbn [andb orb negb]; try lia).

Lemma nth_firstn_lt (l:list Z) : forall n k, (k < n)%nat -> nth k (firstn n l) 0 = nth k l 0.
Proof. induction l as [|c l IH]; intros [|n] [|k] H; cbn; try lia; auto. apply IH. lia. Qed.
Lemma nth_skipn_add (l:list Z) : forall n k, nth k (skipn n l) 0 = nth (k + n) l 0.
Proof. induction l as [|c l IH]; intros [|n] k; cbn [skipn]; try (now destruct k); [now rewrite Nat.add_0_r|].
  rewrite IH. replace (k + S n)%nat with (S (k + n)) by lia. reflexivity. Qed.
Lemma znth_firstn k n l : k < Z.of_nat n -> znth k (firstn n l) = znth k l.
Proof. intro H. unfold znth. destruct (Z.ltb_spec k 0); [reflexivity|]. apply nth_firstn_lt. lia. Qed.
Lemma znth_skipn k n l : 0 <= k -> znth k (skipn n l) = znth (k + Z.of_nat n) l.
Proof. intro H. unfold znth. cases. rewrite nth_skipn_add. f_equal. lia. Qed.
Lemma znth_app_l k l1 l2 : k < Z.of_nat (length l1) -> znth k (l1 ++ l2) = znth k l1.
Proof. intro H. unfold znth. cases. apply app_nth1. lia. Qed.
Lemma znth_app_r k l1 l2 : Z.of_nat (length l1) <= k -> znth k (l1 ++ l2) = znth (k - Z.of_nat (length l1)) l2.
Proof. intro H. unfold znth. cases. rewrite app_nth2 by lia. f_equal. lia. Qed.
Lemma znth_beyond k l : Z.of_nat (length l) <= k -> znth k l = 0.
Proof. intro H. unfold znth. cases. apply nth_overflow. lia. Qed.

(* memcpy in one or two pieces = writing the source circularly from wr *)
Definition cwrite (d:list Z) (size wr:Z) (src:list Z) : list Z :=
  let rem := size - wr in
  if rem <=? Z.of_nat (length src) then write (write d wr (firstn (Z.to_nat rem) src)) 0 (skipn (Z.to_nat rem) src)
  else write d wr src.
Lemma cwrite_bytes d size wr src : Z.of_nat (length d) = size -> 0 <= wr < size -> Z.of_nat (length src) <= size ->
  length (cwrite d size wr src) = length d /\
  forall j, 0 <= j < size -> getb (cwrite d size wr src) (wrap size (wr + j)) =
     if j <? Z.of_nat (length src) then znth j src else getb d (wrap size (wr + j)).
Proof.
  intros Hl Hwr Hs. unfold cwrite. destruct (Z.leb_spec (size - wr) (Z.of_nat (length src))) as [Hle|Hgt].
  - split; [now rewrite !write_length|]. intros j Hj.
    assert (Hf : Z.of_nat (length (firstn (Z.to_nat (size - wr)) src)) = size - wr) by (rewrite firstn_length_le by lia; lia).
    assert (Hk : Z.of_nat (length (skipn (Z.to_nat (size - wr)) src)) = Z.of_nat (length src) - (size - wr)) by (rewrite skipn_length; lia).
    rewrite getb_write by (rewrite ?write_length; lia). rewrite getb_write by lia. rewrite Hf, Hk.
    unfold wrap. cases.
    + rewrite znth_firstn by lia. f_equal. lia.
    + rewrite znth_skipn by lia. f_equal. lia.
  - split; [now rewrite write_length|]. intros j Hj. rewrite getb_write by lia. unfold wrap. cases. f_equal. lia.
Qed.

(* ---------- the invariant ---------- *)
Fixpoint img (ts:list (list Z)) : list Z := match ts with [] => [] | t::r => t ++ 0 :: img r end.
Definition good_text (t:list Z) : Prop := t <> [] /\ Forall (fun c => c <> 0) t.
Record HInv (h:heap) (st:Z) (ts:list (list Z)) : Prop := {
  hi_size : 0 < hsize h;
  hi_len : Z.of_nat (length (hdata h)) = hsize h;
  hi_st : 0 <= st < hsize h;
  hi_fit : Z.of_nat (length (img ts)) <= hsize h;
  hi_count : hcount h = hsize h - Z.of_nat (length (img ts));
  hi_wr : hwr h = wrap (hsize h) (st + Z.of_nat (length (img ts)));
  hi_empty : ts = [] -> st = 0;
  hi_good : Forall good_text ts;
  hi_bytes : forall k, 0 <= k < hsize h -> getb (hdata h) (wrap (hsize h) (st + k)) = znth k (img ts) }.

Lemma img_app ts1 ts2 : img (ts1 ++ ts2) = img ts1 ++ img ts2.
Proof. induction ts1 as [|t r IH]; cbn; [reflexivity|]. now rewrite IH, <- app_assoc. Qed.

Lemma strnlen_l_spec s : forall n, let m := strnlen_l s n in
  0 <= m <= Z.of_nat (length s) /\ m <= Z.of_nat n /\ Forall (fun c => c <> 0) (firstn (Z.to_nat m) s).
Proof.
  induction s as [|c r IH]; intros [|n]; cbn [strnlen_l length]; try (repeat split; try lia; constructor).
  destruct (Z.eqb_spec c 0) as [E|E]; [repeat split; try lia; constructor|].
  destruct (IH n) as (H1 & H2 & H3). repeat split; try lia.
  replace (Z.to_nat (1 + strnlen_l r n)) with (S (Z.to_nat (strnlen_l r n))) by lia. cbn [firstn]. now constructor.
Qed.

Lemma wrap_range size a : 0 < size -> 0 <= a < 2 * size -> 0 <= wrap size a < size.
Proof. intros. unfold wrap. cases. Qed.
Lemma wrap_inj size st k k' : 0 <= st < size -> 0 <= k < size -> 0 <= k' < size -> wrap size (st + k) = wrap size (st + k') -> k = k'.
Proof. unfold wrap. intros. revert H2. cases. Qed.
(* the position k cells after st, seen from the write cursor wrap (st + L) *)
Definition from_wr (size L k:Z) : Z := if L <=? k then k - L else k - L + size.
Lemma wrap_shift size st L k : 0 <= st < size -> 0 <= L <= size -> 0 <= k < size ->
  wrap size (st + k) = wrap size (wrap size (st + L) + from_wr size L k) /\ 0 <= from_wr size L k < size.
Proof. intros. unfold wrap, from_wr. cases. Qed.

(* ---------- strndup ---------- *)
Lemma strndup_eq h c r n :
  let s := c :: r in let len := strnlen_l s (Z.to_nat n) + 1 in
  0 < hsize h -> 0 <= hwr h < hsize h -> getb (hdata h) (hwr h) = 0 -> c <> 0 -> len <= hcount h ->
  heap_strndup h s n = (Some (hwr h),
    {| hdata := setb (cwrite (hdata h) (hsize h) (hwr h) (firstn (Z.to_nat len) (s ++ [0]))) (Z.to_nat (wrap (hsize h) (hwr h + len - 1))) 0;
       hwr := wrap (hsize h) (hwr h + len); hcount := hcount h - len; hsize := hsize h |}).
Proof.
  intros s len Hs Hwr H0 Hc Hcnt. unfold heap_strndup. fold s. fold len.
  destruct (Z.eqb_spec (hsize h) 0); [lia|]. rewrite H0. cbn [Z.eqb negb].
  unfold s at 1. destruct (Z.eqb_spec c 0); [contradiction|].
  destruct (Z.ltb_spec (hcount h) len); [lia|].
  destruct (strnlen_l_spec s (Z.to_nat n)) as (Hm1 & Hm2 & _). fold len in Hm1.
  assert (Hsrc : Z.of_nat (length (firstn (Z.to_nat len) (s ++ [0]))) = len).
  { rewrite firstn_length_le; [lia|]. rewrite app_length. cbn [length]. lia. }
  set (src := firstn (Z.to_nat len) (s ++ [0])) in *.
  unfold cwrite. rewrite Hsrc.
  destruct (Z.leb_spec (hsize h - hwr h) len) as [Hle|Hgt].
  - assert (Hk : Z.of_nat (length (skipn (Z.to_nat (hsize h - hwr h)) src)) = len - (hsize h - hwr h)) by (rewrite skipn_length; lia).
    rewrite Hk. f_equal. unfold wrap.
    destruct (Z.ltb_spec 0 (0 + (len - (hsize h - hwr h)))), (Z.ltb_spec (hwr h + len - 1) (hsize h)), (Z.ltb_spec (hwr h + len) (hsize h)); try lia; f_equal; try lia; do 2 f_equal; lia.
  - rewrite Hsrc. f_equal. unfold wrap.
    destruct (Z.ltb_spec 0 (hwr h + len)), (Z.ltb_spec (hwr h + len - 1) (hsize h)), (Z.ltb_spec (hwr h + len) (hsize h)); try lia; f_equal; try lia; do 2 f_equal; lia.
Qed.

Definition stored_text (s:list Z) (n:Z) : list Z := firstn (Z.to_nat (strnlen_l s (Z.to_nat n))) s.

(* the length limit is at least 1 whenever there is a first character: SCPI_ErrorPushEx replaces a limit of 0 by strnlen(info, 255) *)
Definition len_ok (s:list Z) (n:Z) : Prop := match s with c :: _ => c <> 0 -> 1 <= n | [] => True end.
Theorem strndup_inv h st ts s n : HInv h st ts -> len_ok s n ->
  match heap_strndup h s n with
  | (None, h') => h' = h
  | (Some p, h') => p = wrap (hsize h) (st + Z.of_nat (length (img ts))) /\ good_text (stored_text s n) /\
                    HInv h' st (ts ++ [stored_text s n]) /\ hsize h' = hsize h
  end.
Proof.
  intros [Hsz Hlen Hst Hfit Hcnt Hwr Hemp Hgood Hbytes] Hn.
  set (L := Z.of_nat (length (img ts))) in *.
  assert (Hwr_rng : 0 <= hwr h < hsize h) by (rewrite Hwr; apply wrap_range; lia).
  destruct (Z.eq_dec (getb (hdata h) (hwr h)) 0) as [H0|H0].
  2:{ unfold heap_strndup. destruct (hsize h =? 0); [reflexivity|]. destruct (Z.eqb_spec (getb (hdata h) (hwr h)) 0); [contradiction|]. reflexivity. }
  destruct s as [|c r].
  { unfold heap_strndup. destruct (hsize h =? 0); [reflexivity|]. rewrite H0. reflexivity. }
  destruct (Z.eq_dec c 0) as [Hc|Hc].
  { unfold heap_strndup. destruct (hsize h =? 0); [reflexivity|]. rewrite H0. cbn [Z.eqb negb]. subst c. reflexivity. }
  pose proof (strndup_eq h c r n) as E. cbv zeta in E.
  unfold stored_text.
  set (s := c :: r) in *. set (slen := strnlen_l s (Z.to_nat n)) in *. set (len := slen + 1) in *.
  destruct (Z.lt_ge_cases (hcount h) len) as [Hlt|Hge].
  { unfold heap_strndup. destruct (hsize h =? 0); [reflexivity|]. rewrite H0. cbn [Z.eqb negb]. unfold s at 1.
    destruct (Z.eqb_spec c 0); [contradiction|]. fold slen len. destruct (Z.ltb_spec (hcount h) len); [reflexivity|lia]. }
  rewrite (E Hsz Hwr_rng H0 Hc Hge). clear E.
  destruct (strnlen_l_spec s (Z.to_nat n)) as (Hm1 & Hm2 & Hm3). fold slen in Hm1, Hm2, Hm3.
  assert (Hpos : 1 <= slen).
  { cbn [len_ok] in Hn. specialize (Hn Hc). unfold slen, s. destruct (Z.to_nat n) as [|n0] eqn:En; [lia|].
    cbn [strnlen_l]. destruct (Z.eqb_spec c 0); [contradiction|]. destruct (strnlen_l_spec r n0) as (? & _). lia. }
  set (t := firstn (Z.to_nat slen) s) in *.
  assert (Htl : Z.of_nat (length t) = slen) by (unfold t; rewrite firstn_length_le; lia).
  assert (Hgt : good_text t).
  { split; [|exact Hm3]. intro Hnil. rewrite Hnil in Htl. cbn [length] in Htl. lia. }
  assert (Himg : img (ts ++ [t]) = img ts ++ t ++ [0]) by (rewrite img_app; cbn [img]; reflexivity).
  assert (HL' : Z.of_nat (length (img (ts ++ [t]))) = L + len).
  { rewrite Himg, !app_length. cbn [length]. fold L. lia. }
  set (src := firstn (Z.to_nat len) (s ++ [0])) in *.
  assert (Hsrc : Z.of_nat (length src) = len).
  { unfold src. rewrite firstn_length_le; [lia|]. rewrite app_length. cbn [length]. lia. }
  destruct (cwrite_bytes (hdata h) (hsize h) (hwr h) src Hlen Hwr_rng ltac:(lia)) as [Hcl Hcb].
  split; [exact Hwr|]. split; [exact Hgt|]. split; [|reflexivity].
  constructor; cbn [hdata hwr hcount hsize].
  - exact Hsz.
  - rewrite setb_length, Hcl. exact Hlen.
  - exact Hst.
  - rewrite HL'. lia.
  - rewrite HL'. lia.
  - rewrite HL', Hwr. unfold wrap. cases.
  - intro Hnil. destruct ts; discriminate.
  - apply Forall_app. split; [exact Hgood|]. constructor; [exact Hgt|constructor].
  - intros k Hk.
    destruct (wrap_shift (hsize h) st L k Hst ltac:(unfold L; lia) Hk) as [Hsh Hj]. rewrite <- Hwr in Hsh.
    set (j := from_wr (hsize h) L k) in *.
    assert (Hlast : wrap (hsize h) (hwr h + len - 1) = wrap (hsize h) (hwr h + (len - 1))) by (f_equal; lia).
    rewrite Hsh, getb_setb by (rewrite Hcl, Hlen, Hlast; apply wrap_range; lia).
    rewrite Hcb by exact Hj. rewrite Hsrc, Hlast. rewrite Himg.
    destruct (Z.eqb_spec (wrap (hsize h) (hwr h + j)) (wrap (hsize h) (hwr h + (len - 1)))) as [Heq|Hne].
    + apply wrap_inj in Heq; try lia. assert (k = L + slen) by (unfold j, from_wr in Heq; revert Heq; cases).
      rewrite znth_app_r by (fold L; lia). fold L. rewrite znth_app_r by lia. replace (k - L - Z.of_nat (length t)) with 0 by lia. reflexivity.
    + assert (Hjn : j <> len - 1) by (intro; apply Hne; congruence).
      destruct (Z.ltb_spec j len) as [Hjl|Hjl].
      * assert (Hk2 : L <= k /\ j = k - L) by (unfold j, from_wr in *; revert Hjl Hjn; cases). destruct Hk2 as [Hk2 Hjk].
        rewrite znth_app_r by (fold L; lia). fold L. rewrite <- Hjk. rewrite znth_app_l by lia.
        unfold src. rewrite znth_firstn by lia. rewrite znth_app_l by lia. unfold t. rewrite znth_firstn by lia. reflexivity.
      * rewrite <- Hsh, Hbytes by exact Hk.
        destruct (Z.lt_ge_cases k L) as [HkL|HkL].
        -- rewrite znth_app_l by (fold L; lia). reflexivity.
        -- assert (L + len <= k) by (unfold j, from_wr in Hjl; revert Hjl; cases).
           rewrite znth_beyond by (fold L; lia). rewrite znth_beyond; [reflexivity|]. rewrite !app_length. cbn [length]. fold L. lia.
Qed.

(* ---------- reading a text back ---------- *)
Lemma img_mid ts1 t ts2 : img (ts1 ++ t :: ts2) = img ts1 ++ t ++ 0 :: img ts2.
Proof. rewrite img_app. reflexivity. Qed.
Lemma znth_nonzero t j : Forall (fun c => c <> 0) t -> 0 <= j < Z.of_nat (length t) -> znth j t <> 0.
Proof. intros Hf Hj. unfold znth. destruct (Z.ltb_spec j 0); [lia|]. rewrite Forall_forall in Hf. apply Hf, nth_In. lia. Qed.
Lemma wrap_add size a j : 0 <= a < 2 * size -> 0 <= j -> wrap size a + j < size -> wrap size (a + j) = wrap size a + j.
Proof. unfold wrap. intros. revert H1. cases. Qed.

Section At.
  Variables (h:heap) (st:Z) (ts1:list (list Z)) (t:list Z) (ts2:list (list Z)).
  Hypothesis HI : HInv h st (ts1 ++ t :: ts2).
  Let size := hsize h.
  Let off := Z.of_nat (length (img ts1)).
  Let lt := Z.of_nat (length t).
  Let p := wrap size (st + off).

  Lemma at_facts : 0 < size /\ 0 <= st < size /\ 1 <= lt /\ off + lt + 1 <= size /\ 0 <= p < size /\ Forall (fun c => c <> 0) t /\
    (forall j, 0 <= j < lt -> getb (hdata h) (wrap size (st + (off + j))) = znth j t) /\
    getb (hdata h) (wrap size (st + (off + lt))) = 0.
  Proof.
    destruct HI as [Hsz Hlen Hst Hfit Hcnt Hwr Hemp Hgood Hbytes]. fold size in Hsz, Hlen, Hst, Hfit, Hbytes |- *.
    rewrite img_mid, !app_length in Hfit. cbn [length] in Hfit. fold off lt in Hfit.
    apply Forall_app in Hgood. destruct Hgood as [_ Hg]. inversion Hg as [|x l [Hne Hnz] _]; subst.
    assert (1 <= lt) by (unfold lt; destruct t; [congruence|cbn [length]; lia]).
    assert (0 <= off) by (unfold off; lia).
    repeat split; try lia; try (apply wrap_range; lia); try exact Hnz.
    - intros j Hj. rewrite Hbytes by lia. rewrite img_mid. rewrite znth_app_r by (fold off; lia). fold off.
      replace (off + j - off) with j by lia. apply znth_app_l. fold lt. lia.
    - rewrite Hbytes by lia. rewrite img_mid. rewrite znth_app_r by (fold off; lia). fold off.
      rewrite znth_app_r by (fold lt; lia). fold lt. replace (off + lt - off - lt) with 0 by lia. reflexivity.
  Qed.

  Lemma parts_at : heap_get_parts h p =
    Some (if p + lt <? size then (lt, None, 0) else (size - p, Some 0, lt - (size - p))).
  Proof.
    destruct at_facts as (Hsz & Hst & Hlt & Hfit & Hp & Hnz & Hb & Hz).
    assert (Hoff : 0 <= off) by (unfold off; lia).
    unfold heap_get_parts. fold size.
    assert (H0 : getb (hdata h) p <> 0).
    { specialize (Hb 0 ltac:(lia)). rewrite Z.add_0_r in Hb. fold p in Hb. rewrite Hb. apply znth_nonzero; [exact Hnz|]. fold lt. lia. }
    destruct (Z.eqb_spec (getb (hdata h) p) 0); [contradiction|].
    destruct (Z.ltb_spec (p + lt) size) as [Hfits|Hwraps].
    - rewrite (strnlen_at_char (hdata h) p (Z.to_nat (size - p)) lt); [| lia | |].
      + destruct (Z.eqb_spec (p + lt - 1) (size - 1)); [lia|reflexivity].
      + intros j Hj. replace (p + j) with (wrap size (st + (off + j))).
        * rewrite Hb by lia. apply znth_nonzero; [exact Hnz|]. fold lt. lia.
        * replace (st + (off + j)) with (st + off + j) by lia. apply wrap_add; fold p; lia.
      + right. replace (p + lt) with (wrap size (st + (off + lt))); [exact Hz|].
        replace (st + (off + lt)) with (st + off + lt) by lia. apply wrap_add; fold p; lia.
    - assert (Hnw : st + off < size) by (unfold p, wrap in Hwraps; revert Hwraps; cases).
      assert (Hpe : p = st + off) by (unfold p, wrap; cases).
      rewrite (strnlen_at_char (hdata h) p (Z.to_nat (size - p)) (size - p)); [| lia | |left; lia].
      + destruct (Z.eqb_spec (p + (size - p) - 1) (size - 1)); [|lia].
        rewrite (strnlen_at_char (hdata h) 0 (Z.to_nat size) (lt - (size - p))); [reflexivity|lia| |].
        * intros j Hj. replace (0 + j) with (wrap size (st + (off + (size - p + j)))) by (unfold wrap; cases).
          rewrite Hb by lia. apply znth_nonzero; [exact Hnz|]. fold lt. lia.
        * right. replace (0 + (lt - (size - p))) with (wrap size (st + (off + lt))) by (unfold wrap; cases). exact Hz.
      + intros j Hj. replace (p + j) with (wrap size (st + (off + j))) by (unfold wrap; cases).
        rewrite Hb by lia. apply znth_nonzero; [exact Hnz|]. fold lt. lia.
  Qed.
End At.

Lemma slice_eq (d:list Z) p l : 0 <= p -> p + Z.of_nat (length l) <= Z.of_nat (length d) ->
  (forall j, 0 <= j < Z.of_nat (length l) -> getb d (p + j) = znth j l) ->
  firstn (length l) (skipn (Z.to_nat p) d) = l.
Proof.
  intros Hp Hlen Hb. apply nth_ext with (d := 0) (d' := 0).
  - rewrite firstn_length_le; [reflexivity|]. rewrite skipn_length. lia.
  - intros i Hi. rewrite firstn_length_le in Hi by (rewrite skipn_length; lia).
    rewrite nth_firstn_lt by exact Hi. rewrite nth_skipn_add.
    specialize (Hb (Z.of_nat i) ltac:(lia)). unfold getb, znth in Hb.
    destruct (Z.ltb_spec (p + Z.of_nat i) 0); [lia|]. destruct (Z.ltb_spec (Z.of_nat i) 0); [lia|].
    rewrite Nat2Z.id in Hb. rewrite <- Hb. f_equal. lia.
Qed.

(* C20, "exactly the text it was pushed with": the two parts handed to the response writer concatenate to the stored text *)
Theorem text_at h st ts1 t ts2 : HInv h st (ts1 ++ t :: ts2) ->
  exists p1 p2, heap_text h (Some (wrap (hsize h) (st + Z.of_nat (length (img ts1))))) = Some (p1, p2) /\
                p1 ++ match p2 with Some x => x | None => [] end = t.
Proof.
  intros HI. pose proof (at_facts h st ts1 t ts2 HI) as (Hsz & Hst & Hlt & Hfit & Hp & Hnz & Hb & Hz).
  pose proof (parts_at h st ts1 t ts2 HI) as Hparts. pose proof (hi_len _ _ _ HI) as Hlen.
  set (size := hsize h) in *. set (off := Z.of_nat (length (img ts1))) in *. set (lt := Z.of_nat (length t)) in *.
  set (p := wrap size (st + off)) in *.
  assert (Hoff : 0 <= off) by (unfold off; lia).
  unfold heap_text. rewrite Hparts. destruct (Z.ltb_spec (p + lt) size) as [Hfits|Hwraps].
  - eexists _, None. split; [reflexivity|]. rewrite app_nil_r. unfold lt. rewrite Nat2Z.id.
    apply slice_eq; [lia|lia|]. intros j Hj. rewrite <- Hb by (fold lt in Hj; lia). f_equal.
    replace (st + (off + j)) with (st + off + j) by lia. symmetry. apply wrap_add; fold p; lia.
  - assert (Hpe : p = st + off) by (unfold p, wrap in *; revert Hwraps; cases).
    eexists _, (Some _). split; [reflexivity|].
    transitivity (firstn (Z.to_nat (size - p)) t ++ skipn (Z.to_nat (size - p)) t); [|apply firstn_skipn]. f_equal.
    + assert (Hl1 : length (firstn (Z.to_nat (size - p)) t) = Z.to_nat (size - p)) by (rewrite firstn_length_le; lia).
      rewrite <- Hl1 at 1. apply slice_eq; [lia|lia|]. rewrite Hl1. intros j Hj. rewrite znth_firstn by lia.
      rewrite <- Hb by lia. f_equal. unfold wrap. cases.
    + assert (Hl2 : length (skipn (Z.to_nat (size - p)) t) = Z.to_nat (lt - (size - p))) by (rewrite skipn_length; lia).
      rewrite <- Hl2. replace (Z.to_nat 0) with (Z.to_nat 0) by reflexivity. apply slice_eq; [lia|lia|]. rewrite Hl2. intros j Hj.
      rewrite znth_skipn by lia. rewrite Z2Nat.id by lia. rewrite <- Hb by lia. f_equal. unfold wrap. cases.
Qed.

(* ---------- releasing a text ---------- *)
Section Free.
  Variables (h:heap) (st:Z) (ts1:list (list Z)) (t:list Z) (ts2:list (list Z)).
  Hypothesis HI : HInv h st (ts1 ++ t :: ts2).
  Let size := hsize h.
  Let off := Z.of_nat (length (img ts1)).
  Let lt := Z.of_nat (length t).
  Let p := wrap size (st + off).
  Definition freed_data : list Z :=
    if p + lt <? size then fill0 (hdata h) p (Z.to_nat (lt + 1))
    else fill0 (fill0 (hdata h) 0 (Z.to_nat (lt - (size - p) + 1))) p (Z.to_nat (size - p)).

  Lemma free_eq rb : heap_free h (Some p) rb =
    {| hdata := freed_data;
       hwr := if hcount h + (lt + 1) =? size then 0
              else if rb then (if hwr h <? lt + 1 then hwr h + size else hwr h) - (lt + 1) else hwr h;
       hcount := hcount h + (lt + 1); hsize := size |}.
  Proof.
    pose proof (parts_at h st ts1 t ts2 HI) as Hparts. fold size off lt p in Hparts.
    unfold heap_free. rewrite Hparts. fold size. unfold freed_data.
    destruct (Z.ltb_spec (p + lt) size) as [Hfits|Hwraps].
    - replace (lt + 1 + 0) with (lt + 1) by lia. destruct (hcount h + (lt + 1) =? size); [reflexivity|]. destruct rb; reflexivity.
    - replace (hcount h + (lt - (size - p) + 1) + (size - p)) with (hcount h + (lt + 1)) by lia.
      replace (size - p + (lt - (size - p) + 1)) with (lt + 1) by lia. destruct (hcount h + (lt + 1) =? size); [reflexivity|]. destruct rb; reflexivity.
  Qed.

  Lemma freed_bytes : length freed_data = length (hdata h) /\
    forall j, 0 <= j < size -> getb freed_data (wrap size (p + j)) = if j <? lt + 1 then 0 else getb (hdata h) (wrap size (p + j)).
  Proof.
    pose proof (at_facts h st ts1 t ts2 HI) as (Hsz & Hst & Hlt & Hfit & Hp & Hnz & Hb & Hz).
    pose proof (hi_len _ _ _ HI) as Hlen. fold size off lt p in Hsz, Hst, Hlt, Hfit, Hp, Hlen.
    unfold freed_data. destruct (Z.ltb_spec (p + lt) size) as [Hfits|Hwraps].
    - split; [apply fill0_length|]. intros j Hj. rewrite getb_fill0 by lia. unfold wrap. cases.
    - split; [now rewrite !fill0_length|]. intros j Hj.
      rewrite getb_fill0 by (rewrite ?fill0_length; lia). rewrite getb_fill0 by lia. unfold wrap. cases.
  Qed.
End Free.

Lemma img_nil_iff ts : Z.of_nat (length (img ts)) = 0 <-> ts = [].
Proof. split; [|intros ->; reflexivity]. destruct ts as [|t r]; [reflexivity|]. cbn [img]. rewrite app_length. cbn [length]. lia. Qed.

(* the oldest text is released (pop, clear): no roll-back *)
Theorem free_first h st t ts : HInv h st (t :: ts) ->
  let st' := match ts with [] => 0 | _ => wrap (hsize h) (st + (Z.of_nat (length t) + 1)) end in
  HInv (heap_free h (Some st) false) st' ts /\ hsize (heap_free h (Some st) false) = hsize h.
Proof.
  intros HI st'. pose proof (free_eq h st [] t ts HI false) as E. pose proof (freed_bytes h st [] t ts HI) as [Hfl Hfb].
  pose proof (at_facts h st [] t ts HI) as (Hsz & Hst & Hlt & Hfit & _ & _ & _ & _).
  pose proof HI as [_ Hlen _ Hfit' Hcnt Hwr _ Hgood Hbytes].
  cbn [img length app] in E, Hfb, Hfit, Hfl. rewrite Z.add_0_r in E, Hfb.
  assert (Hp : wrap (hsize h) st = st) by (unfold wrap; cases). rewrite Hp in E, Hfb. rewrite E. clear E.
  set (size := hsize h) in *. set (lt := Z.of_nat (length t)) in *.
  set (d2 := freed_data h st [] t) in *.
  assert (HL : Z.of_nat (length (img (t :: ts))) = lt + 1 + Z.of_nat (length (img ts))).
  { cbn [img]. rewrite app_length. cbn [length]. fold lt. lia. }
  set (L' := Z.of_nat (length (img ts))) in *.
  inversion Hgood as [|x l _ Hgood']; subst x l.
  split; [|reflexivity]. constructor; cbn [hdata hwr hcount hsize]; fold size.
  - exact Hsz.
  - rewrite Hfl. exact Hlen.
  - unfold st'. destruct ts; [lia|]. apply wrap_range; lia.
  - fold L'. lia.
  - fold L'. lia.
  - fold L'. destruct (Z.eqb_spec (hcount h + (lt + 1)) size) as [Hfull|Hnf].
    + assert (L' = 0) by lia. assert (ts = []) by (apply img_nil_iff; exact H). subst ts. unfold st', wrap. cases.
    + assert (ts <> []) by (intro; subst ts; cbn in L'; lia). unfold st'. destruct ts as [|u r]; [congruence|].
      rewrite Hwr, HL. fold L'. unfold wrap. cases.
  - intro Hnil. subst ts. reflexivity.
  - exact Hgood'.
  - intros k Hk.
    (* position k after the new start = position k + lt + 1 after the old one, possibly wrapped *)
    set (j := if k + (lt + 1) <? size then k + (lt + 1) else k + (lt + 1) - size).
    assert (Hj : 0 <= j < size) by (unfold j; cases).
    destruct (Z.lt_ge_cases k L') as [HkL|HkL].
    + assert (Hts : ts <> []) by (intro; subst ts; cbn in L'; lia).
      assert (Hpos : wrap size (st' + k) = wrap size (st + j)).
      { unfold st'. destruct ts; [congruence|]. unfold j, wrap. cases. }
      rewrite Hpos, Hfb by exact Hj. assert (j = k + (lt + 1)) by (unfold j; cases).
      destruct (Z.ltb_spec j (lt + 1)); [lia|]. rewrite Hbytes by (fold size; lia). cbn [img].
      rewrite znth_app_r by (fold lt; lia). fold lt. unfold znth at 1. destruct (Z.ltb_spec (j - lt) 0); [lia|].
      replace (Z.to_nat (j - lt)) with (S (Z.to_nat k)) by lia. cbn [nth]. unfold znth. destruct (Z.ltb_spec k 0); [lia|reflexivity].
    + rewrite (znth_beyond k) by (fold L'; lia).
      (* every cell not covered by the remaining texts is zero *)
      assert (Hq : 0 <= wrap size (st' + k) < size).
      { apply wrap_range; [lia|]. unfold st'. destruct ts; [lia|]. pose proof (wrap_range size (st + (lt + 1)) Hsz ltac:(lia)). lia. }
      set (q := wrap size (st' + k)) in *.
      set (i := if st <=? q then q - st else q - st + size).
      assert (Hi : 0 <= i < size) by (unfold i; cases).
      assert (Hqi : q = wrap size (st + i)) by (unfold i, wrap; cases).
      rewrite Hqi, Hfb by exact Hi. destruct (Z.ltb_spec i (lt + 1)); [reflexivity|].
      rewrite Hbytes by (fold size; lia). apply znth_beyond. rewrite HL.
      (* i >= lt + 1 + L' because q lies k >= L' cells after the new start *)
      unfold i, q, st' in *. destruct ts as [|u r].
      * cbn in L'. cases.
      * revert H. unfold wrap. cases.
Qed.

(* the newest text is released (queue overflow): the write cursor rolls back to its start *)
Theorem free_last h st ts t : HInv h st (ts ++ [t]) ->
  let st' := match ts with [] => 0 | _ => st end in
  let hf := heap_free h (Some (wrap (hsize h) (st + Z.of_nat (length (img ts))))) true in
  HInv hf st' ts /\ hsize hf = hsize h.
Proof.
  intros HI st' hf. pose proof (free_eq h st ts t [] HI true) as E. pose proof (freed_bytes h st ts t [] HI) as [Hfl Hfb].
  pose proof (at_facts h st ts t [] HI) as (Hsz & Hst & Hlt & Hfit & Hp & _ & _ & _).
  pose proof HI as [_ Hlen _ Hfit' Hcnt Hwr _ Hgood Hbytes].
  unfold hf. rewrite E. clear E hf.
  set (size := hsize h) in *. set (lt := Z.of_nat (length t)) in *. set (off := Z.of_nat (length (img ts))) in *.
  set (p := wrap size (st + off)) in *. set (d2 := freed_data h st ts t) in *.
  assert (HL : Z.of_nat (length (img (ts ++ [t]))) = off + lt + 1).
  { rewrite img_app, !app_length. cbn [img length]. rewrite app_length. cbn [length]. fold lt off. lia. }
  rewrite HL in Hcnt, Hwr, Hfit'.
  assert (Hoff : 0 <= off) by (unfold off; lia).
  apply Forall_app in Hgood. destruct Hgood as [Hgood' _].
  split; [|reflexivity]. constructor; cbn [hdata hwr hcount hsize]; fold size.
  - exact Hsz.
  - rewrite Hfl. exact Hlen.
  - unfold st'. destruct ts; lia.
  - fold off. lia.
  - fold off. lia.
  - fold off. destruct (Z.eqb_spec (hcount h + (lt + 1)) size) as [Hfull|Hnf].
    + assert (off = 0) by lia. assert (ts = []) by (apply img_nil_iff; exact H). subst ts. unfold st', wrap. cases.
    + assert (ts <> []) by (intro; subst ts; cbn in off; lia). unfold st'. destruct ts as [|u r]; [congruence|].
      rewrite Hwr. unfold wrap. cases.
  - intro Hnil. subst ts. reflexivity.
  - exact Hgood'.
  - intros k Hk.
    set (q := wrap size (st' + k)).
    assert (Hq : 0 <= q < size) by (apply wrap_range; [lia|]; unfold st'; destruct ts; lia).
    (* q seen from the start of the released text *)
    set (i := if p <=? q then q - p else q - p + size).
    assert (Hi : 0 <= i < size) by (unfold i; cases).
    assert (Hqi : q = wrap size (p + i)) by (unfold i, wrap; cases).
    (* and from the old start *)
    set (k0 := if st <=? q then q - st else q - st + size).
    assert (Hk0 : 0 <= k0 < size) by (unfold k0; cases).
    assert (Hqk : q = wrap size (st + k0)) by (unfold k0, wrap; cases).
    rewrite Hqi, Hfb by exact Hi. destruct (Z.ltb_spec i (lt + 1)) as [Hil|Hil].
    + (* inside the released text: k >= off *)
      symmetry. apply znth_beyond. fold off.
      unfold i, q, p, st' in *. destruct ts as [|u r]; [cbn in off; lia|]. revert Hil. unfold wrap. cases.
    + rewrite <- Hqi, Hqk, Hbytes by (fold size; lia). rewrite img_app.
      destruct (Z.lt_ge_cases k off) as [Hko|Hko].
      * assert (ts <> []) by (intro; subst ts; cbn in off; lia).
        assert (Hkk : k0 = k) by (unfold k0, q, st', wrap in *; destruct ts; [congruence|]; cases). rewrite Hkk.
        rewrite znth_app_l by (fold off; lia). reflexivity.
      * rewrite (znth_beyond k) by (fold off; lia). apply znth_beyond. rewrite app_length. cbn [img length]. rewrite app_length. cbn [length]. fold off lt.
        unfold k0, i, q, p, st' in *. destruct ts as [|u r].
        -- assert (Hoff0 : off = 0) by reflexivity. revert Hil. unfold wrap. cases.
        -- revert Hil. unfold wrap. cases.
Qed.

(* pointers of the texts that stay are not moved by either release *)
Lemma ptr_stable_first size st a b : 0 < size -> 0 <= st < size -> 0 <= a -> 0 <= b -> a + b <= size ->
  wrap size (wrap size (st + a) + b) = wrap size (st + (a + b)).
Proof. intros. unfold wrap. cases. Qed.

(* ---------- initial state, emptiness, capacity ---------- *)
Lemma getb_repeat0 n i : getb (repeat 0 n) i = 0.
Proof. unfold getb. destruct (i <? 0); [reflexivity|]. generalize (Z.to_nat i). induction n as [|n IH]; intros [|k]; cbn; auto. Qed.
Theorem init_inv size : 0 < size -> HInv (heap_init size) 0 [].
Proof.
  intro Hs. constructor; cbn [heap_init hdata hwr hcount hsize img length]; try lia.
  - rewrite repeat_length. lia.
  - unfold wrap. cases.
  - constructor.
  - intros k Hk. rewrite getb_repeat0. unfold znth. destruct (k <? 0); [reflexivity|]. now destruct (Z.to_nat k).
Qed.
(* heap space is completely reusable once no text is stored: a text of size-1 characters fits again *)
Theorem empty_reusable h st s n : HInv h st [] -> good_text (stored_text s n) ->
  Z.of_nat (length (stored_text s n)) + 1 <= hsize h -> exists p h', heap_strndup h s n = (Some p, h').
Proof.
  intros HI [Hne Hnz] Hfit. pose proof HI as [Hsz Hlen Hst _ Hcnt Hwr Hemp _ Hbytes].
  specialize (Hemp eq_refl). subst st. cbn [img length] in *.
  assert (Hwr0 : hwr h = 0) by (rewrite Hwr; unfold wrap; cases).
  assert (H0 : getb (hdata h) (hwr h) = 0).
  { rewrite Hwr0. specialize (Hbytes 0 ltac:(lia)). replace (wrap (hsize h) (0 + 0)) with 0 in Hbytes by (unfold wrap; cases). exact Hbytes. }
  destruct s as [|c r]; [exfalso; apply Hne; unfold stored_text; now rewrite firstn_nil|].
  assert (Hc : c <> 0).
  { unfold stored_text in Hne, Hnz. destruct (Z.to_nat (strnlen_l (c :: r) (Z.to_nat n))) eqn:E; [now cbn in Hne|]. cbn [firstn] in Hnz. now inversion Hnz. }
  pose proof (strndup_eq h c r n) as E. cbv zeta in E.
  destruct (strnlen_l_spec (c :: r) (Z.to_nat n)) as (Hm1 & _ & _).
  assert (Hlen_t : Z.of_nat (length (stored_text (c :: r) n)) = strnlen_l (c :: r) (Z.to_nat n)).
  { unfold stored_text. rewrite firstn_length_le; lia. }
  rewrite E; [eauto|lia|lia|exact H0|exact Hc|lia].
Qed.

Print Assumptions strndup_inv.
Print Assumptions text_at.
Print Assumptions free_first.
Print Assumptions free_last.
Print Assumptions empty_reusable.
