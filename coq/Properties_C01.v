(* C01 -- property theorems only: every statement is closed by `exact` on a lemma proved elsewhere.
   Statements are pinned by coq/statements/C01.json; ./check compares. *)
From Coq Require Import Bool List NArith ZArith Lia.
From M Require LexBounds.
From M Require UnitProgress.
From M Require UnitGeom.
From M Require Fuel.
From M Require ExprCap.
From M Require InputInv.
From M Require ArrayReaders.
From M Require ExprScenario.
From M Require Tie.
From M Require LexTok.
From M Require ParamBounds.
From M Require Dispatch.
From M Require ExprModel.
From M Require Framing2.
From M Require Fuel.
From M Require LexBounds.
From M Require LexModel.
From M Require ParserModel.
From M Require UnitProgress.
Import ListNotations.

Module T_ws_inside. Import LexBounds. Local Open Scope bool_scope. Local Open Scope Z_scope.
Import LexModel. Local Open Scope Z_scope.
Theorem C01_ws_inside :
  forall l,
  inside l (lex_ws l).
Proof. exact (@LexBounds.ws_inside). Qed.
End T_ws_inside.
Definition C01_ws_inside := @T_ws_inside.C01_ws_inside.

Module T_chr_inside. Import LexBounds. Local Open Scope bool_scope. Local Open Scope Z_scope.
Import LexModel. Local Open Scope Z_scope.
Theorem C01_chr_inside :
  forall t k l,
  inside l (lex_chr t k l).
Proof. exact (@LexBounds.chr_inside). Qed.
End T_chr_inside.
Definition C01_chr_inside := @T_chr_inside.C01_chr_inside.

Module T_newline_inside. Import LexBounds. Local Open Scope bool_scope. Local Open Scope Z_scope.
Import LexModel. Local Open Scope Z_scope.
Theorem C01_newline_inside :
  forall l,
  inside l (lex_newline l).
Proof. exact (@LexBounds.newline_inside). Qed.
End T_newline_inside.
Definition C01_newline_inside := @T_newline_inside.C01_newline_inside.

Module T_chardata_inside. Import LexBounds. Local Open Scope bool_scope. Local Open Scope Z_scope.
Import LexModel. Local Open Scope Z_scope.
Theorem C01_chardata_inside :
  forall l,
  inside l (lex_chardata l).
Proof. exact (@LexBounds.chardata_inside). Qed.
End T_chardata_inside.
Definition C01_chardata_inside := @T_chardata_inside.C01_chardata_inside.

Module T_header_inside. Import LexBounds. Local Open Scope bool_scope. Local Open Scope Z_scope.
Import LexModel. Local Open Scope Z_scope.
Theorem C01_header_inside :
  forall l,
  inside l (lex_header l).
Proof. exact (@LexBounds.header_inside). Qed.
End T_header_inside.
Definition C01_header_inside := @T_header_inside.C01_header_inside.

Module T_decimal_inside. Import LexBounds. Local Open Scope bool_scope. Local Open Scope Z_scope.
Import LexModel. Local Open Scope Z_scope.
Theorem C01_decimal_inside :
  forall l,
  inside l (lex_decimal l).
Proof. exact (@LexBounds.decimal_inside). Qed.
End T_decimal_inside.
Definition C01_decimal_inside := @T_decimal_inside.C01_decimal_inside.

Module T_suffix_inside. Import LexBounds. Local Open Scope bool_scope. Local Open Scope Z_scope.
Import LexModel. Local Open Scope Z_scope.
Theorem C01_suffix_inside :
  forall l,
  inside l (lex_suffix l).
Proof. exact (@LexBounds.suffix_inside). Qed.
End T_suffix_inside.
Definition C01_suffix_inside := @T_suffix_inside.C01_suffix_inside.

Module T_nondecimal_inside. Import LexBounds. Local Open Scope bool_scope. Local Open Scope Z_scope.
Import LexModel. Local Open Scope Z_scope.
Theorem C01_nondecimal_inside :
  forall l,
  inside l (lex_nondecimal l).
Proof. exact (@LexBounds.nondecimal_inside). Qed.
End T_nondecimal_inside.
Definition C01_nondecimal_inside := @T_nondecimal_inside.C01_nondecimal_inside.

Module T_string_inside. Import LexBounds. Local Open Scope bool_scope. Local Open Scope Z_scope.
Import LexModel. Local Open Scope Z_scope.
Theorem C01_string_inside :
  forall l,
  inside l (lex_string l).
Proof. exact (@LexBounds.string_inside). Qed.
End T_string_inside.
Definition C01_string_inside := @T_string_inside.C01_string_inside.

Module T_expr_inside. Import LexBounds. Local Open Scope bool_scope. Local Open Scope Z_scope.
Import LexModel. Local Open Scope Z_scope.
Theorem C01_expr_inside :
  forall l,
  inside l (lex_expr l).
Proof. exact (@LexBounds.expr_inside). Qed.
End T_expr_inside.
Definition C01_expr_inside := @T_expr_inside.C01_expr_inside.

Module T_block_inside. Import LexBounds. Local Open Scope bool_scope. Local Open Scope Z_scope.
Import LexModel. Local Open Scope Z_scope.
Theorem C01_block_inside :
  forall l,
  inside l (lex_block l).
Proof. exact (@LexBounds.block_inside). Qed.
End T_block_inside.
Definition C01_block_inside := @T_block_inside.C01_block_inside.

Module T_ppd_disp. Import UnitProgress. Local Open Scope bool_scope. Local Open Scope Z_scope.
Import LexModel LexBounds. Local Open Scope Z_scope.
Theorem C01_ppd_disp :
  forall l,
  0 <= disp (parse_program_data l) <= Z.of_nat (length l).
Proof. exact (@UnitProgress.ppd_disp). Qed.
End T_ppd_disp.
Definition C01_ppd_disp := @T_ppd_disp.C01_ppd_disp.

Module T_all_data_disp. Import UnitProgress. Local Open Scope bool_scope. Local Open Scope Z_scope.
Import LexModel LexBounds. Local Open Scope Z_scope.
Theorem C01_all_data_disp :
  forall fuel l pos tlen count,
  0 <= pos <= Z.of_nat (length l) ->
  pos <= ad_disp (all_data_loop fuel l pos tlen count) <= Z.of_nat (length l).
Proof. exact (@UnitProgress.all_data_disp). Qed.
End T_all_data_disp.
Definition C01_all_data_disp := @T_all_data_disp.C01_all_data_disp.

Module T_detect_progress. Import UnitProgress. Local Open Scope bool_scope. Local Open Scope Z_scope.
Import LexModel LexBounds. Local Open Scope Z_scope.
Theorem C01_detect_progress :
  forall l,
  0 <= u_consumed (detect_unit l) <= Z.of_nat (length l) /\
                          (l <> [] -> 1 <= u_consumed (detect_unit l)).
Proof. exact (@UnitProgress.detect_progress). Qed.
End T_detect_progress.
Definition C01_detect_progress := @T_detect_progress.C01_detect_progress.

Module T_header_inside_unit. Import UnitGeom. Local Open Scope bool_scope. Local Open Scope Z_scope.
Import LexModel LexBounds UnitProgress. Local Open Scope Z_scope.
Theorem C01_header_inside_unit :
  forall l,
  let u := detect_unit l in
  ty (u_hdr u) <> T_INVALID ->
  0 <= ptr (u_hdr u) /\ 0 <= len (u_hdr u) /\ ptr (u_hdr u) + len (u_hdr u) <= u_consumed u.
Proof. exact (@UnitGeom.header_inside_unit). Qed.
End T_header_inside_unit.
Definition C01_header_inside_unit := @T_header_inside_unit.C01_header_inside_unit.

Module T_parse_loop_fuel. Import Fuel. Local Open Scope bool_scope. Local Open Scope Z_scope.
Import ParserModel Framing2 Dispatch. Local Open Scope Z_scope.
Theorem C01_parse_loop_fuel :
  forall extra fuel c off len prev result d,
  0 <= off -> 0 <= len -> off + len <= Z.of_nat (length (mem c)) ->
  (match prev with Some (hp, hl) => 0 <= hp /\ 0 < hl /\ hp + hl <= off | None => True end) ->
  (Z.to_nat len < fuel)%nat ->
  parse_loop (fuel + extra) c off len prev result d = parse_loop fuel c off len prev result d.
Proof. exact (@Fuel.parse_loop_fuel). Qed.
End T_parse_loop_fuel.
Definition C01_parse_loop_fuel := @T_parse_loop_fuel.C01_parse_loop_fuel.

Module T_scpi_parse_fuel. Import Fuel. Local Open Scope bool_scope. Local Open Scope Z_scope.
Import ParserModel Framing2 Dispatch. Local Open Scope Z_scope.
Theorem C01_scpi_parse_fuel :
  forall c len d extra,
  0 <= len <= Z.of_nat (length (mem c)) ->
  parse_loop (S (Z.to_nat len) + extra) (upd_out c true 0 (arb_rem c)) 0 len None true d =
  parse_loop (S (Z.to_nat len)) (upd_out c true 0 (arb_rem c)) 0 len None true d.
Proof. exact (@Fuel.scpi_parse_fuel). Qed.
End T_scpi_parse_fuel.
Definition C01_scpi_parse_fuel := @T_scpi_parse_fuel.C01_scpi_parse_fuel.

Module T_input_loop_fuel. Import Fuel. Local Open Scope bool_scope. Local Open Scope Z_scope.
Import ParserModel Framing2 Dispatch. Local Open Scope Z_scope.
Theorem C01_input_loop_fuel :
  forall extra fuel c tot result d, 0 <= tot <= Z.of_nat (length (mem c)) ->
  (length (mem c) - Z.to_nat tot < fuel)%nat ->
  input_loop (fuel + extra) c tot result d = input_loop fuel c tot result d.
Proof. exact (@Fuel.input_loop_fuel). Qed.
End T_input_loop_fuel.
Definition C01_input_loop_fuel := @T_input_loop_fuel.C01_input_loop_fuel.

Module T_chanlist_entry_cap. Import ExprCap. Local Open Scope bool_scope. Local Open Scope Z_scope.
Import LexModel ExprModel. Local Open Scope Z_scope.
Theorem C01_chanlist_entry_cap :
  forall body index cap,
  let '(_, _, vf, vt, _, _) := chanlist_entry body index cap in
  Z.of_nat (length vf) <= Z.max cap 0 /\ Z.of_nat (length vt) <= Z.max cap 0.
Proof. exact (@ExprCap.chanlist_entry_cap). Qed.
End T_chanlist_entry_cap.
Definition C01_chanlist_entry_cap := @T_chanlist_entry_cap.C01_chanlist_entry_cap.

Module T_input_buffer_inv. Import InputInv. Local Open Scope bool_scope. Local Open Scope Z_scope.
Import ParserModel Framing2 Dispatch Fuel. Local Open Scope Z_scope.
Theorem C01_input_buffer_inv :
  forall c data d,
  buffer_ok c ->
  buffer_ok (scpi_input c data d) /\ cap (scpi_input c data d) = cap c.
Proof. exact (@InputInv.input_buffer_inv). Qed.
End T_input_buffer_inv.
Definition C01_input_buffer_inv := @T_input_buffer_inv.C01_input_buffer_inv.

Module T_input_buffer_inv_history. Import InputInv. Local Open Scope bool_scope. Local Open Scope Z_scope.
Import ParserModel Framing2 Dispatch Fuel. Local Open Scope Z_scope.
Theorem C01_input_buffer_inv_history :
  forall chunks d,
  forall c, buffer_ok c ->
  buffer_ok (fold_left (fun c x => scpi_input c x d) chunks c).
Proof. exact (@InputInv.input_buffer_inv_history). Qed.
End T_input_buffer_inv_history.
Definition C01_input_buffer_inv_history := @T_input_buffer_inv_history.C01_input_buffer_inv_history.

Module T_array_reader_capacity. Import ArrayReaders. Local Open Scope bool_scope. Local Open Scope Z_scope.
Import ParserModel. Local Open Scope Z_scope.
Local Open Scope Z_scope.
Theorem C01_array_reader_capacity :
  forall ty cap c m,
  let '(c1, m1, vals) := param_array (Z.to_nat cap) (array_reader ty) c m [] in Z.of_nat (length vals) <= Z.max 0 cap.
Proof. exact (@ArrayReaders.array_reader_capacity). Qed.
End T_array_reader_capacity.
Definition C01_array_reader_capacity := @T_array_reader_capacity.C01_array_reader_capacity.

Module T_chan_entry_capacity. Import ExprScenario. Local Open Scope bool_scope. Local Open Scope Z_scope.
Import ParserModel. Local Open Scope Z_scope.
Local Open Scope Z_scope.
Theorem C01_chan_entry_capacity :
  forall c t idx cap,
  0 <= cap ->
  let '(_, rep) := expr_chanlist c t idx cap in Z.of_nat (length rep) <= 3 + 2 * cap.
Proof. exact (@ExprScenario.chan_entry_capacity). Qed.
End T_chan_entry_capacity.
Definition C01_chan_entry_capacity := @T_chan_entry_capacity.C01_chan_entry_capacity.

Module T_tie_char_classes. Import Tie. Local Open Scope bool_scope. Local Open Scope Z_scope.
Local Open Scope Z_scope.
Theorem C01_tie_char_classes :
  same_class LexModel.isws Generated.gen_cc_isws = true /\ same_class LexModel.isbdigit Generated.gen_cc_isbdigit = true /\
  same_class LexModel.isqdigit Generated.gen_cc_isqdigit = true /\ same_class LexModel.isxdigit Generated.gen_cc_isxdigit = true /\
  same_class LexModel.isH Generated.gen_cc_isH = true /\ same_class LexModel.isB Generated.gen_cc_isB = true /\
  same_class LexModel.isQ Generated.gen_cc_isQ = true /\ same_class LexModel.isE Generated.gen_cc_isE = true /\
  same_class LexModel.isplusmn Generated.gen_cc_isplusmn = true /\ same_class LexModel.isdigit Generated.gen_cc_isdigit = true /\
  same_class (fun c => LexModel.isdigit c && negb (LexModel.ischr 48%N c)) Generated.gen_cc_isnzdigit = true /\
  same_class LexModel.isalpha Generated.gen_cc_isalpha = true /\ same_class LexModel.ismnem Generated.gen_cc_ismnem = true /\
  same_class (fun c => LexModel.isascii7 c && negb (LexModel.ischr 39%N c)) Generated.gen_cc_isascii7 = true /\
  same_class LexModel.isexpr Generated.gen_cc_isexpr = true.
Proof. exact (@Tie.tie_char_classes). Qed.
End T_tie_char_classes.
Definition C01_tie_char_classes := @T_tie_char_classes.C01_tie_char_classes.

Module T_ppd_tok. Import LexTok. Local Open Scope bool_scope. Local Open Scope Z_scope.
Import LexModel LexBounds UnitProgress. Local Open Scope Z_scope.
Theorem C01_ppd_tok :
  forall l,
  let r := parse_program_data l in
  0 <= ptr (tok r) /\ 0 <= len (tok r) /\ ptr (tok r) + len (tok r) <= Z.of_nat (length l) /\
  (is_num (ty (tok r)) = true -> ptr (tok r) < Z.of_nat (length l) /\ numstart (getb l (ptr (tok r))) = true).
Proof. exact (@LexTok.ppd_tok). Qed.
End T_ppd_tok.
Definition C01_ppd_tok := @T_ppd_tok.C01_ppd_tok.

Module T_data_inside_unit. Import LexTok. Local Open Scope bool_scope. Local Open Scope Z_scope.
Import LexModel LexBounds UnitProgress. Local Open Scope Z_scope.
Theorem C01_data_inside_unit :
  forall l,
  let u := detect_unit l in
  0 <= ptr (u_data u) /\ 0 <= len (u_data u) /\ ptr (u_data u) + len (u_data u) <= Z.of_nat (length l).
Proof. exact (@LexTok.data_inside_unit). Qed.
End T_data_inside_unit.
Definition C01_data_inside_unit := @T_data_inside_unit.C01_data_inside_unit.

Module T_parameter_window. Import ParamBounds. Local Open Scope bool_scope. Local Open Scope Z_scope.
Import ParserModel. Local Open Scope Z_scope.
Theorem C01_parameter_window :
  forall c m,
  window_ok c ->
  window_ok (fst (fst (parameter c m))) /\
  (snd (fst (parameter c m)) = true ->
   let t := snd (parameter c m) in
   pd_off c <= LexModel.ptr t /\ 0 <= LexModel.len t /\ LexModel.ptr t + LexModel.len t <= pd_off c + pd_len c).
Proof. exact (@ParamBounds.parameter_window). Qed.
End T_parameter_window.
Definition C01_parameter_window := @T_parameter_window.C01_parameter_window.

Module T_unit_window. Import ParamBounds. Local Open Scope bool_scope. Local Open Scope Z_scope.
Import ParserModel. Local Open Scope Z_scope.
Theorem C01_unit_window :
  forall c e off len hp hl,
  0 <= off -> 0 <= len -> off + len <= Z.of_nat (length (mem c)) ->
  let d := LexModel.u_data (LexModel.detect_unit (slice (mem c) off len)) in
  window_ok (upd_unit c e (off + LexModel.ptr d) (LexModel.len d) hp hl) /\
  off <= off + LexModel.ptr d /\ off + LexModel.ptr d + LexModel.len d <= off + len.
Proof. exact (@ParamBounds.unit_window). Qed.
End T_unit_window.
Definition C01_unit_window := @T_unit_window.C01_unit_window.

