(* Evaluation of REG history lines inside Coq: ./check re-runs a sample of the C11 / C12 correspondence cases with vm_compute
   on these definitions and requires what the extracted model driver printed (keeps extraction and ocaml/drv.ml honest for the
   register model and the command layer). *)
From Coq Require Import Bool List NArith ZArith.
From M Require Import RegModel CmdModel.
Import ListNotations.
Local Open Scope N_scope.

Inductive rop := RW (r:reg) (v:N) | RT (r:reg) (b:N) | RU (r:reg) (b:N) | RP (c:Z) | RO | RC | RL | RK (c:cmd) | RZ.
Definition rstep (s:st) (o:rop) : st * list ev * option N :=
  match o with
  | RW r v => (wr s r v, None)
  | RT r b => (reg_bits s r true b, None)
  | RU r b => (reg_bits s r false b, None)
  | RP c => (push s c, None)
  | RO => (pop s, None)
  | RC => (clear s, None)
  | RL => (cls s, None)
  | RK c => (cmd_do s c, cmd_resp s c)
  | RZ => ((s, []), None)
  end.
Definition dump (s:st) : list N * Z := (map (rg s) [STB;SRE;ESR;ESE;OPER;OPERE;OPERC;QUES;QUESE;QUESC], qlen s).
Fixpoint rrun (s:st) (ops:list rop) : list (list ev * option N * (list N * Z)) :=
  match ops with
  | [] => []
  | o :: r => let '(s', e, resp) := rstep s o in (e, resp, dump s') :: rrun s' r
  end.
Definition rinit (qc:Z) : st := {| rg := fun _ => 0; qlen := 0%Z; qcap := qc |}.
