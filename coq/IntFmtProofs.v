From Coq Require Import Bool List ZArith Lia.
From M Require Import FmtModel.
Import ListNotations.
Local Open Scope Z_scope.

(* ---------- specification: canonical positional notation ---------- *)
Fixpoint digits_fix (k:nat) (base v:Z) : list Z :=      (* exactly k digits of v mod base^k, most significant first *)
  match k with O => [] | S k' => digit_char ((v / base ^ Z.of_nat k') mod base) :: digits_fix k' base v end.
(* number of digits of u > 0 in base b, minus one *)
Fixpoint top (fuel:nat) (b u:Z) : nat := match fuel with O => O | S f => if u <? b then O else S (top f b (u / b)) end.
Definition canon_digits (b u:Z) : list Z := digits_fix (S (top 64 b u)) b u.

Lemma digits_fix_length k b v : length (digits_fix k b v) = k.
Proof. induction k; cbn; auto. Qed.

Lemma digits_fix_mod k j b u : 2 <= b -> (j <= k)%nat -> digits_fix j b (u mod b ^ Z.of_nat k) = digits_fix j b u.
Proof.
  intros Hb. induction j as [|j IHj]; intros Hj; [reflexivity|]. cbn [digits_fix]. rewrite IHj by lia. f_equal. f_equal.
  assert (Hxj : b ^ Z.of_nat k = b ^ Z.of_nat j * (b * b ^ Z.of_nat (k - S j))).
  { replace (Z.of_nat k) with (Z.of_nat j + (1 + Z.of_nat (k - S j))) by lia.
    rewrite Z.pow_add_r by lia. rewrite Z.pow_add_r by lia. rewrite Z.pow_1_r. ring. }
  assert (Hpj : 0 < b ^ Z.of_nat j) by (apply Z.pow_pos_nonneg; lia).
  assert (Hpr : 0 < b ^ Z.of_nat (k - S j)) by (apply Z.pow_pos_nonneg; lia).
  rewrite Hxj. rewrite Z.rem_mul_r by nia.
  rewrite (Z.mul_comm (b ^ Z.of_nat j) ((u / b ^ Z.of_nat j) mod _)).
  rewrite Z.div_add by lia. rewrite (Z.div_small (u mod _)) by (apply Z.mod_pos_bound; lia).
  rewrite Z.add_0_l. rewrite (Z.rem_mul_r (u / b ^ Z.of_nat j) b) by nia.
  rewrite (Z.mul_comm b), Z_mod_plus_full. apply Z.mod_mod. lia.
Qed.

(* ---------- the buffer-aware emit loop ---------- *)
(* started with divisor b^k on u < b^(k+1), with |out| characters already stored, it stores the leading
   digits of u that still fit *)
Lemma emit_spec : forall k b u len out fuel, 2 <= b -> 0 <= u < b ^ Z.of_nat (S k) -> (k < fuel)%nat ->
  rev (emit fuel b u (b ^ Z.of_nat k) len out) =
  rev out ++ firstn (Z.to_nat (len - Z.of_nat (length out))) (digits_fix (S k) b u).
Proof.
  induction k as [|k IH]; intros b u len out fuel Hb Hu Hf; (destruct fuel as [|fuel]; [lia|]).
  - cbn [emit digits_fix]. change (Z.of_nat 0) with 0 in *. rewrite Z.pow_0_r in *.
    change (Z.of_nat 1) with 1 in Hu. rewrite Z.pow_1_r in Hu.
    rewrite Z.div_1_r, Z.mod_small by lia.
    replace (1 / b) with 0 by (symmetry; apply Z.div_small; lia). cbn [Z.eqb negb andb].
    destruct (Z.ltb_spec (Z.of_nat (length out)) len) as [Hl|Hl].
    + cbn [rev]. replace (Z.to_nat (len - Z.of_nat (length out))) with (S (Z.to_nat (len - Z.of_nat (length out) - 1))) by lia.
      cbn [firstn]. rewrite firstn_nil. reflexivity.
    + replace (Z.to_nat (len - Z.of_nat (length out))) with O by lia. cbn. now rewrite app_nil_r.
  - remember (S k) as k1 eqn:Ek1. cbn [emit]. subst k1.
    set (x := b ^ Z.of_nat (S k)).
    assert (Hx : x = b * b ^ Z.of_nat k) by (unfold x; rewrite Nat2Z.inj_succ, Z.pow_succ_r by lia; reflexivity).
    assert (Hpk : 0 < b ^ Z.of_nat k) by (apply Z.pow_pos_nonneg; lia).
    assert (Hdiv : x / b = b ^ Z.of_nat k) by (rewrite Hx, Z.mul_comm, Z.div_mul by lia; reflexivity).
    rewrite Hdiv.
    destruct (Z.eqb_spec (b ^ Z.of_nat k) 0) as [E|_]; [lia|]. cbn [negb andb].
    assert (Hux : 0 <= u / x < b).
    { split. apply Z.div_pos; lia. apply Z.div_lt_upper_bound. lia.
      replace (x*b) with (b ^ Z.of_nat (S (S k))). lia.
      rewrite (Nat2Z.inj_succ (S k)), Z.pow_succ_r by lia. unfold x. ring. }
    assert (Hrem : u - u / x * x = u mod x) by (rewrite Z.mod_eq by lia; ring).
    assert (Hmodb : 0 <= u mod x < x) by (apply Z.mod_pos_bound; lia).
    cbn [digits_fix]. fold x. rewrite (Z.mod_small (u / x)) by lia.
    destruct (Z.ltb_spec (Z.of_nat (length out)) len) as [Hl|Hl].
    + (* the digit is stored *)
      destruct (Z.ltb_spec (Z.of_nat (length (digit_char (u / x) :: out))) len) as [Hl2|Hl2].
      * assert (Hu' : 0 <= u - u / x * x < b ^ Z.of_nat (S k)) by (rewrite Hrem; exact Hmodb).
        rewrite (IH b (u - u / x * x) len (digit_char (u / x) :: out) fuel Hb Hu' ltac:(lia)).
        cbn [rev length]. rewrite <- app_assoc. cbn [app].
        replace (Z.to_nat (len - Z.of_nat (length out))) with (S (Z.to_nat (len - Z.of_nat (S (length out))))) by lia.
        cbn [firstn]. f_equal. f_equal. f_equal.
        rewrite Hrem. unfold x. apply digits_fix_mod; lia.
      * cbn [rev length] in *. replace (Z.to_nat (len - Z.of_nat (length out))) with 1%nat by lia.
        reflexivity.
    + (* buffer already full: nothing stored, loop ends *)
      destruct (Z.ltb_spec (Z.of_nat (length out)) len) as [Hl2|_]; [lia|].
      replace (Z.to_nat (len - Z.of_nat (length out))) with O by lia. cbn. now rewrite app_nil_r.
Qed.

(* ---------- leading zero removal ---------- *)
Lemma strip_spec : forall fuel j k b u, 2 <= b -> b ^ Z.of_nat j <= u < b ^ Z.of_nat (S j) -> (j <= k)%nat -> (k - j < fuel)%nat ->
  strip fuel b u (b ^ Z.of_nat k) = b ^ Z.of_nat j.
Proof.
  induction fuel as [|fuel IH]; intros j k b u Hb Hu Hjk Hf; [lia|]. cbn [strip].
  assert (Hpj : 0 < b ^ Z.of_nat j) by (apply Z.pow_pos_nonneg; lia).
  assert (Hpk : 0 < b ^ Z.of_nat k) by (apply Z.pow_pos_nonneg; lia).
  destruct (Nat.eq_dec j k) as [->|Hne].
  - destruct (Z.eqb_spec (u / b ^ Z.of_nat k) 0) as [E|_]; [|reflexivity].
    apply Z.div_small_iff in E; lia.
  - assert (Hlt : u < b ^ Z.of_nat k).
    { eapply Z.lt_le_trans; [apply Hu|]. apply Z.pow_le_mono_r; lia. }
    rewrite Z.div_small by lia. cbn [Z.eqb].
    destruct k as [|k]; [lia|].
    replace (b ^ Z.of_nat (S k) / b) with (b ^ Z.of_nat k).
    + apply IH; lia.
    + rewrite Nat2Z.inj_succ, Z.pow_succ_r, Z.mul_comm, Z.div_mul by lia. reflexivity.
Qed.

Lemma top_spec : forall fuel b u, 2 <= b -> 0 < u -> u < b ^ Z.of_nat fuel ->
  b ^ Z.of_nat (top fuel b u) <= u < b ^ Z.of_nat (S (top fuel b u)).
Proof.
  induction fuel as [|fuel IH]; intros b u Hb Hu Hlt.
  - change (Z.of_nat 0) with 0 in Hlt. rewrite Z.pow_0_r in Hlt. lia.
  - cbn [top]. destruct (Z.ltb_spec u b) as [H|H].
    + change (Z.of_nat 0) with 0. change (Z.of_nat 1) with 1. rewrite Z.pow_0_r, Z.pow_1_r. lia.
    + assert (Hq : 0 < u / b) by (apply Z.div_str_pos; lia).
      assert (Hq2 : u / b < b ^ Z.of_nat fuel).
      { apply Z.div_lt_upper_bound; [lia|]. rewrite Nat2Z.inj_succ, Z.pow_succ_r in Hlt by lia. lia. }
      specialize (IH b (u / b) Hb Hq Hq2). destruct IH as [I1 I2].
      rewrite !Nat2Z.inj_succ in *. rewrite !Z.pow_succ_r in * by lia.
      assert (Hdm := Z.div_mod u b ltac:(lia)). assert (Hm := Z.mod_pos_bound u b ltac:(lia)).
      split; nia.
Qed.

(* ---------- the property: C14 ---------- *)
Definition eff_base (base:Z) : Z := if base =? 2 then 2 else if base =? 8 then 8 else if base =? 16 then 16 else 10.
Definition canonical (w val base:Z) (sign:bool) : list Z :=
  let u0 := val mod 2^w in
  let b := eff_base base in
  if u0 =? 0 then [48] else
  let neg := sign && (2^(w-1) <=? u0) && (b =? 10) in
  let u := if neg then (2^w - u0) mod 2^w else u0 in
  (if neg then [45] else []) ++ canon_digits b u.

Lemma pow_le_inv b j k : 2 <= b -> b ^ Z.of_nat j < b ^ Z.of_nat (S k) -> (j <= k)%nat.
Proof.
  intros Hb H. destruct (le_lt_dec j k) as [|Hlt]; [assumption|exfalso].
  assert (b ^ Z.of_nat (S k) <= b ^ Z.of_nat j) by (apply Z.pow_le_mono_r; lia). lia.
Qed.

(* the non-zero branch, for a divisor table entry x = b^k0 covering the value range *)
Lemma nonzero_branch b k0 u len (neg:bool) : 2 <= b -> 0 < u < b ^ Z.of_nat (S k0) -> (k0 < 64)%nat -> u < b ^ 64 -> 0 <= len ->
  let out0 := if neg && (0 <? len) then [45] else [] in
  rev (emit 70 b u (strip 70 b u (b ^ Z.of_nat k0)) len out0) =
  firstn (Z.to_nat len) ((if neg then [45] else []) ++ canon_digits b u).
Proof.
  intros Hb Hu Hk Hu64 Hlen out0.
  pose proof (top_spec 64 b u Hb ltac:(lia) Hu64) as Ht. set (j := top 64 b u) in *.
  assert (Hjk : (j <= k0)%nat) by (apply (pow_le_inv b); lia).
  rewrite (strip_spec 70 j k0 b u) by lia.
  rewrite emit_spec by lia. unfold canon_digits. fold j. subst out0.
  destruct neg; cbn [andb].
  - destruct (Z.ltb_spec 0 len) as [Hl|Hl].
    + cbn [rev app length]. replace (Z.to_nat len) with (S (Z.to_nat (len - Z.of_nat 1))) by lia. reflexivity.
    + replace len with 0 by lia. reflexivity.
  - cbn [rev app length]. f_equal. lia.
Qed.

Theorem int2str_exact w val len base sign : (w = 32 \/ w = 64) -> 0 <= len ->
  let c := firstn (Z.to_nat len) (canonical w val base sign) in
  int2str w val len base sign = (c, Z.of_nat (length c) <? len, Z.of_nat (length c)).
Proof.
  intros Hw Hlen c. unfold int2str.
  assert (H2w : 0 < 2^w) by (destruct Hw; subst; reflexivity).
  assert (Hu0 : 0 <= val mod 2^w < 2^w) by (apply Z.mod_pos_bound; lia).
  set (u0 := val mod 2^w) in *.
  cbv zeta.
  match goal with |- (?S, _, _) = _ => assert (Hst : S = c) end.
  { subst c. unfold canonical. fold u0.
    destruct (Z.eqb_spec u0 0) as [E0|Hnz].
    - destruct (Z.ltb_spec 0 len).
      + replace (Z.to_nat len) with (S (Z.to_nat (len - 1))) by lia. cbn [firstn]. now rewrite firstn_nil.
      + replace len with 0 by lia. reflexivity.
    - (* the divisor table: x = b^k0 with 2^w <= b^(k0+1) *)
      assert (Hcase : exists k0, (k0 < 64)%nat /\ init_div w base = ((eff_base base) ^ Z.of_nat k0, eff_base base) /\
                                 2 ^ w <= (eff_base base) ^ Z.of_nat (S k0) /\ 2 ^ w <= (eff_base base) ^ 64 /\ 2 <= eff_base base).
      { unfold init_div, eff_base. destruct Hw; subst w; cbn [Z.eqb];
        destruct (base =? 2); [exists 31%nat; repeat split; try lia; reflexivity| |exists 63%nat; repeat split; try lia; reflexivity|];
        destruct (base =? 8); [exists 10%nat; repeat split; try lia; reflexivity| |exists 21%nat; repeat split; try lia; reflexivity|];
        destruct (base =? 16); [exists 7%nat; repeat split; try lia; reflexivity|exists 9%nat; repeat split; try lia; reflexivity
                               |exists 15%nat; repeat split; try lia; reflexivity|exists 19%nat; repeat split; try lia; reflexivity]. }
      destruct Hcase as (k0 & Hk0 & Hinit & Hcov & H64 & Hb). rewrite Hinit.
      set (b := eff_base base) in *.
      set (neg := sign && (2 ^ (w - 1) <=? u0) && (b =? 10)).
      assert (Hu : 0 < (if neg then (2 ^ w - u0) mod 2 ^ w else u0) < 2 ^ w).
      { destruct neg; [|lia]. rewrite Z.mod_small by lia. lia. }
      apply nonzero_branch; lia. }
  rewrite Hst. reflexivity.
Qed.
Print Assumptions int2str_exact.

(* non-vacuity / sanity: INT32_MIN, INT64_MIN, short buffers *)
Example ex_int32_min : int2str 32 (-2147483648) 12 10 true = ([45;50;49;52;55;52;56;51;54;52;56], true, 11).
Proof. vm_compute. reflexivity. Qed.
Example ex_short : int2str 64 (2^64-1) 5 16 false = ([70;70;70;70;70], false, 5).
Proof. vm_compute. reflexivity. Qed.
