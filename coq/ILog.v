(* C16: the decimal exponent computed by the %g model is right for every ratio whose binary exponent is within +-1200
   (all finite doubles and floats) *)
From Coq Require Import Bool List ZArith Lia Zify.
From M Require Import GFmt GFmtSpec.
Import ListNotations.
Local Open Scope Z_scope.

Definition pos_part (x:Z) : Z := Z.max x 0.
Definition neg_part (x:Z) : Z := Z.max (- x) 0.
(* ge10 in one cross-multiplied form *)
Lemma ge10_cross n d k : ge10 n d k = (d * 10 ^ pos_part k <=? n * 10 ^ neg_part k).
Proof.
  unfold ge10, pos_part, neg_part. destruct (Z.leb_spec 0 k).
  - rewrite Z.max_l by lia. rewrite (Z.max_r (- k) 0) by lia. now rewrite Z.pow_0_r, Z.mul_1_r.
  - rewrite Z.max_r by lia. rewrite (Z.max_l (- k) 0) by lia. now rewrite Z.pow_0_r, Z.mul_1_r.
Qed.

(* the table: for every binary exponent difference L in the range, the estimate k0 is bracketed with room to spare *)
Definition k0_of (L:Z) : Z := (L * 30103) / 100000.
Definition le_10_2 (a b:Z) : bool := 10 ^ pos_part a * 2 ^ neg_part b <=? 2 ^ pos_part b * 10 ^ neg_part a.   (* 10^a <= 2^b *)
Definition le_2_10 (b a:Z) : bool := 2 ^ pos_part b * 10 ^ neg_part a <=? 10 ^ pos_part a * 2 ^ neg_part b.   (* 2^b <= 10^a *)
Fixpoint zrange (n:nat) (z:Z) : list Z := match n with O => [] | S n' => z :: zrange n' (z + 1) end.
Lemma in_zrange n : forall z c, z <= c < z + Z.of_nat n -> In c (zrange n z).
Proof. induction n as [|n IH]; intros z c H; [lia|]. cbn [zrange]. destruct (Z.eq_dec c z); [now left|right; apply IH; lia]. Qed.
Definition check (L:Z) : bool := le_10_2 (k0_of L - 3) (L - 1) && le_2_10 (L + 1) (k0_of L + 5).
Lemma table : forallb check (zrange 2401 (-1200)) = true.
Proof. vm_compute. reflexivity. Qed.
Lemma table_at L : -1200 <= L <= 1200 -> check L = true.
Proof. intro H. pose proof table as T. rewrite forallb_forall in T. apply T, in_zrange. lia. Qed.

Lemma chain_lo d n A B P Q : 0 < d -> 0 < n -> 0 < A -> 0 < B -> 0 < P -> 0 < Q ->
  d * P < n * Q -> A * Q <= P * B -> d * A < n * B.
Proof.
  intros Hd Hn HA HB HP HQ H1 H2.
  assert (E1 : d * A * Q <= d * P * B) by nia.
  assert (E2 : d * P * B < n * Q * B) by nia.
  assert (E3 : d * A * Q < n * B * Q) by nia.
  nia.
Qed.
Lemma chain_hi d n A B P Q : 0 < d -> 0 < n -> 0 < A -> 0 < B -> 0 < P -> 0 < Q ->
  n * Q < d * P -> P * B <= A * Q -> n * B < d * A.
Proof.
  intros Hd Hn HA HB HP HQ H1 H2.
  assert (E1 : n * Q * B < d * P * B) by nia.
  assert (E2 : d * P * B <= d * A * Q) by nia.
  assert (E3 : n * B * Q < d * A * Q) by nia.
  nia.
Qed.

(* n/d against powers of two, from the positions of the leading bits *)
Lemma pow_split b : 2 ^ pos_part b = 2 ^ neg_part b * 2 ^ b \/ True. Proof. now right. Qed.
Lemma ratio_lo n d : 0 < n -> 0 < d -> let b := Z.log2 n - Z.log2 d - 1 in d * 2 ^ pos_part b < n * 2 ^ neg_part b.
Proof.
  intros Hn Hd b. pose proof (Z.log2_spec n Hn) as [N1 N2]. pose proof (Z.log2_spec d Hd) as [D1 D2].
  pose proof (Z.log2_nonneg n) as Ln. pose proof (Z.log2_nonneg d) as Ld.
  set (ln := Z.log2 n) in *. set (ld := Z.log2 d) in *. unfold pos_part, neg_part.
  assert (Pn : 0 < 2 ^ ln) by (apply Z.pow_pos_nonneg; lia). assert (Pd : 0 < 2 ^ Z.succ ld) by (apply Z.pow_pos_nonneg; lia).
  destruct (Z.leb_spec 0 b) as [Hb|Hb].
  - rewrite Z.max_l by lia. rewrite (Z.max_r (- b) 0) by lia. rewrite Z.pow_0_r, Z.mul_1_r.
    assert (E : 2 ^ ln = 2 ^ b * 2 ^ Z.succ ld) by (rewrite <- Z.pow_add_r by lia; f_equal; lia).
    assert (Pb : 0 < 2 ^ b) by (apply Z.pow_pos_nonneg; lia). nia.
  - rewrite Z.max_r by lia. rewrite (Z.max_l (- b) 0) by lia. rewrite Z.pow_0_r, Z.mul_1_r.
    assert (E : 2 ^ Z.succ ld = 2 ^ (- b) * 2 ^ ln) by (rewrite <- Z.pow_add_r by lia; f_equal; lia).
    assert (Pb : 0 < 2 ^ (- b)) by (apply Z.pow_pos_nonneg; lia). nia.
Qed.
Lemma ratio_hi n d : 0 < n -> 0 < d -> let b := Z.log2 n - Z.log2 d + 1 in n * 2 ^ neg_part b < d * 2 ^ pos_part b.
Proof.
  intros Hn Hd b. pose proof (Z.log2_spec n Hn) as [N1 N2]. pose proof (Z.log2_spec d Hd) as [D1 D2].
  pose proof (Z.log2_nonneg n) as Ln. pose proof (Z.log2_nonneg d) as Ld.
  set (ln := Z.log2 n) in *. set (ld := Z.log2 d) in *. unfold pos_part, neg_part.
  assert (Pn : 0 < 2 ^ Z.succ ln) by (apply Z.pow_pos_nonneg; lia). assert (Pd : 0 < 2 ^ ld) by (apply Z.pow_pos_nonneg; lia).
  destruct (Z.leb_spec 0 b) as [Hb|Hb].
  - rewrite (Z.max_l b 0) by lia. rewrite (Z.max_r (- b) 0) by lia. rewrite Z.pow_0_r, Z.mul_1_r.
    assert (E : 2 ^ Z.succ ln = 2 ^ b * 2 ^ ld) by (rewrite <- Z.pow_add_r by lia; f_equal; lia).
    assert (Pb : 0 < 2 ^ b) by (apply Z.pow_pos_nonneg; lia).
    assert (E2 : 2 ^ b * 2 ^ ld <= 2 ^ b * d) by nia. lia.
  - rewrite (Z.max_r b 0) by lia. rewrite (Z.max_l (- b) 0) by lia. rewrite Z.pow_0_r, Z.mul_1_r.
    assert (E : 2 ^ ld = 2 ^ (- b) * 2 ^ Z.succ ln) by (rewrite <- Z.pow_add_r by lia; f_equal; lia).
    assert (Pb : 0 < 2 ^ (- b)) by (apply Z.pow_pos_nonneg; lia).
    assert (E2 : n * 2 ^ (- b) < 2 ^ Z.succ ln * 2 ^ (- b)) by nia. lia.
Qed.

Lemma pow10_pos x : 0 < 10 ^ pos_part x /\ 0 < 10 ^ neg_part x.
Proof. unfold pos_part, neg_part. split; apply Z.pow_pos_nonneg; lia. Qed.
Lemma pow2_pos x : 0 < 2 ^ pos_part x /\ 0 < 2 ^ neg_part x.
Proof. unfold pos_part, neg_part. split; apply Z.pow_pos_nonneg; lia. Qed.

(* the estimate is bracketed: 10^(k0-3) <= n/d < 10^(k0+5) *)
Lemma bracket n d : 0 < n -> 0 < d -> -1200 <= Z.log2 n - Z.log2 d <= 1200 ->
  let k0 := k0_of (Z.log2 n - Z.log2 d) in ge10 n d (k0 - 3) = true /\ ge10 n d (k0 + 5) = false.
Proof.
  intros Hn Hd HL k0. pose proof (table_at _ HL) as T. unfold check in T. apply andb_prop in T as [T1 T2]. fold k0 in T1, T2.
  unfold le_10_2 in T1. unfold le_2_10 in T2. apply Z.leb_le in T1. apply Z.leb_le in T2.
  rewrite !ge10_cross. split.
  - apply Z.leb_le. pose proof (ratio_lo n d Hn Hd) as R. cbn zeta in R.
    destruct (pow10_pos (k0 - 3)) as [A1 A2]. destruct (pow2_pos (Z.log2 n - Z.log2 d - 1)) as [P1 P2].
    pose proof (chain_lo d n _ _ _ _ Hd Hn A1 A2 P1 P2 R T1). lia.
  - apply Z.leb_gt. pose proof (ratio_hi n d Hn Hd) as R. cbn zeta in R.
    destruct (pow10_pos (k0 + 5)) as [A1 A2]. destruct (pow2_pos (Z.log2 n - Z.log2 d + 1)) as [P1 P2].
    exact (chain_hi d n _ _ _ _ Hd Hn A1 A2 P1 P2 R T2).
Qed.

(* ge10 is monotone in the exponent *)
Lemma ge10_down n d k : 0 < n -> 0 < d -> ge10 n d (k + 1) = true -> ge10 n d k = true.
Proof.
  intros Hn Hd. unfold ge10. destruct (Z.leb_spec 0 (k + 1)) as [H1|H1]; destruct (Z.leb_spec 0 k) as [H0|H0]; try lia; intro H; apply Z.leb_le in H; apply Z.leb_le.
  - rewrite Z.pow_add_r, Z.pow_1_r in H by lia. assert (0 < 10 ^ k) by (apply Z.pow_pos_nonneg; lia). nia.
  - assert (k = -1) by lia. subst k. cbn in *. lia.
  - replace (- k) with (- (k + 1) + 1) by lia. rewrite Z.pow_add_r, Z.pow_1_r by lia. assert (0 < 10 ^ (- (k + 1))) by (apply Z.pow_pos_nonneg; lia). nia.
Qed.

Theorem ilog10_correct n d : 0 < n -> 0 < d -> -1200 <= Z.log2 n - Z.log2 d <= 1200 -> ilog_ok n d (ilog10 n d) = true.
Proof.
  intros Hn Hd HL. destruct (bracket n d Hn Hd HL) as [Blo Bhi]. unfold ilog10. fold (k0_of (Z.log2 n - Z.log2 d)).
  set (k0 := k0_of (Z.log2 n - Z.log2 d)) in *. unfold ilog_ok.
  (* walking down: the first exponent at or below k0 that n/d reaches *)
  assert (Hdown : exists k1, adjust_down 4 n d k0 = k1 /\ ge10 n d k1 = true /\ (k1 = k0 \/ ge10 n d (k1 + 1) = false)).
  { cbn [adjust_down]. destruct (ge10 n d k0) eqn:E0; [exists k0; auto|].
    destruct (ge10 n d (k0 - 1)) eqn:E1; [exists (k0 - 1); repeat split; auto; right; now replace (k0 - 1 + 1) with k0 by lia|].
    destruct (ge10 n d (k0 - 1 - 1)) eqn:E2; [exists (k0 - 1 - 1); repeat split; auto; right; now replace (k0 - 1 - 1 + 1) with (k0 - 1) by lia|].
    destruct (ge10 n d (k0 - 1 - 1 - 1)) eqn:E3; [exists (k0 - 1 - 1 - 1); repeat split; auto; right; now replace (k0 - 1 - 1 - 1 + 1) with (k0 - 1 - 1) by lia|].
    replace (k0 - 1 - 1 - 1) with (k0 - 3) in E3 by lia. congruence. }
  destruct Hdown as (k1 & -> & G1 & Hk1).
  destruct Hk1 as [->|Hstop].
  - (* walking up from k0 *)
    cbn [adjust_up]. destruct (ge10 n d (k0 + 1)) eqn:U1; [|now rewrite G1, U1].
    destruct (ge10 n d (k0 + 1 + 1)) eqn:U2; [|now rewrite U1, U2].
    destruct (ge10 n d (k0 + 1 + 1 + 1)) eqn:U3; [|now rewrite U2, U3].
    destruct (ge10 n d (k0 + 1 + 1 + 1 + 1)) eqn:U4; [|now rewrite U3, U4].
    rewrite U4. replace (k0 + 1 + 1 + 1 + 1 + 1) with (k0 + 5) by lia. now rewrite Bhi.
  - cbn [adjust_up]. rewrite Hstop. now rewrite G1, Hstop.
Qed.
Print Assumptions ilog10_correct.

(* hence the digit theorem without the side condition, for every finite double and float *)
Corollary sig_digits_nearest_closed P n d : 0 < P -> 0 < d -> 0 < n -> -1200 <= Z.log2 n - Z.log2 d <= 1200 ->
  let x0 := ilog10 n d in let s := x0 - P + 1 in
  let D0 := if 0 <=? s then rne n (d * 10 ^ s) else rne (n * 10 ^ (- s)) d in
  (if 0 <=? s then 2 * Z.abs (n - D0 * (d * 10 ^ s)) <= d * 10 ^ s else 2 * Z.abs (n * 10 ^ (- s) - D0 * d) <= d) /\
  10 ^ (P - 1) <= D0 <= 10 ^ P /\
  sig_digits P n d = (if D0 =? 10 ^ P then (10 ^ (P - 1), x0 + 1) else (D0, x0)).
Proof. intros HP Hd Hn HL. apply sig_digits_nearest; try assumption. now apply ilog10_correct. Qed.

(* every finite binary64 value is in that range *)
Lemma dec64_in_range bits : 0 <= bits < 2 ^ 64 -> (bits mod 2 ^ 63) / 2 ^ 52 < 2047 ->
  let '(_, n, d) := dec64 bits in 0 < d /\ (0 < n -> -1200 <= Z.log2 n - Z.log2 d <= 1200).
Proof.
  intros Hb He. unfold dec64.
  set (r := bits mod 2 ^ 63) in *. set (ef := r / 2 ^ 52) in *. set (fr := r mod 2 ^ 52).
  assert (Hr : 0 <= r < 2 ^ 63) by (apply Z.mod_pos_bound; lia).
  assert (Hef : 0 <= ef) by (apply Z.div_pos; lia).
  assert (Hfr : 0 <= fr < 2 ^ 52) by (apply Z.mod_pos_bound; lia).
  destruct (Z.eqb_spec ef 0) as [E0|E0].
  - (* subnormal or zero: m = fr, q = -1074 *)
    change (0 <=? -1074) with false. cbv iota. change (- -1074) with 1074. split; [apply Z.pow_pos_nonneg; lia|].
    intro Hn. rewrite Z.log2_pow2 by lia. pose proof (Z.log2_nonneg fr). 
    assert (Z.log2 fr < 52) by (apply Z.log2_lt_pow2; lia). lia.
  - set (m := fr + 2 ^ 52). set (q := ef - 1075).
    assert (Hm : 2 ^ 52 <= m < 2 ^ 53) by (subst m; lia).
    destruct (Z.leb_spec 0 q) as [Hq|Hq].
    + split; [lia|]. intro Hn. change (Z.log2 1) with 0.
      assert (Hub : m * 2 ^ q < 2 ^ (53 + q)) by (rewrite Z.pow_add_r by lia; assert (0 < 2 ^ q) by (apply Z.pow_pos_nonneg; lia); nia).
      assert (Z.log2 (m * 2 ^ q) < 53 + q) by (apply Z.log2_lt_pow2; [exact Hn|exact Hub]).
      pose proof (Z.log2_nonneg (m * 2 ^ q)). subst q. lia.
    + split; [apply Z.pow_pos_nonneg; lia|]. intro Hn. rewrite Z.log2_pow2 by lia.
      assert (Z.log2 m < 53) by (apply Z.log2_lt_pow2; lia). pose proof (Z.log2_nonneg m). subst q. lia.
Qed.
Print Assumptions dec64_in_range.
