(* C11 / C12, the command layer over the register model: every IEEE 488.2 / SCPI status command of ieee488.c and minimal.c
   is a short, state-dependent script of RegProofs.oper steps (the register reads and writes its C body performs, in order)
   plus the value it reports.  The invariant of stb_coherent therefore holds along every history that mixes commands with
   API calls, and the clearing queries do what the property says of them:
   - *STB? reports a byte whose bits 5, 7, 3, 2, 6 are the five summaries of the property;
   - *ESR?, STAT:OPER[:EVEN]?, STAT:QUES[:EVEN]? report the event register and leave it 0 with its summary bit 0;
   - *CLS leaves all three event registers 0, the queue empty and bits 5, 7, 3, 2 of the status byte 0.
   Bodies modelled (name = C function): SCPI_CoreCls, SCPI_CoreEse(Q), SCPI_CoreEsrQ, SCPI_CoreOpc, SCPI_CoreSre(Q),
   SCPI_CoreStbQ, SCPI_StatusOperation{Event,Condition,Enable}Q, SCPI_StatusOperationEnable, the same for Questionable,
   SCPI_StatusPreset (which, in this code base, writes 0 to the questionable event register only), SCPI_SystemErrorNextQ
   (pop), SCPI_SystemErrorCountQ.  The parameter value is the int32 already decoded (C04/C05 are about decoding). *)
From Coq Require Import Bool List NArith ZArith Lia.
From M Require Import RegModel RegProofs C12Latch CmdModel.
From M Require IntFmtProofs.
Import ListNotations.
Local Open Scope N_scope.

(* the same body as a script of RegProofs.oper steps *)
Definition cmd_ops (s:st) (c:cmd) : list oper :=
  match c with
  | KCls => [OCls]
  | KEse v => [OWr ESE v] | KSre v => [OWr SRE v] | KOperEn v => [OWr OPERE v] | KQuesEn v => [OWr QUESE v]
  | KEsrQ => [OWr ESR 0] | KOperEvQ => [OWr OPER 0] | KQuesEvQ => [OWr QUES 0]
  | KOpc => [OWr ESR (N.lor (rg s ESR) 1)]
  | KPreset => [OWr QUES 0]
  | KErrNextQ => [OPop]
  | KEseQ | KSreQ | KStbQ | KOperCondQ | KOperEnQ | KQuesCondQ | KQuesEnQ | KErrCountQ => []
  end.
Lemma cmd_do_ops s c : fst (cmd_do s c) = fold_left step (cmd_ops s c) s.
Proof. destruct c; reflexivity. Qed.

(* a history mixes API operations and commands *)
Inductive act := AOp (o:oper) | ACmd (c:cmd).
Definition act_legal (a:act) : Prop := match a with AOp o => legal o | ACmd _ => True end.
Definition act_step (s:st) (a:act) : st := match a with AOp o => step s o | ACmd c => fst (run_cmd s c) end.

Lemma cmd_ops_legal s c : Forall legal (cmd_ops s c).
Proof. destruct c; cbn [cmd_ops]; repeat constructor; cbn; discriminate. Qed.

Lemma step_inv s o : legal o -> Inv s -> Inv (step s o).
Proof.
  intros Ho Hs. destruct o; cbn [step]; [apply wr_inv; assumption|apply push_inv|apply pop_inv|apply clear_inv|apply cls_inv]; assumption.
Qed.
Lemma steps_inv ops : forall s, Forall legal ops -> Inv s -> Inv (fold_left step ops s).
Proof. induction ops as [|o os IH]; intros s Hl Hs; [exact Hs|]. inversion Hl; subst. cbn [fold_left]. apply IH; [assumption|]. now apply step_inv. Qed.
Lemma run_cmd_inv s c : Inv s -> Inv (fst (run_cmd s c)).
Proof. intros Hs. unfold run_cmd; cbn [fst]. rewrite cmd_do_ops. apply steps_inv; [apply cmd_ops_legal|exact Hs]. Qed.

Theorem commands_coherent qc acts : (0 < qc)%Z -> Forall act_legal acts -> Inv (fold_left act_step acts (init qc)).
Proof.
  intros Hq Hl. assert (G : forall s, Inv s -> Inv (fold_left act_step acts s)).
  { induction Hl as [|a l Ha Hl' IH]; intros s Hs; [exact Hs|]. cbn [fold_left]. apply IH.
    destruct a as [o|c]; cbn [act_step]; [now apply step_inv|now apply run_cmd_inv]. }
  apply G. now apply init_inv.
Qed.

(* *STB? : the reported byte carries the five summaries, in every reachable state *)
Theorem stbq_reports_summaries qc acts v : (0 < qc)%Z -> Forall act_legal acts ->
  let s := fold_left act_step acts (init qc) in
  snd (run_cmd s KStbQ) = Some v ->
  fst (run_cmd s KStbQ) = s /\
  N.testbit v 5 = negb (N.land (rg s ESR) (rg s ESE) =? 0) /\
  N.testbit v 7 = negb (N.land (rg s OPER) (rg s OPERE) =? 0) /\
  N.testbit v 3 = negb (N.land (rg s QUES) (rg s QUESE) =? 0) /\
  N.testbit v 2 = negb (qlen s =? 0)%Z /\
  N.testbit v 6 = negb (N.land (N.ldiff v 64) (N.ldiff (rg s SRE) 64) =? 0).
Proof.
  intros Hq Hl s Hv. cbn in Hv. injection Hv as <-. split; [reflexivity|].
  apply inv_reads. now apply commands_coherent.
Qed.

(* the queue capacity is a constant of the context *)
Lemma wr_qcap s r v : qcap (fst (wr s r v)) = qcap s.
Proof. unfold wr. destruct (RegSet (rg s) r v []) as [r1 cb]. reflexivity. Qed.
Lemma emit_empty_qcap s : qcap (fst (emit_empty s)) = qcap s.
Proof. unfold emit_empty. destruct ((qlen s =? 0)%Z && negb (N.land (rg s STB) QMA =? 0)); [|reflexivity].
  destruct (RegClearBits (rg s) STB QMA []) as [r1 cb]. reflexivity. Qed.
Lemma pop_qcap s : qcap (fst (pop s)) = qcap s.
Proof. unfold pop. rewrite emit_empty_qcap. reflexivity. Qed.
Lemma clear_qcap s : qcap (fst (clear s)) = qcap s.
Proof. unfold clear. rewrite emit_empty_qcap. reflexivity. Qed.
Lemma push_qcap s c : qcap (fst (push s c)) = qcap s.
Proof.
  unfold push. cbv zeta.
  repeat match goal with |- context [let '(_, _) := ?X in _] => destruct X end. reflexivity.
Qed.
Lemma cls_qcap s : qcap (fst (cls s)) = qcap s.
Proof.
  unfold cls. destruct (clear s) as [s1 e1] eqn:E1. destruct (wr s1 ESR 0) as [s2 e2] eqn:E2.
  destruct (wr s2 OPER 0) as [s3 e3] eqn:E3. destruct (wr s3 QUES 0) as [s4 e4] eqn:E4. cbn [fst].
  replace s4 with (fst (wr s3 QUES 0)) by (rewrite E4; reflexivity). rewrite wr_qcap.
  replace s3 with (fst (wr s2 OPER 0)) by (rewrite E3; reflexivity). rewrite wr_qcap.
  replace s2 with (fst (wr s1 ESR 0)) by (rewrite E2; reflexivity). rewrite wr_qcap.
  replace s1 with (fst (clear s)) by (rewrite E1; reflexivity). apply clear_qcap.
Qed.
Lemma act_step_qcap s a : qcap (act_step s a) = qcap s.
Proof.
  destruct a as [o|c]; cbn [act_step].
  - destruct o; cbn [step]; [apply wr_qcap|apply push_qcap|apply pop_qcap|apply clear_qcap|apply cls_qcap].
  - unfold run_cmd. cbn [fst]. destruct c; cbn [cmd_do fst]; try reflexivity; try apply wr_qcap; [apply cls_qcap|apply pop_qcap].
Qed.
Lemma acts_qcap acts : forall s, qcap (fold_left act_step acts s) = qcap s.
Proof. induction acts as [|a l IH]; intros s; [reflexivity|]. cbn [fold_left]. rewrite IH. apply act_step_qcap. Qed.

(* SYST:ERR:COUN? and the error-available bit tell the same story in every reachable state *)
Theorem errcount_agrees_with_stb qc acts n : (0 < qc)%Z -> Forall act_legal acts ->
  let s := fold_left act_step acts (init qc) in
  snd (run_cmd s KErrCountQ) = Some n ->
  fst (run_cmd s KErrCountQ) = s /\ (n = 0 <-> N.testbit (rg s STB) 2 = false) /\ (Z.of_N n <= qc)%Z.
Proof.
  intros Hq Hl s Hn. cbn in Hn. injection Hn as <-. split; [reflexivity|].
  pose proof (commands_coherent qc acts Hq Hl) as Hi. fold s in Hi.
  assert (Hc : qcap s = qc) by (unfold s; rewrite acts_qcap; reflexivity).
  destruct (inv_reads _ Hi) as (_ & _ & _ & B2 & _). destruct Hi as (_ & Hql & _). rewrite Hc in Hql.
  split; [|rewrite Z2N.id by lia; lia].
  rewrite B2. destruct (Z.eqb_spec (qlen s) 0) as [E|NE]; cbn [negb].
  - rewrite E. split; reflexivity.
  - split; [intros H0; exfalso; apply NE; apply (f_equal Z.of_N) in H0; rewrite Z2N.id in H0 by lia; exact H0|discriminate].
Qed.

(* the response text is the canonical decimal text of the reported number, whole (the 33-byte buffer never truncates it) *)
Theorem cmd_text_canonical s c :
  cmd_text s c = option_map (fun n => firstn (Z.to_nat 33) (IntFmtProofs.canonical 32 (Z.of_N n) 10 true) ++ [13; 10]%Z) (cmd_resp s c).
Proof.
  unfold cmd_text. destruct (cmd_resp s c) as [n|]; [|reflexivity]. cbn [option_map].
  apply (f_equal (@Some (list Z))). apply (f_equal (fun l => l ++ [13; 10]%Z)).
  pose proof (IntFmtProofs.int2str_exact 32 (Z.of_N n) 33 10 true (or_introl eq_refl) ltac:(lia)) as E. cbv zeta in E.
  rewrite E. reflexivity.
Qed.

(* the clearing queries *)
Lemma wr_event_zero s e : e = ESR \/ e = OPER \/ e = QUES -> rg (fst (wr s e 0)) e = 0.
Proof.
  intros He. unfold wr, RegSet. destruct (regset 4 (rg s) e (u16 0) []) as [r1 cb] eqn:E. cbn [fst rg].
  change r1 with (fst (r1, cb)). rewrite <- E. change 4%nat with (S 3). now rewrite regset_event.
Qed.
Definition event_cmd (c:cmd) (e:reg) (k:N) : Prop :=
  (c = KEsrQ /\ e = ESR /\ k = 5) \/ (c = KOperEvQ /\ e = OPER /\ k = 7) \/ (c = KQuesEvQ /\ e = QUES /\ k = 3).
Theorem event_query_clears s c e k : event_cmd c e k -> Inv s ->
  let '(s', r) := run_cmd s c in
  r = Some (rg s e) /\ rg s' e = 0 /\ N.testbit (rg s' STB) k = false /\ Inv s'.
Proof.
  intros Hc Hs. assert (Hi := run_cmd_inv s c Hs). revert Hi. unfold run_cmd. cbn [fst].
  destruct Hc as [(-> & -> & ->)|[(-> & -> & ->)|(-> & -> & ->)]]; cbn [cmd_do cmd_resp]; intros Hi;
  (split; [reflexivity|]);
  match goal with |- rg (fst (wr s ?e 0)) _ = 0 /\ _ => assert (Z0 : rg (fst (wr s e 0)) e = 0) by (apply wr_event_zero; tauto) end;
  (split; [exact Z0|]); (split; [|exact Hi]);
  destruct (inv_reads _ Hi) as (B5 & B7 & B3 & _); rewrite Z0 in *; [rewrite B5|rewrite B7|rewrite B3]; reflexivity.
Qed.

(* *CLS *)
Lemma wr_other s r v r' : untouched r r' -> rg (fst (wr s r v)) r' = rg s r'.
Proof.
  intros U. unfold wr, RegSet. destruct (regset 4 (rg s) r (u16 v) []) as [r1 cb] eqn:E. cbn [fst rg].
  change r1 with (fst (r1, cb)). rewrite <- E. now apply regset_frame.
Qed.
Lemma wr_qlen s r v : qlen (fst (wr s r v)) = qlen s.
Proof. unfold wr. destruct (RegSet (rg s) r v []) as [r1 cb]. reflexivity. Qed.
Lemma emit_empty_qlen s : qlen (fst (emit_empty s)) = qlen s.
Proof. unfold emit_empty. destruct ((qlen s =? 0)%Z && negb (N.land (rg s STB) QMA =? 0)); [|reflexivity].
  destruct (RegClearBits (rg s) STB QMA []) as [r1 cb]. reflexivity. Qed.
Lemma clear_qlen s : qlen (fst (clear s)) = 0%Z.
Proof. unfold clear. rewrite emit_empty_qlen. reflexivity. Qed.

Theorem cls_clears s : Inv s ->
  let s' := fst (run_cmd s KCls) in
  rg s' ESR = 0 /\ rg s' OPER = 0 /\ rg s' QUES = 0 /\ qlen s' = 0%Z /\
  N.testbit (rg s' STB) 5 = false /\ N.testbit (rg s' STB) 7 = false /\ N.testbit (rg s' STB) 3 = false /\ N.testbit (rg s' STB) 2 = false /\
  Inv s'.
Proof.
  intros Hs s'. assert (Hi : Inv s') by (apply run_cmd_inv; exact Hs).
  assert (E : s' = fst (cls s)) by reflexivity.
  unfold cls in E. destruct (clear s) as [s1 e1] eqn:E1. destruct (wr s1 ESR 0) as [s2 e2] eqn:E2.
  destruct (wr s2 OPER 0) as [s3 e3] eqn:E3. destruct (wr s3 QUES 0) as [s4 e4] eqn:E4. cbn [fst] in E.
  assert (Q1 : qlen s1 = 0%Z) by (change s1 with (fst (s1, e1)); rewrite <- E1; apply clear_qlen).
  assert (S2 : s2 = fst (wr s1 ESR 0)) by (rewrite E2; reflexivity).
  assert (S3 : s3 = fst (wr s2 OPER 0)) by (rewrite E3; reflexivity).
  assert (S4 : s4 = fst (wr s3 QUES 0)) by (rewrite E4; reflexivity).
  assert (U : forall a b, a <> b -> a <> STB -> b <> STB -> (a = ESR \/ a = OPER \/ a = QUES) -> untouched a b).
  { intros a b Hab Ha Hb Hev. repeat split; try congruence. destruct Hev as [->|[->| ->]]; cbn; exact I. }
  assert (R_ESR : rg s' ESR = 0).
  { rewrite E, S4, wr_other by (apply U; try discriminate; tauto). rewrite S3, wr_other by (apply U; try discriminate; tauto).
    rewrite S2. apply wr_event_zero; tauto. }
  assert (R_OPER : rg s' OPER = 0).
  { rewrite E, S4, wr_other by (apply U; try discriminate; tauto). rewrite S3. apply wr_event_zero; tauto. }
  assert (R_QUES : rg s' QUES = 0) by (rewrite E, S4; apply wr_event_zero; tauto).
  assert (QL : qlen s' = 0%Z) by (rewrite E, S4, wr_qlen, S3, wr_qlen, S2, wr_qlen; exact Q1).
  destruct (inv_reads _ Hi) as (B5 & B7 & B3 & B2 & _).
  rewrite R_ESR, N.land_0_l in B5. rewrite R_OPER, N.land_0_l in B7. rewrite R_QUES, N.land_0_l in B3. rewrite QL in B2.
  cbn in B5, B7, B3, B2. repeat (split; [assumption|]). exact Hi.
Qed.

(* non-vacuity: a concrete mixed history *)
Example cmd_history_runs :
  let s := fold_left act_step [AOp (OPush (-113)%Z); ACmd (KEse 32); ACmd (KSre 32); ACmd KStbQ] (init 4) in
  rg s STB = 100 /\ snd (run_cmd s KEsrQ) = Some 32 /\ rg (fst (run_cmd s KEsrQ)) STB = 4 /\ rg (fst (run_cmd s KCls)) STB = 0.
Proof. vm_compute. repeat split; reflexivity. Qed.

Print Assumptions commands_coherent.
Print Assumptions stbq_reports_summaries.
Print Assumptions event_query_clears.
Print Assumptions cls_clears.
Print Assumptions errcount_agrees_with_stb.
Print Assumptions cmd_text_canonical.
