(* Draft: layout stage of SCPI_dtostre (utils.c:1038-1090) on its 32-byte work buffer, given scpi_ecvt's output *)
From Coq Require Import Bool List ZArith Lia.
Import ListNotations.
Local Open Scope bool_scope.
Local Open Scope Z_scope.
Definition UNINIT := 255.
Definition getb (b:list Z) (i:Z) : Z := if (i <? 0) || (Z.of_nat (length b) <=? i) then -1 (* out of bounds marker *) else nth (Z.to_nat i) b 0.
Fixpoint setn (b:list Z) (i:nat) (v:Z) : list Z := match b, i with [], _ => [] | _::r, O => v::r | c::r, S i' => c :: setn r i' v end.
Definition setb (b:list Z) (i:Z) (v:Z) : list Z * bool (* oob *) :=
  if (i <? 0) || (Z.of_nat (length b) <=? i) then (b, true) else (setn b (Z.to_nat i) v, false).
Fixpoint writes (b:list Z) (at_:Z) (src:list Z) (oob:bool) : list Z * bool :=
  match src with [] => (b,oob) | c::r => let '(b1,o1) := setb b at_ c in writes b1 (at_+1) r (oob || o1) end.
Definition slice (b:list Z) (off n:Z) : list Z := map (fun i => getb b (off + Z.of_nat i)) (seq 0 (Z.to_nat n)).
Definition memmove (b:list Z) (dst src n:Z) (oob:bool) : list Z * bool :=
  let s := slice b src n in writes b dst s (oob || existsb (fun x => x =? -1) s).
Fixpoint trim (fuel:nat) (b:list Z) (p:Z) (oob:bool) : list Z * Z * bool :=
  match fuel with O => (b,p,oob) | S f => if getb b p =? 48 then let '(b1,o) := setb b p 0 in trim f b1 (p-1) (oob||o) else (b,p,oob) end.
Fixpoint udigits (fuel:nat) (v:Z) (acc:list Z) : list Z := match fuel with O => acc | S f => if v <? 10 then (48+v)::acc else udigits f (v/10) ((48 + v mod 10)::acc) end.
Fixpoint cstr (b:list Z) : list Z := match b with [] => [] | c::r => if c =? 0 then [] else c :: cstr r end.

(* digits: the prec characters produced by scpi_ecvt (NUL-terminated at index prec), decpt its exponent.
   neg: sign bit. Returns (work buffer as C string, out-of-bounds access?) *)
Definition layout (digits:list Z) (decpt0:Z) (prec:Z) (neg:bool) : list Z * bool :=
  let buf0 := repeat UNINIT 32 in
  let '(buf1, base) := if neg then (fst (setb buf0 0 45), 1) else (buf0, 0) in
  let '(b2,o2) := writes buf1 base (digits ++ [0]) false in
  let s := base in
  (* last = index (relative to s) of the last digit once the point is in place *)
  let '(b3,o3,decpt,last) :=
    if (1 <? decpt0) && (decpt0 <=? prec) then
      let '(b,o) := memmove b2 (s+decpt0+1) (s+decpt0) (prec+1-decpt0) o2 in
      let '(b',o') := setb b (s+decpt0) 46 in (b', o||o', 0, prec)
    else if (-4 <? decpt0) && (decpt0 <=? 0) then
      let dp := -decpt0 + 1 in
      let '(b,o) := memmove b2 (s+dp+1) s (prec+1) o2 in
      let '(b',o') := writes b s (repeat 48 (Z.to_nat (dp+1))) o in
      let '(b'',o'') := setb b' (s+1) 46 in (b'', o'||o'', 0, prec + dp)
    else
      let '(b,o) := memmove b2 (s+2) (s+1) (prec+1) o2 in
      let '(b',o') := setb b (s+1) 46 in (b', o||o', decpt0 - 1, prec) in
  let '(b4,p4,o4) := trim 40 b3 (s+last) o3 in
  let '(b5,p5,o5) := if getb b4 p4 =? 46 then let '(b,o) := setb b4 p4 0 in (b, p4-1, o4||o) else (b4,p4,o4) in
  let '(b6,o6) :=
    if decpt =? 0 then (b5,o5) else
      let '(b,o) := setb b5 (p5+1) 101 in
      let sg := if 0 <? decpt then 43 else 45 in
      let a := Z.abs decpt in
      let '(b',o') := setb b (p5+2) sg in
      let ds := udigits 10 a [] in
      let ds' := match ds with [d] => [48; d] | _ => ds end in
      let '(b'',o'') := writes b' (p5+3) (ds' ++ [0]) (o||o') in (b'', o5||o'') in
  (cstr b6, o6).

