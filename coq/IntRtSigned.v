(* C14 / C07: what the integer formatters print reads back to the value, for every width, base and signedness:
   the canonical text of int2str_exact (sign only for negative signed decimals, two's complement bit pattern otherwise),
   followed by anything that is not a digit of the base, is read back by a sign-and-digits reader as the signed value
   (signed decimal) resp. the value modulo 2^w (everything else). *)
From Coq Require Import Bool List ZArith Lia.
From M Require Import FmtModel IntFmtProofs IntRoundTrip.
Import ListNotations.
Local Open Scope Z_scope.

Definition read_int (b:Z) (l:list Z) : Z :=
  match l with 45 :: r => - fst (digs b r 0 0) | _ => fst (digs b l 0 0) end.
Definition value_of (w val base:Z) (sign:bool) : Z :=
  let u0 := val mod 2^w in
  if sign && (2^(w-1) <=? u0) && (eff_base base =? 10) then u0 - 2^w else u0.

Lemma eff_base_cases base : eff_base base = 2 \/ eff_base base = 8 \/ eff_base base = 10 \/ eff_base base = 16.
Proof. unfold eff_base. destruct (base =? 2); [tauto|]. destruct (base =? 8); [tauto|]. destruct (base =? 16); tauto. Qed.

Lemma canon_digits_not_minus b u : (b = 2 \/ b = 8 \/ b = 10 \/ b = 16) -> 0 < u < 2^64 ->
  match canon_digits b u with 45 :: _ => False | _ => True end.
Proof.
  intros Hb Hu. unfold canon_digits. cbn [digits_fix]. 
  set (d := (u / b ^ Z.of_nat (top 64 b u)) mod b).
  assert (0 <= d < b) by (apply Z.mod_pos_bound; destruct Hb as [->|[->|[->| ->]]]; lia).
  assert (Hd : d < 16) by (destruct Hb as [->|[->|[->| ->]]]; lia).
  unfold digit_char. destruct (d <? 10) eqn:E.
  - apply Z.ltb_lt in E. destruct (48 + d) eqn:F; try exact I. repeat (destruct p; try exact I); lia.
  - apply Z.ltb_ge in E. destruct (55 + d) eqn:F; try exact I. repeat (destruct p; try exact I); lia.
Qed.

Lemma read_unsigned b u rest : (b = 2 \/ b = 8 \/ b = 10 \/ b = 16) -> 0 < u < 2^64 -> stops b rest ->
  read_int b (canon_digits b u ++ rest) = u.
Proof.
  intros Hb Hu Hs. pose proof (canon_digits_not_minus b u Hb Hu) as Hm. pose proof (rt_unsigned b u rest Hb Hu Hs) as Hr.
  unfold read_int. destruct (canon_digits b u) as [|c cs] eqn:E.
  - unfold canon_digits in E. cbn [digits_fix] in E. discriminate E.
  - cbn [app]. assert (G : fst (digs b ((c :: cs) ++ rest) 0 0) = u) by (rewrite Hr; reflexivity). cbn [app] in G.
    destruct c as [|p|p]; try exact G. repeat (destruct p; try exact G). contradiction Hm.
Qed.

Theorem rt_canonical w val base sign rest : (w = 32 \/ w = 64) -> stops (eff_base base) rest ->
  read_int (eff_base base) (canonical w val base sign ++ rest) = value_of w val base sign.
Proof.
  intros Hw Hs. unfold canonical, value_of. cbv zeta.
  assert (H2w : 0 < 2^w <= 2^64) by (destruct Hw; subst; split; [reflexivity|discriminate|reflexivity|discriminate]).
  assert (Hh : 2 * 2^(w-1) = 2^w) by (destruct Hw; subst; reflexivity).
  assert (Hu0 : 0 <= val mod 2^w < 2^w) by (apply Z.mod_pos_bound; lia).
  set (u0 := val mod 2^w) in *. set (b := eff_base base) in *.
  pose proof (eff_base_cases base) as Hb. fold b in Hb.
  destruct (Z.eqb_spec u0 0) as [E0|Hnz].
  - rewrite E0. replace (2 ^ (w - 1) <=? 0) with false by (symmetry; apply Z.leb_gt; lia).
    rewrite andb_false_r. cbn [andb app]. unfold read_int. rewrite rt_zero; [reflexivity| |exact Hs].
    destruct Hb as [->|[->|[->| ->]]]; lia.
  - destruct (sign && (2 ^ (w - 1) <=? u0) && (b =? 10)) eqn:En.
    + apply andb_prop in En. destruct En as [En Eb]. apply andb_prop in En. destruct En as [_ Eh]. apply Z.leb_le in Eh. apply Z.eqb_eq in Eb.
      rewrite Z.mod_small by lia. cbn [app]. unfold read_int.
      assert (Hu : 0 < 2^w - u0 < 2^64) by lia.
      rewrite (rt_unsigned b (2^w - u0) rest Hb Hu Hs). cbn [fst]. lia.
    + cbn [app]. apply read_unsigned; [exact Hb|lia|exact Hs].
Qed.

(* non-vacuity: INT32_MIN in decimal, and the same bit pattern in hexadecimal *)
Example rt_min32 :
  canonical 32 (-2147483648) 10 true = [45;50;49;52;55;52;56;51;54;52;56] /\ value_of 32 (-2147483648) 10 true = -2147483648 /\
  value_of 32 (-2147483648) 16 true = 2147483648 /\ read_int 16 (canonical 32 (-2147483648) 16 true ++ [44]) = 2147483648.
Proof. vm_compute. repeat split; reflexivity. Qed.
Print Assumptions rt_canonical.
