(* Small compositions of the models that the correspondence driver calls (definitions only).
   They exist so that the length rule of SCPI_ErrorPushEx, the description lookup and the
   SYST:ERR? wrapper are evaluated by extracted Gallina code, not by hand-written OCaml. *)
From Coq Require Import Bool List NArith ZArith Lia.
From M Require LexModel FmtModel FifoProof HeapProof QStatic ErrQueue ExprModel Generated NumDecode.
Import ListNotations.
Local Open Scope Z_scope.

(* SCPI_ErrorTranslate over the generated table *)
Definition desc_of (code:Z) : list N :=
  let fix go (l:list (Z * list N)) := match l with [] => Generated.gen_err_fallback | (c,d)::r => if c =? code then d else go r end in
  go Generated.gen_err_desc.
Definition descz (code:Z) : list Z := map Z.of_N (desc_of code).

(* strndup(info, n): at most n bytes, stopping at NUL *)
Fixpoint cstrz (n:nat) (l:list Z) : list Z :=
  match n with O => [] | S n' => match l with c::r => if c =? 0 then [] else c :: cstrz n' r | [] => [] end end.
(* SCPI_ErrorPushEx, malloc configuration: info_len = 0 means strnlen(info, 255) *)
Definition eq_push_ex (s:ErrQueue.equeue) (code:Z) (info:option (list Z)) (info_len:Z) (aok:bool) : ErrQueue.equeue * bool * bool :=
  let kept := match info with
              | Some t => let n := if info_len =? 0 then HeapProof.strnlen_l t 255 else info_len in Some (cstrz (Z.to_nat n) t)
              | None => None end in
  ErrQueue.push s code kept aok.
Definition eq_init (cap:Z) : ErrQueue.equeue :=
  {| ErrQueue.q := {| FifoProof.fdata := repeat ErrQueue.e0 (Z.to_nat cap); FifoProof.fwr := 0; FifoProof.frd := 0; FifoProof.fcount := 0; FifoProof.fsize := cap |};
     ErrQueue.live := []; ErrQueue.next := O; ErrQueue.store := fun _ => [] |}.
Definition eq_count (s:ErrQueue.equeue) : Z := FifoProof.fcount _ (ErrQueue.q s).
(* SYST:ERR? on the malloc configuration: pop, format, release *)
Definition eq_systerr (s:ErrQueue.equeue) : ErrQueue.equeue * list Z :=
  let '(s1, (code, info), _) := ErrQueue.pop s in
  (s1, FmtModel.result_error code (descz code) info Generated.gen_desc_max).
(* static heap configuration: the queue over the string heap is the one QStatic.v proves things about *)
Definition hq_init (qcap heap:Z) : QStatic.equeue := {| QStatic.q := QStatic.fifo_init qcap; QStatic.hp := HeapProof.heap_init heap |}.
Definition hq_push_ex (s:QStatic.equeue) (code:Z) (info:option (list Z)) (info_len:Z) : QStatic.equeue :=
  QStatic.qstep s (QStatic.push_op code info info_len).
Definition hq_count (s:QStatic.equeue) : Z := FifoProof.fcount _ (QStatic.q s).
Definition hq_systerr (s:QStatic.equeue) : QStatic.equeue * list Z :=
  let '(code, txt, s1) := QStatic.error_pop_release s in
  let info := match txt with None => None | Some (p1, None) => Some p1 | Some (p1, Some p2) => Some (p1 ++ p2) end in
  (s1, FmtModel.result_error code (descz code) info Generated.gen_desc_max).

(* SCPI_ExprNumericListEntry at token level: result, range flag, the two token extents relative to the '(' *)
Definition numlist_entry_tok (body:list N) (index:Z) : ExprModel.eres * bool * (Z*Z) * (Z*Z) :=
  let '(r, isr, (fo,fl), (to,tl_)) := ExprModel.numlist_walk (S (length body)) body 0 0 index in
  (r, isr, (fo + 1, fl), (to + 1, tl_)).

(* SCPI_ExprNumericListEntryDouble: the walk, then SCPI_ParamToDouble (strtod at the token, which reads on to the closing parenthesis) *)
Definition numlist_entry_double (body:list N) (index:Z) : ExprModel.eres * bool * Z * Z :=
  let '(r, isr, (fo,_), (to,_)) := ExprModel.numlist_walk (S (length body)) body 0 0 index in
  match r with
  | ExprModel.EOK => (ExprModel.EOK, isr, NumDecode.strtod_bits (LexModel.drop fo (body ++ [41%N])), if isr then NumDecode.strtod_bits (LexModel.drop to (body ++ [41%N])) else 0)
  | _ => (r, false, 0, 0)
  end.
