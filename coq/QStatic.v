(* C20, queue level: error queue over the static string heap *)
From Coq Require Import Bool List ZArith Lia.
From M Require Import FifoProof HeapProof.
Import ListNotations.
Local Open Scope bool_scope.
Local Open Scope Z_scope.

Record entry := { ecode : Z; einfo : option Z }.       (* info = index of the text in the heap *)
Definition e0 : entry := {| ecode := 0; einfo := None |}.
Record equeue := { q : fifo entry; hp : heap }.

(* SCPI_ErrorAddInternal, static-heap configuration; info = (text, length limit) *)
Definition error_add (s:equeue) (code:Z) (info:option (list Z * Z)) : bool * equeue :=
  let '(p, h1) := match info with Some (t,n) => heap_strndup (hp s) t n | None => (None, hp s) end in
  let v := {| ecode := code; einfo := p |} in
  let '(ok, f1) := fifo_add entry (q s) v in
  if ok then (true, {| q := f1; hp := h1 |})
  else
    let h2 := heap_free h1 p true in
    let '(last, f2) := fifo_remove_last entry e0 f1 in
    let h3 := heap_free h2 (match last with Some e => einfo e | None => p end) true in
    let '(_, f3) := fifo_add entry f2 {| ecode := -350; einfo := None |} in
    (false, {| q := f3; hp := h3 |}).
(* SYST:ERR?: pop, hand the two text parts to the response writer, release the text *)
Definition error_pop_release (s:equeue) : Z * option (list Z * option (list Z)) * equeue :=
  let '(e, f1) := fifo_remove entry e0 (q s) in
  match e with
  | Some e => (ecode e, heap_text (hp s) (einfo e), {| q := f1; hp := heap_free (hp s) (einfo e) false |})
  | None => (0, None, {| q := f1; hp := hp s |})
  end.

(* ---------- ghost content: codes with the texts as pushed ---------- *)
Definition gentry := (Z * option (list Z))%type.
Definition texts (es:list gentry) : list (list Z) := flat_map (fun x => match snd x with Some t => [t] | None => [] end) es.
Fixpoint assign (size st off:Z) (es:list gentry) : list entry :=
  match es with
  | [] => []
  | (c, None) :: r => {| ecode := c; einfo := None |} :: assign size st off r
  | (c, Some t) :: r => {| ecode := c; einfo := Some (wrap size (st + off)) |} :: assign size st (off + (Z.of_nat (length t) + 1)) r
  end.
Record QH (s:equeue) (st:Z) (es:list gentry) : Prop := {
  qh_fifo : Inv entry (q s);
  qh_abs : abs entry e0 (q s) = assign (hsize (hp s)) st 0 es;
  qh_heap : HInv (hp s) st (texts es) }.

Definition spec_push (N:Z) (l:list gentry) (code:Z) (text:option (list Z)) : list gentry :=
  if Z.of_nat (length l) <? N then l ++ [(code, text)] else removelast l ++ [(-350, None)].

Lemma texts_app a b : texts (a ++ b) = texts a ++ texts b.
Proof. apply flat_map_app. Qed.
Lemma texts_some c t r : texts ((c, Some t) :: r) = t :: texts r.
Proof. reflexivity. Qed.
Lemma texts_none c r : texts ((c, None) :: r) = texts r.
Proof. reflexivity. Qed.
Lemma img_cons_len t ts : Z.of_nat (length (img (t :: ts))) = Z.of_nat (length t) + 1 + Z.of_nat (length (img ts)).
Proof. cbn [img]. rewrite app_length. cbn [length]. lia. Qed.
Lemma assign_app size st : forall es off x, assign size st off (es ++ [x]) =
  assign size st off es ++ assign size st (off + Z.of_nat (length (img (texts es)))) [x].
Proof.
  induction es as [|[c [t|]] r IH]; intros off x.
  - cbn [assign app texts flat_map img length]. now rewrite Z.add_0_r.
  - rewrite texts_some, img_cons_len. cbn [assign app]. rewrite IH.
    replace (off + (Z.of_nat (length t) + 1 + Z.of_nat (length (img (texts r))))) with (off + (Z.of_nat (length t) + 1) + Z.of_nat (length (img (texts r)))) by lia. reflexivity.
  - rewrite texts_none. cbn [assign app]. rewrite IH. reflexivity.
Qed.
Lemma assign_length size st : forall es off, length (assign size st off es) = length es.
Proof. induction es as [|[c [t|]] r IH]; intros off; cbn; auto. Qed.
(* without texts the pointers do not matter *)
Lemma assign_notext size st st' : forall es off off', texts es = [] -> assign size st off es = assign size st' off' es.
Proof.
  induction es as [|[c [t|]] r IH]; intros off off' H; cbn [assign]; [reflexivity|discriminate|].
  f_equal. apply IH. exact H.
Qed.
(* moving the origin to the start of the next text keeps every later pointer *)
Lemma assign_shift size st a : 0 < size -> 0 <= st < size -> 0 <= a -> forall es off, 0 <= off ->
  a + off + Z.of_nat (length (img (texts es))) <= size ->
  assign size st (a + off) es = assign size (wrap size (st + a)) off es.
Proof.
  intros Hs Hst Ha. induction es as [|[c [t|]] r IH]; intros off Hoff Hfit; cbn [assign]; [reflexivity| |].
  - rewrite texts_some, img_cons_len in Hfit.
    f_equal.
    + f_equal. f_equal. symmetry. apply ptr_stable_first; lia.
    + replace (a + off + (Z.of_nat (length t) + 1)) with (a + (off + (Z.of_nat (length t) + 1))) by lia. apply IH; lia.
  - f_equal. apply IH; [lia|]. exact Hfit.
Qed.

Lemma count_is_length s st es : QH s st es -> fcount entry (q s) = Z.of_nat (length es).
Proof.
  intros [Hf Ha _]. pose proof (f_equal (@length entry) Ha) as Hl. rewrite assign_length in Hl.
  unfold abs in Hl. rewrite map_length, seq_length in Hl. destruct Hf as (_ & _ & _ & Hc & _). lia.
Qed.
Definition join (parts:list Z * option (list Z)) : list Z := fst parts ++ match snd parts with Some x => x | None => [] end.

(* ---------- pop: the head is reported with exactly its text ---------- *)
Theorem pop_static s st es : QH s st es ->
  let '(code, parts, s') := error_pop_release s in
  match es with
  | [] => code = 0 /\ parts = None /\ QH s' st [] /\ hsize (hp s') = hsize (hp s) /\ fsize entry (q s') = fsize entry (q s)
  | (c, tx) :: r => code = c /\ option_map join parts = tx /\ (exists st', QH s' st' r) /\ hsize (hp s') = hsize (hp s) /\ fsize entry (q s') = fsize entry (q s)
  end.
Proof.
  intros HQ. pose proof (count_is_length s st es HQ) as Hcount. pose proof HQ as [Hf Ha Hh].
  unfold error_pop_release. destruct es as [|[c tx] r].
  - unfold fifo_remove. cbn [length] in Hcount. rewrite Hcount. cbn [Z.of_nat Z.eqb]. split; [reflexivity|]. split; [reflexivity|].
    split; [destruct s; exact HQ|]. split; reflexivity.
  - cbn [length] in Hcount.
    destruct (remove_spec entry e0 (q s) Hf ltac:(lia)) as (e & He & Hinv1 & Habs).
    assert (Hsz1 : fsize entry (snd (fifo_remove entry e0 (q s))) = fsize entry (q s)).
    { unfold fifo_remove. destruct (fcount entry (q s) =? 0); reflexivity. }
    destruct (fifo_remove entry e0 (q s)) as [r0 f1]. cbn [fst snd] in *. subst r0.
    rewrite Habs in Ha. destruct tx as [t|]; cbn [assign] in Ha; injection Ha as He Ha; subst e; cbn [ecode einfo].
    + (* the head carries a text *)
      rewrite texts_some in Hh.
      destruct (text_at (hp s) st [] t (texts r) Hh) as (p1 & p2 & Htxt & Hjoin).
      cbn [img length Z.of_nat] in Htxt. rewrite Htxt. split; [reflexivity|]. split; [cbn [option_map]; unfold join; cbn [fst snd]; now rewrite Hjoin|].
      pose proof (hi_size _ _ _ Hh) as Hsz. pose proof (hi_st _ _ _ Hh) as Hst. pose proof (hi_fit _ _ _ Hh) as Hfit. rewrite img_cons_len in Hfit.
      assert (Hp : wrap (hsize (hp s)) (st + 0) = st) by (unfold wrap; rewrite Z.add_0_r; destruct (Z.ltb_spec st (hsize (hp s))); lia).
      rewrite Hp. destruct (free_first (hp s) st t (texts r) Hh) as [Hh' Hsize'].
      split; [|split; [exact Hsize'|exact Hsz1]].
      exists (match texts r with [] => 0 | _ :: _ => wrap (hsize (hp s)) (st + (Z.of_nat (length t) + 1)) end).
      constructor; cbn [q hp].
      * exact Hinv1.
      * rewrite Hsize', Ha. destruct (texts r) as [|u ur] eqn:Etr.
        -- apply assign_notext. exact Etr.
        -- rewrite <- assign_shift by (try lia; rewrite Etr; lia). f_equal. lia.
      * exact Hh'.
    + (* no text: the heap is untouched *)
      cbn [heap_text heap_free]. split; [reflexivity|]. split; [reflexivity|]. split; [|split; [reflexivity|exact Hsz1]].
      exists st. constructor; cbn [q hp]; [exact Hinv1|exact Ha|exact Hh].
Qed.

(* ---------- push ---------- *)
Lemma fifo_add_full f (v:entry) : fcount entry f = fsize entry f -> fifo_add entry f v = (false, f).
Proof. intros H. unfold fifo_add. now rewrite H, Z.eqb_refl. Qed.
Lemma add_fields f (v:entry) : fcount entry f <> fsize entry f -> fsize entry (snd (fifo_add entry f v)) = fsize entry f.
Proof. intro H. unfold fifo_add. destruct (Z.eqb_spec (fcount entry f) (fsize entry f)); [contradiction|]. now cbn. Qed.
Lemma remove_last_fields f : fcount entry f <> 0 ->
  fsize entry (snd (fifo_remove_last entry e0 f)) = fsize entry f /\ fcount entry (snd (fifo_remove_last entry e0 f)) = fcount entry f - 1.
Proof. intro H. unfold fifo_remove_last. destruct (Z.eqb_spec (fcount entry f) 0); [contradiction|]. now cbn. Qed.
Lemma assign_origin size st st' es : (texts es <> [] -> st' = st) -> assign size st 0 es = assign size st' 0 es.
Proof. intro H. destruct (texts es) eqn:E; [now apply assign_notext|]. rewrite H by discriminate. reflexivity. Qed.

(* the overflow path once the new text has been given back *)
Lemma overflow_tail f h st es : Inv entry f -> abs entry e0 f = assign (hsize h) st 0 es -> HInv h st (texts es) ->
  fcount entry f = fsize entry f ->
  exists e f2 f3 st3,
    fifo_remove_last entry e0 f = (Some e, f2) /\
    fifo_add entry f2 {| ecode := -350; einfo := None |} = (true, f3) /\
    QH {| q := f3; hp := heap_free h (einfo e) true |} st3 (removelast es ++ [(-350, None)]) /\
    fsize entry f3 = fsize entry f /\ hsize (heap_free h (einfo e) true) = hsize h.
Proof.
  intros Hf Ha Hh Hfull.
  assert (Hpos : 0 < fcount entry f) by (destruct Hf as (? & _); lia).
  destruct (remove_last_spec entry e0 f Hf Hpos) as (e & He & Hinv2 & Habs).
  destruct (remove_last_fields f) as [Hsz2 Hc2]; [lia|].
  destruct (fifo_remove_last entry e0 f) as [last f2]. cbn [fst snd] in *. subst last.
  assert (Hlt : fcount entry f2 < fsize entry f2) by lia.
  destruct (add_spec entry e0 f2 {| ecode := -350; einfo := None |} Hinv2 Hlt) as (Hadd & Hinv3 & Habs3).
  pose proof (add_fields f2 {| ecode := -350; einfo := None |} ltac:(lia)) as Hsz3.
  destruct (fifo_add entry f2 {| ecode := -350; einfo := None |}) as [added f3] eqn:Eadd. cbn [fst snd] in *. subst added.
  (* the ghost list is not empty either *)
  assert (Hne : es <> []).
  { intro; subst es. cbn [assign] in Ha. rewrite Habs in Ha. destruct (abs entry e0 f2); discriminate. }
  destruct (exists_last Hne) as (es2 & x & ->). rewrite removelast_last.
  rewrite assign_app, Habs in Ha. rewrite texts_app in Hh.
  assert (Hsplit : abs entry e0 f2 = assign (hsize h) st 0 es2 /\ [e] = assign (hsize h) st (0 + Z.of_nat (length (img (texts es2)))) [x]).
  { destruct x as [c [t|]]; cbn [assign] in Ha |- *; apply app_inj_tail in Ha; destruct Ha as [H1 H2]; (split; [exact H1|now rewrite H2]). }
  destruct Hsplit as [Ha2 He2].
  destruct x as [c [t|]]; cbn [assign] in He2; injection He2 as He2; subst e; cbn [einfo]; cbn [texts flat_map snd app] in Hh.
  - (* the newest entry owns a text: released with roll-back *)
    destruct (free_last h st (texts es2) t Hh) as [Hh3 Hsize3].
    exists {| ecode := c; einfo := Some (wrap (hsize h) (st + Z.of_nat (length (img (texts es2))))) |}, f2, f3,
           (match texts es2 with [] => 0 | _ :: _ => st end).
    split; [reflexivity|]. split; [exact Eadd|]. split; [|split; [lia|exact Hsize3]]. cbn [einfo] in *.
    constructor; cbn [q hp einfo].
    + exact Hinv3.
    + rewrite Hsize3, Habs3, assign_app. cbn [assign]. f_equal. rewrite Ha2. apply assign_origin.
      intro Hnz. destruct (texts es2); [congruence|reflexivity].
    + rewrite texts_app. cbn [texts flat_map snd]. rewrite app_nil_r. exact Hh3.
  - rewrite app_nil_r in Hh. exists {| ecode := c; einfo := None |}, f2, f3, st.
    split; [reflexivity|]. split; [exact Eadd|]. cbn [heap_free]. split; [|split; [lia|reflexivity]].
    constructor; cbn [q hp einfo].
    + exact Hinv3.
    + rewrite Habs3, assign_app. cbn [assign]. f_equal. exact Ha2.
    + rewrite texts_app. cbn [texts flat_map snd]. rewrite app_nil_r. exact Hh.
Qed.

(* what the queue keeps of a pushed text: all of it (up to the length limit and the first NUL) or nothing *)
Definition text_or_nothing (info:option (list Z * Z)) (tx:option (list Z)) : Prop :=
  tx = None \/ exists t n, info = Some (t, n) /\ tx = Some (stored_text t n).

Theorem add_static s st es code info : QH s st es ->
  match info with Some (t, n) => len_ok t n | None => True end ->
  let '(_, s') := error_add s code info in
  exists st' tx, QH s' st' (spec_push (fsize entry (q s)) es code tx) /\ text_or_nothing info tx /\
                 fsize entry (q s') = fsize entry (q s) /\ hsize (hp s') = hsize (hp s).
Proof.
  intros HQ Hn. pose proof (count_is_length s st es HQ) as Hcount. pose proof HQ as [Hf Ha Hh].
  unfold error_add, spec_push. rewrite <- Hcount.
  (* allocation: nothing changes, or the text is appended behind the stored ones *)
  assert (Halloc : exists p h1 tx,
     match info with Some (t, n) => heap_strndup (hp s) t n | None => (None, hp s) end = (p, h1) /\
     text_or_nothing info tx /\ hsize h1 = hsize (hp s) /\
     HInv h1 st (texts es ++ match tx with Some t => [t] | None => [] end) /\
     p = match tx with Some _ => Some (wrap (hsize (hp s)) (st + Z.of_nat (length (img (texts es))))) | None => None end).
  { destruct info as [[t n]|].
    - pose proof (strndup_inv (hp s) st (texts es) t n Hh Hn) as H. destruct (heap_strndup (hp s) t n) as [[p|] h1].
      + destruct H as (Hp & _ & Hh1 & Hs1). exists (Some p), h1, (Some (stored_text t n)).
        split; [reflexivity|]. split; [right; eauto|]. split; [exact Hs1|]. split; [exact Hh1|]. now rewrite Hp.
      + subst h1. exists None, (hp s), None. split; [reflexivity|]. split; [now left|]. split; [reflexivity|]. split; [now rewrite app_nil_r|reflexivity].
    - exists None, (hp s), None. split; [reflexivity|]. split; [now left|]. split; [reflexivity|]. split; [now rewrite app_nil_r|reflexivity]. }
  destruct Halloc as (p & h1 & tx & Ealloc & Hton & Hs1 & Hh1 & Hp). rewrite Ealloc.
  pose proof Hf as (Hs0 & Hl0 & Hr0 & Hc0 & Hw0).
  destruct (Z.ltb_spec (fcount entry (q s)) (fsize entry (q s))) as [Hlt|Hge].
  - (* room in the queue *)
    destruct (add_spec entry e0 (q s) {| ecode := code; einfo := p |} Hf Hlt) as (Hadd & Hinv1 & Habs1).
    pose proof (add_fields (q s) {| ecode := code; einfo := p |} ltac:(lia)) as Hsz.
    destruct (fifo_add entry (q s) {| ecode := code; einfo := p |}) as [added f1]. cbn [fst snd] in *. subst added.
    exists st, tx. split; [|split; [exact Hton|split; [exact Hsz|exact Hs1]]].
    constructor; cbn [q hp].
    + exact Hinv1.
    + rewrite Habs1, assign_app, Hs1, Ha. f_equal. rewrite Z.add_0_l. subst p. destruct tx; reflexivity.
    + rewrite texts_app. cbn [texts flat_map snd]. rewrite app_nil_r. exact Hh1.
  - (* queue full: the new text is given back, the newest entry becomes -350 *)
    assert (Hfull : fcount entry (q s) = fsize entry (q s)) by lia.
    rewrite fifo_add_full by exact Hfull.
    assert (Hback : exists st2, HInv (heap_free h1 p true) st2 (texts es) /\ hsize (heap_free h1 p true) = hsize (hp s) /\
                                (texts es <> [] -> st2 = st)).
    { subst p. destruct tx as [t|].
      - destruct (free_last h1 st (texts es) t Hh1) as [H1 H2]. rewrite Hs1 in H1, H2. eexists. split; [exact H1|]. split; [exact H2|].
        intro Hnz. destruct (texts es); [congruence|reflexivity].
      - cbn [heap_free]. rewrite app_nil_r in Hh1. exists st. split; [exact Hh1|]. split; [exact Hs1|]. reflexivity. }
    destruct Hback as (st2 & Hh2 & Hs2 & Horig).
    assert (Ha2 : abs entry e0 (q s) = assign (hsize (heap_free h1 p true)) st2 0 es).
    { rewrite Hs2, Ha. apply assign_origin. exact Horig. }
    destruct (overflow_tail (q s) (heap_free h1 p true) st2 es Hf Ha2 Hh2 Hfull) as (e & f2 & f3 & st3 & E1 & E2 & HQ3 & Hsz3 & Hsize3).
    rewrite E1, E2. exists st3, None. split; [exact HQ3|]. split; [now left|]. split; [exact Hsz3|]. cbn [hp]. now rewrite Hsize3.
Qed.

(* ---------- clear ---------- *)
Definition fifo_clear (f:fifo entry) : fifo entry := {| fdata := fdata entry f; fwr := 0; frd := 0; fcount := 0; fsize := fsize entry f |}.
Fixpoint clear_loop (fuel:nat) (f:fifo entry) (h:heap) : fifo entry * heap :=
  match fuel with O => (f,h) | S n =>
    match fifo_remove entry e0 f with
    | (Some e, f1) => clear_loop n f1 (heap_free h (einfo e) false)
    | (None, f1) => (f1, h)
    end end.
Definition error_clear (s:equeue) : equeue :=
  let '(f1,h1) := clear_loop (S (Z.to_nat (fsize entry (q s)))) (q s) (hp s) in {| q := fifo_clear f1; hp := h1 |}.

Lemma fifo_remove_empty f : fcount entry f = 0 -> fifo_remove entry e0 f = (None, f).
Proof. intro H. unfold fifo_remove. now rewrite H. Qed.
Lemma fifo_remove_nonempty f : fcount entry f <> 0 -> exists e f1, fifo_remove entry e0 f = (Some e, f1).
Proof. intro H. unfold fifo_remove. destruct (Z.eqb_spec (fcount entry f) 0); [contradiction|]. eauto. Qed.

Lemma clear_loop_inv : forall es fuel f h st, QH {| q := f; hp := h |} st es -> (length es < fuel)%nat ->
  let '(f', h') := clear_loop fuel f h in
  exists st', QH {| q := f'; hp := h' |} st' [] /\ fsize entry f' = fsize entry f /\ hsize h' = hsize h.
Proof.
  induction es as [|[c tx] r IH]; intros fuel f h st HQ Hfuel; (destruct fuel as [|fuel]; [cbn in Hfuel; lia|]); cbn [clear_loop];
    pose proof (count_is_length _ _ _ HQ) as Hc; cbn [q length] in Hc.
  - rewrite fifo_remove_empty by exact Hc. exists st. split; [exact HQ|]. split; reflexivity.
  - destruct (fifo_remove_nonempty f ltac:(lia)) as (e & f1 & Erem).
    pose proof (pop_static _ st ((c,tx)::r) HQ) as Hp. unfold error_pop_release in Hp. cbn [q hp] in Hp. rewrite Erem in Hp.
    destruct Hp as (_ & _ & (st' & HQ') & Hs1 & Hs2). cbn [q hp] in *. rewrite Erem.
    specialize (IH fuel f1 (heap_free h (einfo e) false) st' HQ' ltac:(cbn [length] in Hfuel; lia)).
    destruct (clear_loop fuel f1 (heap_free h (einfo e) false)) as [f' h'].
    destruct IH as (st'' & HQ'' & H1 & H2). exists st''. split; [exact HQ''|]. split; lia.
Qed.

Theorem clear_static s st es : QH s st es -> exists st', QH (error_clear s) st' [] /\
  fsize entry (q (error_clear s)) = fsize entry (q s) /\ hsize (hp (error_clear s)) = hsize (hp s).
Proof.
  intros HQ. unfold error_clear.
  assert (Hfuel : (length es < S (Z.to_nat (fsize entry (q s))))%nat).
  { pose proof (count_is_length _ _ _ HQ) as Hc. destruct HQ as [(_ & _ & _ & Hcr & _) _ _]. lia. }
  pose proof (clear_loop_inv es (S (Z.to_nat (fsize entry (q s)))) (q s) (hp s) st) as H. destruct s as [f h]. cbn [q hp] in *. specialize (H HQ Hfuel).
  destruct (clear_loop (S (Z.to_nat (fsize entry f))) f h) as [f' h']. destruct H as (st' & [Hf' Ha' Hh'] & H1 & H2). cbn [q hp] in *.
  exists st'. split; [|split; [exact H1|exact H2]]. constructor; cbn [q hp].
  - destruct Hf' as (Hs & Hl & _ & _ & _). unfold Inv, fifo_clear. cbn. repeat split; try lia.
  - reflexivity.
  - exact Hh'.
Qed.

(* ---------- every history ---------- *)
Inductive qop := OpPush (code:Z) (info:option (list Z * Z)) | OpPop | OpClear.
Definition op_ok (o:qop) : Prop := match o with OpPush _ (Some (t, n)) => len_ok t n | _ => True end.
Definition qstep (s:equeue) (o:qop) : equeue :=
  match o with
  | OpPush c i => snd (error_add s c i)
  | OpPop => snd (error_pop_release s)
  | OpClear => error_clear s
  end.
(* a ghost history step: what the reference queue allowing "text or nothing" may do *)
Definition spec_step (N:Z) (es:list gentry) (o:qop) (es':list gentry) : Prop :=
  match o with
  | OpPush c i => exists tx, text_or_nothing i tx /\ es' = spec_push N es c tx
  | OpPop => es' = tl es
  | OpClear => es' = []
  end.
Definition Sized (N H:Z) (s:equeue) : Prop := fsize entry (q s) = N /\ hsize (hp s) = H.

Theorem step_static N H s st es o : QH s st es -> Sized N H s -> op_ok o ->
  exists st' es', QH (qstep s o) st' es' /\ Sized N H (qstep s o) /\ spec_step N es o es'.
Proof.
  intros HQ [HN HH] Hok. destruct o as [c i| |]; cbn [qstep spec_step].
  - pose proof (add_static s st es c i HQ) as Ha. assert (Hn : match i with Some (t, n) => len_ok t n | None => True end) by (destruct i as [[? ?]|]; exact Hok).
    specialize (Ha Hn). destruct (error_add s c i) as [ok s']. cbn [snd]. destruct Ha as (st' & tx & HQ' & Hton & H1 & H2).
    exists st', (spec_push N es c tx). rewrite <- HN. split; [exact HQ'|]. split; [split; lia|]. exists tx. split; [exact Hton|reflexivity].
  - pose proof (pop_static s st es HQ) as Hp. destruct (error_pop_release s) as [[code parts] s']. cbn [snd]. destruct es as [|[c tx] r].
    + destruct Hp as (_ & _ & HQ' & H1 & H2). exists st, []. split; [exact HQ'|]. split; [split; lia|reflexivity].
    + destruct Hp as (_ & _ & (st' & HQ') & H1 & H2). exists st', r. split; [exact HQ'|]. split; [split; lia|reflexivity].
  - destruct (clear_static s st es HQ) as (st' & HQ' & H1 & H2). exists st', []. split; [exact HQ'|]. split; [split; lia|reflexivity].
Qed.

(* SCPI_ErrorPushEx: a length of 0 means strnlen(info, 255); every call through it satisfies op_ok *)
Definition push_op (code:Z) (info:option (list Z)) (info_len:Z) : qop :=
  match info with
  | Some t => OpPush code (Some (t, if info_len =? 0 then strnlen_l t 255 else info_len))
  | None => OpPush code None
  end.
Lemma push_op_ok code info info_len : 0 <= info_len -> op_ok (push_op code info info_len).
Proof.
  intro Hl. unfold push_op. destruct info as [t|]; [|exact I]. cbn [op_ok]. destruct t as [|c r]; [exact I|]. cbn [len_ok]. intro Hc.
  destruct (Z.eqb_spec info_len 0); [|lia]. cbn [strnlen_l Pos.to_nat]. 
  change (Pos.to_nat 255) with (S 254). cbn [strnlen_l]. destruct (Z.eqb_spec c 0); [contradiction|].
  destruct (strnlen_l_spec r 254) as (? & _). lia.
Qed.

Inductive spec_run (N:Z) : list gentry -> list qop -> list gentry -> Prop :=
| sr_nil es : spec_run N es [] es
| sr_cons es o es1 ops es2 : spec_step N es o es1 -> spec_run N es1 ops es2 -> spec_run N es (o :: ops) es2.

(* C20 for every history: the implementation state always represents a reference queue whose entries carry
   the pushed text or nothing, whatever the heap size, queue capacity and operation sequence *)
Theorem run_static N H ops : forall s st es, QH s st es -> Sized N H s -> Forall op_ok ops ->
  exists st' es', QH (fold_left qstep ops s) st' es' /\ Sized N H (fold_left qstep ops s) /\ spec_run N es ops es'.
Proof.
  induction ops as [|o ops IH]; intros s st es HQ HS Hok; cbn [fold_left].
  - exists st, es. split; [exact HQ|]. split; [exact HS|constructor].
  - inversion Hok as [|? ? Ho Hops]; subst.
    destruct (step_static N H s st es o HQ HS Ho) as (st1 & es1 & HQ1 & HS1 & Hstep).
    destruct (IH _ st1 es1 HQ1 HS1 Hops) as (st2 & es2 & HQ2 & HS2 & Hrun).
    exists st2, es2. split; [exact HQ2|]. split; [exact HS2|]. econstructor; eassumption.
Qed.

(* the initial state *)
Definition fifo_init (N:Z) : fifo entry := {| fdata := repeat e0 (Z.to_nat N); fwr := 0; frd := 0; fcount := 0; fsize := N |}.
Theorem init_static N H : 0 < N -> 0 < H -> QH {| q := fifo_init N; hp := heap_init H |} 0 [] /\ Sized N H {| q := fifo_init N; hp := heap_init H |}.
Proof.
  intros HN HH. split; [|split; reflexivity]. constructor; cbn [q hp texts flat_map assign].
  - unfold Inv, fifo_init. cbn. rewrite repeat_length. repeat split; lia.
  - reflexivity.
  - apply init_inv. exact HH.
Qed.

(* heap space is completely reusable once the queue is empty *)
Theorem empty_queue_reusable s st t n : QH s st [] -> good_text (stored_text t n) ->
  Z.of_nat (length (stored_text t n)) + 1 <= hsize (hp s) -> exists p h', heap_strndup (hp s) t n = (Some p, h').
Proof. intros [_ _ Hh] Hg Hfit. cbn [texts flat_map] in Hh. eapply empty_reusable; eassumption. Qed.

(* non-vacuity and a worked wrap-around: heap of 8 bytes, queue of 2 *)
Definition s0 : equeue := {| q := fifo_init 2; hp := heap_init 8 |}.
Example wrap_example :
  let s1 := fold_left qstep [OpPush (-100) (Some ([65;66], 2)); OpPush (-101) (Some ([67;68], 2)); OpPop;
                             OpPush (-102) (Some ([69;70;71;72], 4)); OpPop] s0 in
  fst (error_pop_release s1) = (-102, Some ([69;70], Some [71;72])).
Proof. vm_compute. reflexivity. Qed.

Print Assumptions run_static.
Print Assumptions pop_static.
Print Assumptions add_static.
Print Assumptions clear_static.
Print Assumptions empty_queue_reusable.
