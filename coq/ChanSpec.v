(* C19, channel lists: one channel specification a!b!c is walked dimension by dimension *)
From Coq Require Import Bool List NArith ZArith Lia.
From M Require Import LexModel LexBounds DecSpec MoreSpecs ExprModel NumList.
Import ListNotations.
Local Open Scope Z_scope.

Fixpoint spec_text (ds:list bytes) : bytes := match ds with [] => [] | [a] => a | a :: r => a ++ 33%N :: spec_text r end.
Lemma spec_text_cons a b r : spec_text (a :: b :: r) = a ++ 33%N :: spec_text (b :: r). Proof. reflexivity. Qed.
Definition cstop (rest:bytes) : Prop := starts decalpha rest = false /\ starts (ischr 33%N) rest = false.

(* the dimension count and the end position of a well-formed specification; the values are those the integer conversion
   yields at the start of each dimension, kept while there is room *)
Fixpoint dim_values (l:bytes) (pos:Z) (ds:list bytes) (i cap:Z) (vals:list Z) : list Z :=
  match ds with
  | [] => vals
  | a :: r => dim_values l (pos + Z.of_nat (length a) + 1) r (i + 1) cap (if i <? cap then vals ++ [to_int32 (drop pos l)] else vals)
  end.

Theorem channel_spec_walk : forall ds fuel l pos i cap vals rest, Forall Dec ds -> ds <> [] -> cstop rest -> 0 <= pos ->
  drop pos l = spec_text ds ++ rest -> (length ds < fuel)%nat ->
  channel_spec fuel l pos i cap vals =
  (EOK, dim_values l pos ds i cap vals, i + Z.of_nat (length ds), pos + Z.of_nat (length (spec_text ds))).
Proof.
  induction ds as [|a r IH]; intros fuel l pos i cap vals rest Hd Hne [Hs1 Hs2] Hpos Hl Hf; [congruence|].
  destruct fuel as [|f]; [cbn in Hf; lia|]. cbn [channel_spec]. inversion Hd as [|? ? Ha Hr]; subst.
  destruct r as [|b r'].
  - cbn [spec_text] in *. rewrite Hl. destruct (lex_decimal_at a rest Ha Hs1) as (R & D & _). rewrite R, D.
    pose proof (dec_len_pos a Ha). destruct (Z.ltb_spec 0 (Z.of_nat (length a))); [|lia].
    replace (drop (pos + Z.of_nat (length a)) l) with rest by (rewrite drop_drop by lia; rewrite Hl; symmetry; apply drop_app_len).
    unfold lex_specific. rewrite (lex_chr_miss _ _ _ Hs2). cbn [Z.ltb Z.compare dim_values length]. rewrite ?Hl. repeat match goal with |- (_, _) = (_, _) => f_equal end; try reflexivity; lia.
  - rewrite spec_text_cons in *. set (X := 33%N :: spec_text (b :: r') ++ rest).
    assert (Hl' : drop pos l = a ++ X) by (rewrite Hl, <- app_assoc; reflexivity). rewrite Hl'.
    destruct (lex_decimal_at a X Ha eq_refl) as (R & D & _). rewrite R, D.
    pose proof (dec_len_pos a Ha). destruct (Z.ltb_spec 0 (Z.of_nat (length a))); [|lia].
    assert (Hdx : drop (pos + Z.of_nat (length a)) l = X) by (rewrite drop_drop by lia; rewrite Hl'; apply drop_app_len).
    rewrite Hdx. assert (Hhit : ret (lex_specific 33%N X) = 1) by (unfold X, lex_specific; apply lex_chr_hit). rewrite Hhit. cbn [Z.ltb Z.compare].
    rewrite (IH f l (pos + Z.of_nat (length a) + 1) (i + 1) cap _ rest Hr ltac:(discriminate) (conj Hs1 Hs2) ltac:(lia)).
    + cbn [dim_values length]. rewrite ?Hl'. repeat match goal with |- (_, _) = (_, _) => f_equal end; try reflexivity; rewrite ?app_length; cbn [length]; lia.
    + rewrite drop_drop by lia. rewrite Hdx. reflexivity.
    + cbn [length] in *. lia.
Qed.
Print Assumptions channel_spec_walk.
