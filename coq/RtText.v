(* C07, text: what SCPI_ResultText writes is one string token, and SCPI_ParamCopyText turns it back into the text *)
From Coq Require Import Bool List NArith ZArith Lia.
From M Require Import LexModel LexBounds DecSpec MoreSpecs.
From M Require Import ParserModel.
Import ListNotations.
Local Open Scope Z_scope.

Definition text7 (t:list N) : Prop := forallb (fun c => isascii7 c) t = true.

(* the body written between the quotes is a string body in the sense of C13 *)
Lemma quote_text_body t : text7 t -> Body 34%N (quote_text t).
Proof.
  induction t as [|c r IH]; intro H; [constructor|]. unfold text7 in H. cbn [forallb] in H. apply andb_prop in H as [Hc Hr].
  cbn [quote_text]. destruct (N.eqb_spec c 34) as [->|Hne].
  - apply B_qq. now apply IH.
  - apply B_chr; [exact Hc|exact Hne|now apply IH].
Qed.
(* hence the rendered text, followed by anything that is not another double quote, is recognised whole *)
Theorem result_text_lexes t rest : text7 t -> starts (ischr 34%N) rest = false ->
  let w := 34%N :: quote_text t ++ [34%N] in
  disp (lex_string (w ++ rest)) = Z.of_nat (length w).
Proof.
  intros Ht Hr w. apply (string_complete (w ++ rest) (Z.of_nat (length w)) 34%N); [now left| | |].
  - rewrite app_length. subst w. cbn [length]. lia.
  - rewrite Nat2Z.id. rewrite firstn_app, Nat.sub_diag, firstn_all. cbn [firstn]. rewrite app_nil_r.
    exists (quote_text t). split; [now apply quote_text_body|reflexivity].
  - rewrite Nat2Z.id. rewrite skipn_app, skipn_all, Nat.sub_diag. cbn [skipn app]. exact Hr.
Qed.

(* the copy loop undoes the doubling *)
Lemma getm_app_at (pre:list N) x rest : getm (pre ++ x :: rest) (Z.of_nat (length pre)) = x.
Proof. unfold getm. destruct (Z.ltb_spec (Z.of_nat (length pre)) 0); [lia|]. rewrite Nat2Z.id. rewrite app_nth2 by lia. now rewrite Nat.sub_diag. Qed.

Lemma copy_loop_spec : forall t fuel pre rest out ito plen buflen,
  (length (quote_text t) < fuel)%nat ->
  plen - 1 = Z.of_nat (length pre) + Z.of_nat (length (quote_text t)) -> plen <= buflen ->
  copy_loop fuel (pre ++ quote_text t ++ 34%N :: rest) 34%N (Z.of_nat (length pre)) ito plen buflen out = (out ++ t, ito + Z.of_nat (length t)).
Proof.
  induction t as [|c r IH]; intros fuel pre rest out ito plen buflen Hf Hp Hb.
  - cbn [quote_text length app] in *. destruct fuel as [|f]; [lia|]. cbn [copy_loop].
    destruct (Z.leb_spec (plen - 1) (Z.of_nat (length pre))); [|lia]. rewrite app_nil_r. f_equal. lia.
  - destruct fuel as [|f]; [cbn in Hf; lia|]. cbn [copy_loop].
    assert (Hq : (1 <= length (quote_text (c :: r)))%nat) by (cbn [quote_text]; destruct (c =? 34)%N; cbn [length]; lia).
    destruct (Z.leb_spec (plen - 1) (Z.of_nat (length pre))); [lia|].
    destruct (Z.leb_spec buflen (Z.of_nat (length pre))); [lia|].
    cbn [quote_text] in *. destruct (N.eqb_spec c 34) as [->|Hne].
    + cbn [app]. rewrite getm_app_at. cbn [N.eqb Pos.eqb].
      replace (pre ++ 34%N :: 34%N :: quote_text r ++ 34%N :: rest) with ((pre ++ [34;34]%N) ++ quote_text r ++ 34%N :: rest) by (rewrite <- app_assoc; reflexivity).
      replace (Z.of_nat (length pre) + 2) with (Z.of_nat (length (pre ++ [34;34]%N))) by (rewrite app_length; cbn [length]; lia).
      rewrite IH; [rewrite <- app_assoc; cbn [app length]; f_equal; lia| | |exact Hb].
      * cbn [length] in Hf. lia.
      * rewrite app_length. cbn [length] in *. lia.
    + cbn [app]. rewrite getm_app_at. destruct (N.eqb_spec c 34); [contradiction|].
      replace (pre ++ c :: quote_text r ++ 34%N :: rest) with ((pre ++ [c]) ++ quote_text r ++ 34%N :: rest) by (rewrite <- app_assoc; reflexivity).
      replace (Z.of_nat (length pre) + 1) with (Z.of_nat (length (pre ++ [c]))) by (rewrite app_length; cbn [length]; lia).
      rewrite IH; [rewrite <- app_assoc; cbn [app length]; f_equal; lia| | |exact Hb].
      * cbn [length] in Hf. lia.
      * rewrite app_length. cbn [length] in *. lia.
Qed.
(* SCPI_ParamCopyText on the token SCPI_ResultText produced, with a buffer at least as long as the token *)
Theorem rt_text_copy t rest buflen :
  let tokn := 34%N :: quote_text t ++ [34%N] in
  Z.of_nat (length tokn) <= buflen ->
  copy_loop (S (length tokn)) (tokn ++ rest) 34%N 1 0 (Z.of_nat (length tokn)) buflen [] = (t, Z.of_nat (length t)).
Proof.
  intros tokn Hb. subst tokn. cbn [length app] in *. rewrite app_length in *. cbn [length] in *. rewrite <- app_assoc. cbn [app].
  pose proof (copy_loop_spec t (S (S (length (quote_text t) + 1))) [34%N] rest [] 0 (Z.of_nat (S (length (quote_text t) + 1))) buflen) as H.
  cbn [length app] in H. change (Z.of_nat 1) with 1 in H. rewrite H; [reflexivity|lia|lia|lia].
Qed.
Print Assumptions result_text_lexes.
Print Assumptions rt_text_copy.

(* the tight-buffer remark: with a buffer of |t|+1 bytes and a doubled quote the copy is cut short *)
Example rt_text_tight_refuted :
  let t := [97;34;98;99]%N in
  let tokn := 34%N :: quote_text t ++ [34%N] in
  fst (copy_loop (S (length tokn)) tokn 34%N 1 0 (Z.of_nat (length tokn)) 5 []) = [97;34;98]%N.
Proof. vm_compute. reflexivity. Qed.
