(* C12, the latching and stickiness clauses on the register model:
   - a 0->1 change of a condition-register bit sets the same bit of its event register, other event bits keep their value;
   - event bits stay set under every operation other than a write to that event register itself (its own query, an explicit
     write, STATus:PRESet for the questionable register) and *CLS: writes to any other register, error pushes, pops, clears. *)
From Coq Require Import Bool List NArith ZArith Lia.
From M Require Import RegModel RegProofs.
Import ListNotations.
Local Open Scope N_scope.

Definition untouched (name r:reg) : Prop :=
  r <> name /\ r <> STB /\ match fst (details name) with C_COND => r <> g_event (snd (details name)) | _ => True end.

Lemma regset_frame f : forall s name v cb r, untouched name r -> fst (regset f s name v cb) r = s r.
Proof.
  induction f as [|f IH]; intros s name v cb r (Hn & Hs & Hc); [reflexivity|].
  cbn [regset]. destruct (details name) as [cls gi] eqn:Ed. cbn [fst snd] in Hc.
  destruct (s name =? v); [reflexivity|].
  assert (H1 : set s name v r = s r) by (apply set_other; congruence).
  destruct cls.
  - destruct (negb _); cbn [fst]; (rewrite set_other by congruence); exact H1.
  - destruct (negb _); cbn [fst]; (rewrite set_other by congruence); exact H1.
  - destruct (g_parent gi) as [p|] eqn:Ep; [|exact H1].
    assert (p = STB) by (destruct name; cbn in Ed; try discriminate; inversion Ed; subst gi; cbn in Ep; congruence). subst p.
    rewrite IH; [exact H1|]. repeat split; try congruence; try (cbn; exact I).
  - destruct (g_parent gi) as [p|] eqn:Ep; [|exact H1].
    assert (p = STB) by (destruct name; cbn in Ed; try discriminate; inversion Ed; subst gi; cbn in Ep; congruence). subst p.
    rewrite IH; [exact H1|]. repeat split; try congruence; try (cbn; exact I).
  - rewrite IH; [exact H1|]. split; [exact Hc|]. split; [exact Hs|].
    destruct name; cbn in Ed; try discriminate; inversion Ed; subst gi; cbn; exact I.
Qed.

Definition event_of (c:reg) : reg := g_event (snd (details c)).

(* latching *)
Lemma regset_S f s name val cb : regset (S f) s name val cb =
  (let '(cls,gi) := details name in
   let old := s name in
   if old =? val then (s,cb) else
   let s1 := set s name val in
   match cls with
   | C_STB | C_SRE =>
       let stb := N.ldiff (s1 STB) SRQ in let sre := N.ldiff (s1 SRE) SRQ in
       if negb (N.land stb sre =? 0) then
         let ptrans := N.land (N.lxor old val) val in
         let s2 := set s1 STB (N.lor (s1 STB) SRQ) in
         (s2, if negb (N.land ptrans val =? 0) then cb ++ [s2 STB] else cb)
       else (set s1 STB (N.ldiff (s1 STB) SRQ), cb)
   | C_EVEN =>
       let en := match g_enable gi with Some e => s1 e | None => 65535 end in
       let summary := negb (N.land val en =? 0) in
       match g_parent gi with None => (s1,cb) | Some p =>
         regset f s1 p (if summary then N.lor (s1 p) (g_bit gi) else N.ldiff (s1 p) (g_bit gi)) cb end
   | C_COND =>
       regset f s1 (g_event gi) (N.lor (N.land (N.lxor old val) val) (s1 (g_event gi))) cb
   | C_ENAB =>
       let summary := negb (N.land (s1 (g_event gi)) val =? 0) in
       match g_parent gi with None => (s1,cb) | Some p =>
         regset f s1 p (if summary then N.lor (s1 p) (g_bit gi) else N.ldiff (s1 p) (g_bit gi)) cb end
   end).
Proof. reflexivity. Qed.

Lemma regset_event f s e v cb : e = ESR \/ e = OPER \/ e = QUES -> fst (regset (S f) s e v cb) e = v.
Proof.
  intros He. rewrite regset_S.
  assert (Ed : exists gi, details e = (C_EVEN, gi) /\ g_parent gi = Some STB) by (destruct He as [->|[->| ->]]; eexists; split; reflexivity).
  destruct Ed as (gi & Ed & Ep). rewrite Ed. cbv zeta.
  destruct (N.eqb_spec (s e) v) as [E|NE]; [exact E|]. rewrite Ep.
  rewrite regset_frame; [apply set_same|].
  assert (e <> STB) by (destruct He as [->|[->| ->]]; discriminate). repeat split; try congruence; try (cbn; exact I).
Qed.

Theorem cond_latches s c v cb : c = OPERC \/ c = QUESC ->
  fst (RegSet s c v cb) (event_of c) = N.lor (N.land (N.lxor (s c) (u16 v)) (u16 v)) (s (event_of c)).
Proof.
  intros Hc. unfold RegSet. set (v' := u16 v). change 4%nat with (S 3). rewrite regset_S.
  assert (Ed : exists gi, details c = (C_COND, gi) /\ g_event gi = event_of c /\ (event_of c = OPER \/ event_of c = QUES) /\ event_of c <> c)
    by (destruct Hc as [->| ->]; eexists; repeat split; try reflexivity; try discriminate; auto).
  destruct Ed as (gi & Ed & Ee & Hev & Hne). rewrite Ed. cbv zeta.
  destruct (N.eqb_spec (s c) v') as [E|NE].
  - rewrite E, N.lxor_nilpotent. reflexivity.
  - rewrite Ee. rewrite (set_other s c (event_of c) v') by congruence.
    apply regset_event. destruct Hev as [->| ->]; auto.
Qed.
(* in particular: a bit that goes from 0 to 1 in the condition register is set in the event register afterwards, and no event bit is lost *)
Corollary cond_rise_sets_event s c v cb j : c = OPERC \/ c = QUESC ->
  N.testbit (s c) j = false -> N.testbit (u16 v) j = true -> N.testbit (fst (RegSet s c v cb) (event_of c)) j = true.
Proof. intros Hc H0 H1. rewrite cond_latches by exact Hc. rewrite N.lor_spec, N.land_spec, N.lxor_spec, H0, H1. reflexivity. Qed.
Corollary cond_keeps_events s c v cb j : c = OPERC \/ c = QUESC ->
  N.testbit (s (event_of c)) j = true -> N.testbit (fst (RegSet s c v cb) (event_of c)) j = true.
Proof. intros Hc H. rewrite cond_latches by exact Hc. rewrite N.lor_spec, H. apply orb_true_r. Qed.
Print Assumptions cond_latches.

(* ---------- stickiness ---------- *)
Definition subset (a b:N) : Prop := forall j, N.testbit a j = true -> N.testbit b j = true.
Definition is_event (e:reg) : Prop := e = ESR \/ e = OPER \/ e = QUES.

Lemma reg_eq_dec_cond (r e:reg) : ((r = OPERC \/ r = QUESC) /\ event_of r = e) \/ ~ ((r = OPERC \/ r = QUESC) /\ event_of r = e).
Proof. destruct r, e; try solve [left; split; [(left; reflexivity) || (right; reflexivity)|reflexivity]]; right; intros [[H|H] E]; try discriminate H; discriminate E. Qed.

(* a write to any register other than the event register itself keeps its bits (a condition write may add some) *)
Lemma regset_keeps s r v cb e : is_event e -> r <> e -> subset (s e) (fst (RegSet s r v cb) e).
Proof.
  intros He Hr j Hj.
  destruct (reg_eq_dec_cond r e) as [Hc|Hnc].
  - (* r is the condition register of e *)
    destruct Hc as [Hc Ee]. rewrite <- Ee. apply cond_keeps_events; [exact Hc|]. now rewrite Ee.
  - unfold RegSet. rewrite regset_frame; [exact Hj|].
    destruct He as [->|[->| ->]]; destruct r; try congruence; repeat split; try discriminate; try (cbn; exact I);
    try (cbn; discriminate); exfalso; apply Hnc; (split; [auto|reflexivity]).
Qed.

(* the registers are 16 bits wide in the implementation; stickiness is stated for those bits *)
Definition keeps16 (a b:N) : Prop := forall j, j < 16 -> N.testbit a j = true -> N.testbit b j = true.
Lemma keeps16_refl a : keeps16 a a. Proof. intros j _ H; exact H. Qed.
Lemma keeps16_trans a b c : keeps16 a b -> keeps16 b c -> keeps16 a c.
Proof. intros H1 H2 j Hj H. apply H2; [exact Hj|]. apply H1; assumption. Qed.
Lemma subset_keeps16 a b : subset a b -> keeps16 a b. Proof. intros H j _ Hj. apply H, Hj. Qed.

Lemma regsetbits_keeps s r b cb e : is_event e -> keeps16 (s e) (fst (RegSetBits s r b cb) e).
Proof.
  intros He. destruct (reg_eqb r e) eqn:Er.
  - assert (r = e) by (destruct r, e; try discriminate Er; reflexivity). subst r.
    unfold RegSetBits, RegSet. change 4%nat with (S 3). rewrite regset_event by exact He.
    intros j Hj H. rewrite u16_bits, N.lor_spec, H. apply N.ltb_lt in Hj. rewrite Hj. reflexivity.
  - apply subset_keeps16, regset_keeps; [exact He|]. intros ->. destruct e; discriminate Er.
Qed.
Lemma regclearbits_keeps s r b cb e : is_event e -> r <> e -> keeps16 (s e) (fst (RegClearBits s r b cb) e).
Proof. intros He Hr. apply subset_keeps16, regset_keeps; assumption. Qed.

Lemma fold_setbits_keeps e bits : is_event e -> forall r cb,
  keeps16 (r e) (fst (fold_left (fun '(r,cb) b => RegSetBits r ESR b cb) bits (r,cb)) e).
Proof.
  intros He. induction bits as [|b bits IH]; intros r cb; [apply keeps16_refl|].
  cbn [fold_left]. destruct (RegSetBits r ESR b cb) as [r1 cb1] eqn:E1.
  eapply keeps16_trans; [|apply IH]. change r1 with (fst (r1,cb1)). rewrite <- E1. now apply regsetbits_keeps.
Qed.

Lemma push_keeps s code e : is_event e -> keeps16 (rg s e) (rg (fst (push s code)) e).
Proof.
  intros He. unfold push.
  destruct (fold_left _ (class_bits code) (rg s, [])) as [r1 cb1] eqn:E1.
  assert (H1 : keeps16 (rg s e) (r1 e)) by (change r1 with (fst (r1,cb1)); rewrite <- E1; now apply fold_setbits_keeps).
  pose proof (regsetbits_keeps r1 STB QMA [] e He) as H2. destruct (RegSetBits r1 STB QMA []) as [r2 cb2]. cbn [fst] in H2.
  destruct (qlen s =? qcap s)%Z.
  - pose proof (regsetbits_keeps r2 STB QMA [] e He) as H3. destruct (RegSetBits r2 STB QMA []) as [r3 cb3]. cbn [fst rg] in *.
    eapply keeps16_trans; [exact H1|]. eapply keeps16_trans; [exact H2|exact H3].
  - cbn [fst rg]. eapply keeps16_trans; [exact H1|exact H2].
Qed.
Lemma emit_empty_keeps s e : is_event e -> keeps16 (rg s e) (rg (fst (emit_empty s)) e).
Proof.
  intros He. unfold emit_empty. destruct (_ && _); [|apply keeps16_refl].
  pose proof (regclearbits_keeps (rg s) STB QMA [] e He) as H. destruct (RegClearBits (rg s) STB QMA []) as [r1 cb].
  cbn [fst rg] in *. apply H. destruct He as [->|[->| ->]]; discriminate.
Qed.
Lemma pop_keeps s e : is_event e -> keeps16 (rg s e) (rg (fst (pop s)) e).
Proof. intros He. unfold pop. exact (emit_empty_keeps {| rg := rg s; qlen := _; qcap := _ |} e He). Qed.
Lemma clear_keeps s e : is_event e -> keeps16 (rg s e) (rg (fst (clear s)) e).
Proof. intros He. unfold clear. exact (emit_empty_keeps {| rg := rg s; qlen := _; qcap := _ |} e He). Qed.
Lemma wr_keeps s r v e : is_event e -> r <> e -> keeps16 (rg s e) (rg (fst (wr s r v)) e).
Proof.
  intros He Hr. unfold wr. pose proof (regset_keeps (rg s) r v [] e He Hr) as H.
  destruct (RegSet (rg s) r v []) as [r1 cb]. cbn [fst rg] in *. now apply subset_keeps16.
Qed.

(* an operation that may take bits out of event register e: a write to e itself (its query, which reads and then writes 0,
   is one; so are STATus:PRESet for QUES and any user write) and *CLS *)
Definition clears (e:reg) (o:oper) : Prop := match o with OWr r _ => r = e | OCls => True | _ => False end.

Theorem event_bits_sticky e : is_event e -> forall ops s, Forall (fun o => ~ clears e o) ops ->
  keeps16 (rg s e) (rg (fold_left step ops s) e).
Proof.
  intros He ops. induction ops as [|o os IH]; intros s Hf; [apply keeps16_refl|].
  inversion Hf as [|o' os' Ho Hos]; subst. cbn [fold_left]. eapply keeps16_trans; [|apply IH; exact Hos].
  destruct o as [r v|c| | |]; cbn [step].
  - apply wr_keeps; [exact He|]. intros E. apply Ho. exact E.
  - now apply push_keeps.
  - now apply pop_keeps.
  - now apply clear_keeps.
  - exfalso. apply Ho. exact I.
Qed.
Print Assumptions event_bits_sticky.

(* non-vacuity: a condition bit raised, then a burst of other traffic, is still in the event register *)
Example sticky_somewhere :
  let s := fold_left step [OWr OPERC 4; OWr OPERC 0; OPush (-113); OPop; OWr OPERE 255; OWr QUESC 1; OClear] (init 4) in
  N.testbit (rg s OPER) 2 = true /\ N.testbit (rg s QUES) 0 = true /\ N.testbit (rg s ESR) 5 = true.
Proof. vm_compute. repeat split. Qed.
