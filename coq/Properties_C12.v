(* C12 -- property theorems only: every statement is closed by `exact` on a lemma proved elsewhere.
   Statements are pinned by coq/statements/C12.json; ./check compares. *)
From Coq Require Import Bool List NArith ZArith Lia.
From M Require C12Proofs.
From M Require Tie.
From M Require C12Latch.
From M Require CmdLayer.
From M Require CmdSticky.
From M Require C12Latch.
From M Require CmdLayer.
From M Require CmdModel.
From M Require RegModel.
From M Require RegProofs.
From M Require StbUser.
Import ListNotations.

Module T_classify. Import C12Proofs. Local Open Scope bool_scope. Local Open Scope Z_scope.
Import RegModel RegProofs. Local Open Scope Z_scope. Local Open Scope N_scope.
Local Open Scope Z_scope.
Theorem C12_classify :
  forall c,
  -32768 <= c <= 32767 -> class_bits c = spec_class c.
Proof. exact (@C12Proofs.classify). Qed.
End T_classify.
Definition C12_classify := @T_classify.C12_classify.

Module T_srq_step. Import C12Proofs. Local Open Scope bool_scope. Local Open Scope Z_scope.
Import RegModel RegProofs. Local Open Scope Z_scope. Local Open Scope N_scope.
Theorem C12_srq_step :
  forall s (name:reg) v cb,
  (name = STB \/ name = SRE) -> s name <> v ->
  let r := regset 1 s name v cb in
  let s' := fst r in
  (snd r = cb \/ (snd r = cb ++ [s' STB] /\ N.testbit (s' STB) 6 = true)) /\
  (mss (s STB) (s SRE) = false -> mss (s' STB) (s' SRE) = true -> snd r = cb ++ [s' STB]).
Proof. exact (@C12Proofs.srq_step). Qed.
End T_srq_step.
Definition C12_srq_step := @T_srq_step.C12_srq_step.

Module T_tie_err_classes. Import Tie. Local Open Scope bool_scope. Local Open Scope Z_scope.
Local Open Scope Z_scope.
Theorem C12_tie_err_classes :
  RegModel.errs = Generated.gen_err_classes.
Proof. exact (@Tie.tie_err_classes). Qed.
End T_tie_err_classes.
Definition C12_tie_err_classes := @T_tie_err_classes.C12_tie_err_classes.

Module T_tie_reg_tables. Import Tie. Local Open Scope bool_scope. Local Open Scope Z_scope.
Local Open Scope Z_scope.
Theorem C12_tie_reg_tables :
  Generated.gen_reg_count = Z.of_nat (length regs_in_order) /\
  map (fun i => details_from_tables i) (seq 0 (length regs_in_order)) = map (fun r => Some (RegModel.details r)) regs_in_order.
Proof. exact (@Tie.tie_reg_tables). Qed.
End T_tie_reg_tables.
Definition C12_tie_reg_tables := @T_tie_reg_tables.C12_tie_reg_tables.

Module T_tie_stb_bits. Import Tie. Local Open Scope bool_scope. Local Open Scope Z_scope.
Local Open Scope Z_scope.
Theorem C12_tie_stb_bits :
  Generated.gen_stb_bits = [RegModel.SRQ; RegModel.QMA; 32; 128; 8]%N /\ Generated.gen_reg_val_bits = 16.
Proof. exact (@Tie.tie_stb_bits). Qed.
End T_tie_stb_bits.
Definition C12_tie_stb_bits := @T_tie_stb_bits.C12_tie_stb_bits.

Module T_cond_latches. Import C12Latch. Local Open Scope bool_scope. Local Open Scope Z_scope.
Import RegModel RegProofs. Local Open Scope N_scope.
Theorem C12_cond_latches :
  forall s c v cb,
  c = OPERC \/ c = QUESC ->
  fst (RegSet s c v cb) (event_of c) = N.lor (N.land (N.lxor (s c) (u16 v)) (u16 v)) (s (event_of c)).
Proof. exact (@C12Latch.cond_latches). Qed.
End T_cond_latches.
Definition C12_cond_latches := @T_cond_latches.C12_cond_latches.

Module T_cond_rise_sets_event. Import C12Latch. Local Open Scope bool_scope. Local Open Scope Z_scope.
Import RegModel RegProofs. Local Open Scope N_scope.
Theorem C12_cond_rise_sets_event :
  forall s c v cb j,
  c = OPERC \/ c = QUESC ->
  N.testbit (s c) j = false -> N.testbit (u16 v) j = true -> N.testbit (fst (RegSet s c v cb) (event_of c)) j = true.
Proof. exact (@C12Latch.cond_rise_sets_event). Qed.
End T_cond_rise_sets_event.
Definition C12_cond_rise_sets_event := @T_cond_rise_sets_event.C12_cond_rise_sets_event.

Module T_cond_keeps_events. Import C12Latch. Local Open Scope bool_scope. Local Open Scope Z_scope.
Import RegModel RegProofs. Local Open Scope N_scope.
Theorem C12_cond_keeps_events :
  forall s c v cb j,
  c = OPERC \/ c = QUESC ->
  N.testbit (s (event_of c)) j = true -> N.testbit (fst (RegSet s c v cb) (event_of c)) j = true.
Proof. exact (@C12Latch.cond_keeps_events). Qed.
End T_cond_keeps_events.
Definition C12_cond_keeps_events := @T_cond_keeps_events.C12_cond_keeps_events.

Module T_event_bits_sticky. Import C12Latch. Local Open Scope bool_scope. Local Open Scope Z_scope.
Import RegModel RegProofs. Local Open Scope N_scope.
Theorem C12_event_bits_sticky :
  forall e,
  is_event e -> forall ops s, Forall (fun o => ~ clears e o) ops ->
  keeps16 (rg s e) (rg (fold_left step ops s) e).
Proof. exact (@C12Latch.event_bits_sticky). Qed.
End T_event_bits_sticky.
Definition C12_event_bits_sticky := @T_event_bits_sticky.C12_event_bits_sticky.

Module T_event_query_clears. Import CmdLayer. Local Open Scope bool_scope. Local Open Scope Z_scope.
Import RegModel RegProofs C12Latch CmdModel. Local Open Scope N_scope.
Theorem C12_event_query_clears :
  forall s c e k,
  event_cmd c e k -> Inv s ->
  let '(s', r) := run_cmd s c in
  r = Some (rg s e) /\ rg s' e = 0 /\ N.testbit (rg s' STB) k = false /\ Inv s'.
Proof. exact (@CmdLayer.event_query_clears). Qed.
End T_event_query_clears.
Definition C12_event_query_clears := @T_event_query_clears.C12_event_query_clears.

Module T_cls_clears. Import CmdLayer. Local Open Scope bool_scope. Local Open Scope Z_scope.
Import RegModel RegProofs C12Latch CmdModel. Local Open Scope N_scope.
Theorem C12_cls_clears :
  forall s,
  Inv s ->
  let s' := fst (run_cmd s KCls) in
  rg s' ESR = 0 /\ rg s' OPER = 0 /\ rg s' QUES = 0 /\ qlen s' = 0%Z /\
  N.testbit (rg s' STB) 5 = false /\ N.testbit (rg s' STB) 7 = false /\ N.testbit (rg s' STB) 3 = false /\ N.testbit (rg s' STB) 2 = false /\
  Inv s'.
Proof. exact (@CmdLayer.cls_clears). Qed.
End T_cls_clears.
Definition C12_cls_clears := @T_cls_clears.C12_cls_clears.

Module T_event_bits_sticky_cmds. Import CmdSticky. Local Open Scope bool_scope. Local Open Scope Z_scope.
Import RegModel RegProofs C12Latch CmdModel CmdLayer StbUser. Local Open Scope N_scope.
Theorem C12_event_bits_sticky_cmds :
  forall e,
  is_event e -> forall xs s, Forall (fun x => ~ xclears e x) xs ->
  keeps16 (rg s e) (rg (fold_left xstep xs s) e).
Proof. exact (@CmdSticky.event_bits_sticky_cmds). Qed.
End T_event_bits_sticky_cmds.
Definition C12_event_bits_sticky_cmds := @T_event_bits_sticky_cmds.C12_event_bits_sticky_cmds.

Module T_sticky_under_commands. Import CmdSticky. Local Open Scope bool_scope. Local Open Scope Z_scope.
Import RegModel RegProofs C12Latch CmdModel CmdLayer StbUser. Local Open Scope N_scope.
Theorem C12_sticky_under_commands :
  let s := fold_left xstep [XA (AOp (OPush (-222)%Z)); XA (ACmd KOpc); XA (ACmd (KEse 255)); XA (ACmd KStbQ); XA (ACmd KOperEvQ); XA (ACmd KPreset);
                            XA (ACmd KErrNextQ); XStb true 16; XA (ACmd KEseQ)] (init 4) in
  rg s ESR = 17 /\ Forall (fun x => ~ xclears ESR x) [XA (ACmd KOpc); XA (ACmd KOperEvQ); XA (ACmd KPreset); XStb true 16].
Proof. exact (@CmdSticky.sticky_under_commands). Qed.
End T_sticky_under_commands.
Definition C12_sticky_under_commands := @T_sticky_under_commands.C12_sticky_under_commands.

