(* C12 -- property theorems only: every statement is closed by `exact` on a lemma proved elsewhere.
   Statements are pinned by coq/statements/C12.json; ./check compares. *)
From Coq Require Import Bool List NArith ZArith Lia.
From M Require C12Proofs.
From M Require RegModel.
From M Require RegProofs.
Import ListNotations.

Module T_classify. Import C12Proofs. Import RegModel RegProofs. Local Open Scope Z_scope.
Theorem C12_classify :
  forall c, -32768 <= c <= 32767 -> class_bits c = spec_class c.
Proof. exact (@C12Proofs.classify). Qed.
End T_classify.
Definition C12_classify := @T_classify.C12_classify.

Module T_srq_step. Import C12Proofs. Local Open Scope bool_scope. Local Open Scope Z_scope.
Import RegModel RegProofs. Local Open Scope Z_scope. Local Open Scope N_scope.
Theorem C12_srq_step :
  forall s (name:reg) v cb,
  (name = STB \/ name = SRE) -> s name <> v ->
  let r := regset 1 s name v cb in
  let s' := fst r in
  (snd r = cb \/ (snd r = cb ++ [s' STB] /\ N.testbit (s' STB) 6 = true)) /\
  (mss (s STB) (s SRE) = false -> mss (s' STB) (s' SRE) = true -> snd r = cb ++ [s' STB]).
Proof. exact (@C12Proofs.srq_step). Qed.
End T_srq_step.
Definition C12_srq_step := @T_srq_step.C12_srq_step.

