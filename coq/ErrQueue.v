(* C10: the error queue (malloc configuration) is a bounded FIFO that marks overflow and owns its texts *)
From Coq Require Import Bool List ZArith Lia Permutation.
From M Require Import FifoProof.
Import ListNotations.
Local Open Scope Z_scope.

Record entry := { ecode : Z; einfo : option nat }.       (* info = allocation id *)
Definition e0 : entry := {| ecode := 0; einfo := None |}.
Record equeue := { q : fifo entry; live : list nat; next : nat; store : nat -> list Z }.

(* free(p): removing an id that is not live is a double free / invalid free *)
Definition release (s:equeue) (p:option nat) : equeue * bool :=
  match p with
  | None => (s, true)
  | Some i => if in_dec Nat.eq_dec i (live s) then ({| q := q s; live := remove Nat.eq_dec i (live s); next := next s; store := store s |}, true) else (s, false)
  end.
(* strndup with an allocation-failure oracle *)
Definition alloc (s:equeue) (info:option (list Z)) (ok:bool) : equeue * option nat :=
  match info with
  | Some t => if ok then ({| q := q s; live := next s :: live s; next := S (next s);
                             store := fun i => if Nat.eqb i (next s) then t else store s i |}, Some (next s))
              else (s, None)
  | None => (s, None)
  end.
Definition setq (s:equeue) (f:fifo entry) : equeue := {| q := f; live := live s; next := next s; store := store s |}.

(* SCPI_ErrorAddInternal: returns (state, pushed without overflow?, every free was legal?) *)
Definition push (s:equeue) (code:Z) (info:option (list Z)) (aok:bool) : equeue * bool * bool :=
  let '(s1, p) := alloc s info aok in
  let v := {| ecode := code; einfo := p |} in
  let '(added, f1) := fifo_add entry (q s1) v in
  if added then (setq s1 f1, true, true)
  else
    let '(s2, ok1) := release s1 p in
    let '(last, f2) := fifo_remove_last entry e0 (q s2) in
    let '(s3, ok2) := release (setq s2 f2) (match last with Some e => einfo e | None => None end) in
    let '(_, f3) := fifo_add entry (q s3) {| ecode := -350; einfo := None |} in
    (setq s3 f3, false, ok1 && ok2).
(* SYST:ERR?: pop, report code and text, release the text *)
Definition pop (s:equeue) : equeue * (Z * option (list Z)) * bool :=
  let '(e, f1) := fifo_remove entry e0 (q s) in
  match e with
  | Some e => let '(s1, ok) := release (setq s f1) (einfo e) in (s1, (ecode e, option_map (store s) (einfo e)), ok)
  | None => (s, (0, None), true)
  end.

(* ---------- specification: a list of capacity N ---------- *)
Definition spec := list (Z * option (list Z)).
Definition spec_push (N:Z) (l:spec) (code:Z) (text:option (list Z)) : spec :=
  if Z.of_nat (length l) <? N then l ++ [(code, text)] else removelast l ++ [(-350, None)].
Definition spec_pop (l:spec) : spec * (Z * option (list Z)) := match l with [] => ([], (0, None)) | x::r => (r, x) end.

Definition absq (s:equeue) : spec := map (fun e => (ecode e, option_map (store s) (einfo e))) (abs entry e0 (q s)).
Definition ids (s:equeue) : list nat := flat_map (fun e => match einfo e with Some i => [i] | None => [] end) (abs entry e0 (q s)).

Record QInv (s:equeue) : Prop := {
  qi_fifo : Inv entry (q s);
  qi_own : Permutation (ids s) (live s);       (* no leak, nothing foreign *)
  qi_nodup : NoDup (live s);                   (* no text owned twice *)
  qi_fresh : forall i, In i (live s) -> (i < next s)%nat }.

(* ---------- auxiliary facts ---------- *)
Lemma remove_not_in (i:nat) l : ~ In i l -> remove Nat.eq_dec i l = l.
Proof. induction l as [|x l IH]; intro H; [reflexivity|]. cbn. destruct (Nat.eq_dec i x) as [->|]; [exfalso; apply H; now left|]. f_equal. apply IH. intro; apply H; now right. Qed.
Lemma remove_head_nodup (i:nat) l : NoDup (i :: l) -> remove Nat.eq_dec i (i :: l) = l.
Proof. intros H. inversion H; subst. cbn. destruct (Nat.eq_dec i i); [|congruence]. now apply remove_not_in. Qed.
Lemma perm_remove (i:nat) l l' : Permutation l l' -> NoDup l' -> Permutation (remove Nat.eq_dec i l) (remove Nat.eq_dec i l').
Proof. intros H _. induction H; cbn; auto.
  - destruct (Nat.eq_dec i x); auto.
  - destruct (Nat.eq_dec i y), (Nat.eq_dec i x); auto. apply perm_swap.
  - eapply Permutation_trans; eauto. Qed.
Lemma nodup_remove (i:nat) l : NoDup l -> NoDup (remove Nat.eq_dec i l).
Proof. induction 1 as [|x l Hx Hl IH]; cbn; [constructor|]. destruct (Nat.eq_dec i x); [exact IH|]. constructor; [|exact IH].
  intro Hin. apply in_remove in Hin. tauto. Qed.
Definition idof (e:entry) : list nat := match einfo e with Some i => [i] | None => [] end.
Lemma ids_app l1 l2 : flat_map idof (l1 ++ l2) = flat_map idof l1 ++ flat_map idof l2.
Proof. apply flat_map_app. Qed.
(* texts of entries whose ids are below a bound do not depend on what is stored at or above it *)
Lemma map_store_ext (st st':nat -> list Z) l bound :
  (forall i, (i < bound)%nat -> st' i = st i) -> (forall i, In i (flat_map idof l) -> (i < bound)%nat) ->
  map (fun e => (ecode e, option_map st' (einfo e))) l = map (fun e => (ecode e, option_map st (einfo e))) l.
Proof. intros Hs Hb. apply map_ext_in. intros e He. f_equal. destruct (einfo e) as [i|] eqn:E; [|reflexivity]. cbn. f_equal. apply Hs, Hb.
  apply in_flat_map. exists e. split; [exact He|]. unfold idof. rewrite E. now left. Qed.

Lemma fifo_add_full f (v:entry) : fcount entry f = fsize entry f -> fifo_add entry f v = (false, f).
Proof. intros H. unfold fifo_add. now rewrite H, Z.eqb_refl. Qed.


Lemma abs_length f : length (abs entry e0 f) = Z.to_nat (fcount entry f).
Proof. unfold abs. now rewrite map_length, seq_length. Qed.
Lemma absq_length s : length (absq s) = Z.to_nat (fcount entry (q s)).
Proof. unfold absq. now rewrite map_length, abs_length. Qed.
Lemma remove_last_fields f : fcount entry f <> 0 ->
  fsize entry (snd (fifo_remove_last entry e0 f)) = fsize entry f /\ fcount entry (snd (fifo_remove_last entry e0 f)) = fcount entry f - 1.
Proof. intro H. unfold fifo_remove_last. destruct (Z.eqb_spec (fcount entry f) 0); [contradiction|]. now cbn. Qed.
Lemma remove_fields f : fcount entry f <> 0 ->
  fsize entry (snd (fifo_remove entry e0 f)) = fsize entry f /\ fcount entry (snd (fifo_remove entry e0 f)) = fcount entry f - 1.
Proof. intro H. unfold fifo_remove. destruct (Z.eqb_spec (fcount entry f) 0); [contradiction|]. now cbn. Qed.
Lemma add_fields f v : fcount entry f <> fsize entry f -> fsize entry (snd (fifo_add entry f v)) = fsize entry f.
Proof. intro H. unfold fifo_add. destruct (Z.eqb_spec (fcount entry f) (fsize entry f)); [contradiction|]. now cbn. Qed.
Lemma removelast_app1 {A} (l:list A) x : removelast (l ++ [x]) = l.
Proof. apply removelast_last. Qed.

(* releasing the text of an entry that leaves the queue *)
Lemma release_owned s (f2:fifo entry) e l2 :
  Permutation (flat_map idof l2 ++ idof e) (live s) -> NoDup (live s) ->
  exists s3, release (setq s f2) (einfo e) = (s3, true) /\ q s3 = f2 /\ next s3 = next s /\ store s3 = store s /\
             Permutation (flat_map idof l2) (live s3) /\ NoDup (live s3) /\ (forall i, In i (live s3) -> In i (live s)).
Proof.
  intros Hp Hnd. unfold release. unfold idof at 2 in Hp. destruct (einfo e) as [i|].
  - cbn [live setq]. destruct (in_dec Nat.eq_dec i (live s)) as [Hin|Hnin].
    + eexists; split; [reflexivity|]. cbn. repeat split; auto.
      * assert (Hp' : Permutation (i :: flat_map idof l2) (live s)).
        { eapply Permutation_trans; [|exact Hp]. apply Permutation_cons_append. }
        assert (Hnd' : NoDup (i :: flat_map idof l2)) by (eapply Permutation_NoDup; [apply Permutation_sym; exact Hp'|exact Hnd]).
        rewrite <- (remove_head_nodup i (flat_map idof l2) Hnd'). apply perm_remove; assumption.
      * now apply nodup_remove.
      * intros j Hj. apply in_remove in Hj. tauto.
    + exfalso. apply Hnin. eapply Permutation_in; [exact Hp|]. apply in_or_app. right. now left.
  - eexists; split; [reflexivity|]. cbn. rewrite app_nil_r in Hp. repeat split; auto.
Qed.

(* the overflow path after the new text has been given back *)
Lemma overflow_tail s : QInv s -> fcount entry (q s) = fsize entry (q s) ->
  exists last f2 s3 f3,
    fifo_remove_last entry e0 (q s) = (last, f2) /\
    release (setq s f2) (match last with Some e => einfo e | None => None end) = (s3, true) /\
    fifo_add entry (q s3) {| ecode := -350; einfo := None |} = (true, f3) /\
    QInv (setq s3 f3) /\ fsize entry f3 = fsize entry (q s) /\
    absq (setq s3 f3) = removelast (absq s) ++ [(-350, None)].
Proof.
  intros [Hf Hown Hnd Hfr] Hfull.
  assert (Hpos : 0 < fcount entry (q s)) by (destruct Hf as (? & _); lia).
  destruct (remove_last_spec entry e0 (q s) Hf Hpos) as (e & He & Hinv2 & Habs).
  destruct (remove_last_fields (q s)) as [Hsz2 Hc2]; [lia|].
  destruct (fifo_remove_last entry e0 (q s)) as [last f2] eqn:Erl. cbn [fst snd] in *. subst last.
  unfold ids in Hown. fold idof in Hown. rewrite Habs, ids_app in Hown. cbn [flat_map] in Hown. rewrite app_nil_r in Hown.
  destruct (release_owned s f2 e (abs entry e0 f2) Hown Hnd) as (s3 & Hrel & Hq3 & Hn3 & Hst3 & Hp3 & Hnd3 & Hsub3).
  assert (Hlt : fcount entry f2 < fsize entry f2) by lia.
  destruct (add_spec entry e0 f2 {| ecode := -350; einfo := None |} Hinv2 Hlt) as (Hadd & Hinv3 & Habs3).
  pose proof (add_fields f2 {| ecode := -350; einfo := None |} ltac:(lia)) as Hsz3.
  destruct (fifo_add entry f2 {| ecode := -350; einfo := None |}) as [added f3] eqn:Ea. cbn [fst snd] in *. subst added.
  exists (Some e), f2, s3, f3. split; [reflexivity|]. split; [exact Hrel|]. rewrite Hq3. split; [exact Ea|]. split; [|split].
  - constructor; cbn [q live next setq].
    + exact Hinv3.
    + unfold ids. fold idof. cbn [q setq]. rewrite Habs3, ids_app. cbn. rewrite app_nil_r. exact Hp3.
    + exact Hnd3.
    + intros i Hi. rewrite Hn3. apply Hfr, Hsub3, Hi.
  - lia.
  - unfold absq. cbn [q store setq]. rewrite Habs3, Habs, Hst3, !map_app. cbn [map]. now rewrite removelast_app1.
Qed.

(* the normal path: the new entry joins the tail *)
Lemma add_tail s1 v : Inv entry (q s1) -> fcount entry (q s1) < fsize entry (q s1) ->
  Permutation (ids s1 ++ idof v) (live s1) -> NoDup (live s1) -> (forall i, In i (live s1) -> (i < next s1)%nat) ->
  exists f1, fifo_add entry (q s1) v = (true, f1) /\ QInv (setq s1 f1) /\ fsize entry f1 = fsize entry (q s1) /\
             absq (setq s1 f1) = absq s1 ++ [(ecode v, option_map (store s1) (einfo v))].
Proof.
  intros Hinv Hlt Hp Hnd Hfr.
  destruct (add_spec entry e0 (q s1) v Hinv Hlt) as (Hadd & Hinv1 & Habs1).
  pose proof (add_fields (q s1) v ltac:(lia)) as Hsz.
  destruct (fifo_add entry (q s1) v) as [added f1]. cbn [fst snd] in *. subst added.
  exists f1. split; [reflexivity|]. split; [|split; [exact Hsz|]].
  - constructor; cbn [q live next setq]; auto.
    unfold ids. fold idof. cbn [q setq]. rewrite Habs1, ids_app. cbn [flat_map]. rewrite app_nil_r. exact Hp.
  - unfold absq. cbn [q store setq]. rewrite Habs1, map_app. reflexivity.
Qed.

(* ---------- push ---------- *)
Definition kept_text (info:option (list Z)) (aok:bool) : option (list Z) :=
  match info with Some t => if aok then Some t else None | None => None end.

Theorem push_refines s code info aok : QInv s ->
  let '(s', _, legal) := push s code info aok in
  QInv s' /\ legal = true /\ fsize entry (q s') = fsize entry (q s) /\
  absq s' = spec_push (fsize entry (q s)) (absq s) code (kept_text info aok).
Proof.
  intros HQ. pose proof HQ as [Hf Hown Hnd Hfr]. unfold push.
  assert (Hidlt : forall i, In i (flat_map idof (abs entry e0 (q s))) -> (i < next s)%nat).
  { intros i Hi. apply Hfr. eapply Permutation_in; [exact Hown|exact Hi]. }
  pose proof Hf as (Hs0 & Hl0 & Hr0 & Hc0 & Hw0).
  unfold spec_push. rewrite absq_length, Z2Nat.id by lia.
  destruct (kept_text info aok) as [t|] eqn:Ek.
  - (* a text was duplicated *)
    assert (info = Some t /\ aok = true) as [-> ->] by (unfold kept_text in Ek; destruct info; [destruct aok|]; now inversion Ek).
    cbn [alloc].
    set (s1 := {| q := q s; live := next s :: live s; next := S (next s); store := fun i => if Nat.eqb i (next s) then t else store s i |}).
    assert (Hfresh : ~ In (next s) (live s)) by (intro Hin; apply Hfr in Hin; lia).
    assert (Habsq1 : absq s1 = absq s).
    { unfold absq. cbn [q store s1]. apply map_store_ext with (bound := next s); [|exact Hidlt].
      intros i Hi. destruct (Nat.eqb_spec i (next s)); [lia|reflexivity]. }
    destruct (Z.ltb_spec (fcount entry (q s)) (fsize entry (q s))) as [Hlt|Hge].
    + destruct (add_tail s1 {| ecode := code; einfo := Some (next s) |}) as (f1 & Ea & HQ1 & Hsz & Habs); cbn [q live next s1]; auto.
      * unfold idof. cbn [einfo]. eapply Permutation_trans; [apply Permutation_sym, Permutation_cons_append|]. now apply perm_skip.
      * now constructor.
      * intros i [<-|Hi]; [lia|]. apply Hfr in Hi. lia.
      * cbn [q s1] in Ea. rewrite Ea. split; [exact HQ1|]. split; [reflexivity|]. split; [exact Hsz|].
        rewrite Habs, Habsq1. cbn [ecode einfo option_map store s1]. now rewrite Nat.eqb_refl.
    + assert (Hfull : fcount entry (q s) = fsize entry (q s)) by lia.
      cbn [q s1]. rewrite fifo_add_full by exact Hfull.
      unfold release at 1. cbn [live s1]. destruct (in_dec Nat.eq_dec (next s) (next s :: live s)) as [_|Hn]; [|exfalso; apply Hn; now left].
      rewrite remove_head_nodup by now constructor.
      set (s2 := {| q := q s; live := live s; next := S (next s); store := fun i => if Nat.eqb i (next s) then t else store s i |}).
      change {| q := q s1; live := live s; next := next s1; store := store s1 |} with s2.
      assert (HQ2 : QInv s2).
      { constructor; cbn [q live next s2]; auto. intros i Hi. apply Hfr in Hi. lia. }
      destruct (overflow_tail s2 HQ2 Hfull) as (last & f2 & s3 & f3 & E1 & E2 & E3 & HQ3 & Hsz3 & Habs3).
      rewrite E1, E2, E3. split; [exact HQ3|]. split; [reflexivity|]. split; [exact Hsz3|].
      rewrite Habs3. now fold s1 in Habsq1; change (absq s2) with (absq s1); rewrite Habsq1.
  - (* no text, or its duplication failed: the error is queued without text *)
    assert (Ea : alloc s info aok = (s, None)) by (unfold kept_text in Ek; unfold alloc; destruct info; [destruct aok|]; now inversion Ek).
    rewrite Ea.
    destruct (Z.ltb_spec (fcount entry (q s)) (fsize entry (q s))) as [Hlt|Hge].
    + destruct (add_tail s {| ecode := code; einfo := None |}) as (f1 & Eadd & HQ1 & Hsz & Habs); auto.
      * unfold idof. cbn. now rewrite app_nil_r.
      * rewrite Eadd. split; [exact HQ1|]. split; [reflexivity|]. split; [exact Hsz|]. exact Habs.
    + assert (Hfull : fcount entry (q s) = fsize entry (q s)) by lia.
      rewrite fifo_add_full by exact Hfull. cbn [release].
      destruct (overflow_tail s HQ Hfull) as (last & f2 & s3 & f3 & E1 & E2 & E3 & HQ3 & Hsz3 & Habs3).
      rewrite E1, E2, E3. split; [exact HQ3|]. split; [reflexivity|]. split; [exact Hsz3|]. exact Habs3.
Qed.

(* ---------- pop ---------- *)
Theorem pop_refines s : QInv s ->
  let '(s', out, legal) := pop s in
  QInv s' /\ legal = true /\ fsize entry (q s') = fsize entry (q s) /\ (absq s', out) = spec_pop (absq s).
Proof.
  intros HQ. pose proof HQ as [Hf Hown Hnd Hfr]. unfold pop.
  pose proof Hf as (Hs0 & Hl0 & Hr0 & Hc0 & Hw0).
  destruct (Z.eq_dec (fcount entry (q s)) 0) as [Hz|Hnz].
  - unfold fifo_remove. rewrite Hz. cbn [Z.eqb]. split; [exact HQ|]. split; [reflexivity|]. split; [reflexivity|].
    assert (absq s = []) as -> by (apply length_zero_iff_nil; rewrite absq_length, Hz; reflexivity). reflexivity.
  - destruct (remove_spec entry e0 (q s) Hf ltac:(lia)) as (e & He & Hinv1 & Habs).
    destruct (remove_fields (q s) Hnz) as [Hsz1 Hc1].
    destruct (fifo_remove entry e0 (q s)) as [r f1]. cbn [fst snd] in *. subst r.
    assert (Hown' : Permutation (flat_map idof (abs entry e0 f1) ++ idof e) (live s)).
    { unfold ids in Hown. fold idof in Hown. rewrite Habs in Hown. cbn [flat_map] in Hown.
      eapply Permutation_trans; [apply Permutation_app_comm|exact Hown]. }
    destruct (release_owned s f1 e (abs entry e0 f1) Hown' Hnd) as (s3 & Hrel & Hq3 & Hn3 & Hst3 & Hp3 & Hnd3 & Hsub3).
    rewrite Hrel. split; [|split; [reflexivity|split]].
    + constructor.
      * now rewrite Hq3.
      * unfold ids. fold idof. now rewrite Hq3.
      * exact Hnd3.
      * intros i Hi. rewrite Hn3. apply Hfr, Hsub3, Hi.
    + now rewrite Hq3.
    + unfold absq. rewrite Hq3, Hst3, Habs. reflexivity.
Qed.

(* ---------- every reachable state ---------- *)
Inductive qop := OpPush (code:Z) (info:option (list Z)) (aok:bool) | OpPop.
Definition qstep (s:equeue) (o:qop) : equeue * bool :=
  match o with
  | OpPush c i a => let '(s', _, ok) := push s c i a in (s', ok)
  | OpPop => let '(s', _, ok) := pop s in (s', ok)
  end.
Definition spec_step (N:Z) (l:spec) (o:qop) : spec :=
  match o with OpPush c i a => spec_push N l c (kept_text i a) | OpPop => fst (spec_pop l) end.
Fixpoint qrun (s:equeue) (ops:list qop) : equeue * bool :=
  match ops with [] => (s, true) | o::r => let '(s1, ok1) := qstep s o in let '(s2, ok2) := qrun s1 r in (s2, ok1 && ok2) end.

Theorem qrun_refines ops : forall s, QInv s ->
  let '(s', legal) := qrun s ops in
  QInv s' /\ legal = true /\ absq s' = fold_left (spec_step (fsize entry (q s))) ops (absq s).
Proof.
  induction ops as [|o ops IH]; intros s HQ; cbn [qrun fold_left]; [auto|].
  assert (Hstep : let '(s1, ok1) := qstep s o in QInv s1 /\ ok1 = true /\ fsize entry (q s1) = fsize entry (q s) /\ absq s1 = spec_step (fsize entry (q s)) (absq s) o).
  { destruct o as [c i a|]; cbn [qstep spec_step].
    - pose proof (push_refines s c i a HQ) as H. destruct (push s c i a) as [[s1 r] ok]. exact H.
    - pose proof (pop_refines s HQ) as H. destruct (pop s) as [[s1 out] ok]. destruct H as (H1 & H2 & H3 & H4).
      split; [exact H1|]. split; [exact H2|]. split; [exact H3|]. now rewrite <- H4. }
  destruct (qstep s o) as [s1 ok1]. destruct Hstep as (HQ1 & -> & Hsz & Habs).
  specialize (IH s1 HQ1). destruct (qrun s1 ops) as [s2 ok2]. destruct IH as (HQ2 & -> & Habs2).
  split; [exact HQ2|]. split; [reflexivity|]. now rewrite Habs2, Hsz, Habs.
Qed.

(* the spec itself is bounded and only ever marks overflow in its last cell *)
Lemma spec_push_bounded N l c t : 0 < N -> Z.of_nat (length l) <= N -> Z.of_nat (length (spec_push N l c t)) <= N.
Proof.
  intros HN Hl. unfold spec_push. destruct (Z.ltb_spec (Z.of_nat (length l)) N).
  - rewrite app_length. cbn [length]. lia.
  - rewrite app_length. cbn [length]. destruct l as [|x l]; [cbn in *; lia|].
    assert (Hrl : S (length (removelast (x :: l))) = length (x :: l)).
    { rewrite (app_removelast_last x (l:=x :: l)) at 2 by discriminate. rewrite app_length. cbn [length]. lia. }
    cbn [length] in *. lia.
Qed.

(* non-vacuity: the empty queue of capacity 4 satisfies the invariant *)
Definition empty4 : equeue := {| q := {| fdata := [e0;e0;e0;e0]; fwr := 0; frd := 0; fcount := 0; fsize := 4 |}; live := []; next := O; store := fun _ => [] |}.
Example empty4_inv : QInv empty4.
Proof. constructor; cbn; [unfold Inv; cbn; lia | constructor | constructor | tauto]. Qed.
Example overflow_example :
  absq (fst (qrun empty4 [OpPush (-100) None true; OpPush (-101) (Some [65]) true; OpPush (-102) None true; OpPush (-103) (Some [66]) true; OpPush (-104) (Some [67]) true; OpPop]))
  = [(-101, Some [65]); (-102, None); (-350, None)].
Proof. vm_compute. reflexivity. Qed.

Print Assumptions qrun_refines.
Print Assumptions push_refines.
Print Assumptions pop_refines.

(* ---------- clear: SCPI_ErrorClear pops everything and releases every text ---------- *)
Fixpoint clear_loop (fuel:nat) (s:equeue) : equeue * bool :=
  match fuel with O => (s, true) | S n =>
    if fcount entry (q s) =? 0 then (s, true)
    else let '(s1, _, ok1) := pop s in let '(s2, ok2) := clear_loop n s1 in (s2, ok1 && ok2)
  end.
Definition clear (s:equeue) : equeue * bool := clear_loop (S (Z.to_nat (fsize entry (q s)))) s.

Lemma clear_loop_spec : forall fuel s, QInv s -> (Z.to_nat (fcount entry (q s)) < fuel)%nat ->
  let '(s', legal) := clear_loop fuel s in QInv s' /\ legal = true /\ absq s' = [] /\ live s' = [] /\ fsize entry (q s') = fsize entry (q s).
Proof.
  induction fuel as [|f IH]; intros s HQ Hf; [lia|]. cbn [clear_loop].
  destruct (Z.eqb_spec (fcount entry (q s)) 0) as [Hz|Hnz].
  - split; [exact HQ|]. split; [reflexivity|].
    assert (Ha : absq s = []) by (apply length_zero_iff_nil; rewrite absq_length, Hz; reflexivity).
    split; [exact Ha|]. split; [|reflexivity].
    destruct HQ as [_ Hown _ _]. unfold ids in Hown. unfold absq in Ha. apply map_eq_nil in Ha. rewrite Ha in Hown. cbn in Hown.
    now apply Permutation_nil in Hown.
  - pose proof (pop_refines s HQ) as Hp. destruct (pop s) as [[s1 out] ok1]. destruct Hp as (HQ1 & -> & Hsz & Hsp).
    assert (Hc1 : fcount entry (q s1) = fcount entry (q s) - 1).
    { pose proof (absq_length s1) as L1. pose proof (absq_length s) as L0. unfold spec_pop in Hsp.
      pose proof HQ as [(_ & _ & _ & Hc & _) _ _ _]. pose proof HQ1 as [(_ & _ & _ & Hc1 & _) _ _ _].
      destruct (absq s) as [|x r] eqn:E; [cbn [length] in L0; lia|]. injection Hsp as Hsp _. rewrite Hsp in L1. cbn [length] in L0. lia. }
    specialize (IH s1 HQ1 ltac:(destruct HQ as [(_ & _ & _ & Hc & _) _ _ _]; lia)).
    destruct (clear_loop f s1) as [s2 ok2]. destruct IH as (HQ2 & -> & Ha & Hl & Hs2).
    split; [exact HQ2|]. split; [reflexivity|]. split; [exact Ha|]. split; [exact Hl|]. congruence.
Qed.
Theorem clear_spec s : QInv s -> let '(s', legal) := clear s in QInv s' /\ legal = true /\ absq s' = [] /\ live s' = [].
Proof.
  intro HQ. unfold clear. pose proof (clear_loop_spec (S (Z.to_nat (fsize entry (q s)))) s HQ) as H.
  destruct HQ as [(_ & _ & _ & Hc & _) _ _ _]. specialize (H ltac:(lia)).
  destruct (clear_loop _ s) as [s' legal]. destruct H as (H1 & H2 & H3 & H4 & _). auto.
Qed.
Print Assumptions clear_spec.
