(* C08: SCPI_Parse of the first message of the buffer does not depend on the bytes behind that message
   (MultiMsg.parse_local).  A simulation: the run on the buffer extended by y is the run on the buffer, with y carried along.
   Output, errors and the cursor fields never look at the buffer ("blind" operations); the readers look at the parameter
   window, which lies in front of the line feed that ends the message, and the number readers stop at that line feed. *)
From Coq Require Import Bool List NArith ZArith Lia.
From M Require LexModel MatchModel FmtModel ExprModel NumDecode LexBounds UnitProgress Dispatch UnitGeom LexTok Fuel.
From M Require Import ParserModel Framing2.
Import ListNotations.
Local Open Scope Z_scope.

(* ---------- operations that never look at the buffer ---------- *)
Definition SW (c c':ctx) : Prop :=
  mem c' = mem c /\ pd_off c' = pd_off c /\ pd_len c' = pd_len c /\ raw_off c' = raw_off c /\ raw_len c' = raw_len c /\
  cur c' = cur c /\ cmds c' = cmds c /\ (0 <= pd_pos c -> 0 <= pd_pos c').
Ltac sw := unfold SW; repeat split; try (let H0 := fresh in intro H0; exact H0).
Lemma SW_refl c : SW c c. Proof. sw. Qed.
Lemma SW_trans a b c : SW a b -> SW b c -> SW a c.
Proof. unfold SW. intros (A1 & A2 & A3 & A4 & A5 & A6 & A7 & A8) (B1 & B2 & B3 & B4 & B5 & B6 & B7 & B8). repeat split; try congruence. auto. Qed.

Definition blind (f:ctx -> ctx) : Prop := forall c, SW c (f c) /\ forall m, f (upd_mem c m) = upd_mem (f c) m.
Lemma blind_id : blind (fun c => c). Proof. intro c. split; [apply SW_refl|reflexivity]. Qed.
Lemma blind_comp f g : blind f -> blind g -> blind (fun c => g (f c)).
Proof.
  intros Hf Hg c. destruct (Hf c) as [S1 E1]. destruct (Hg (f c)) as [S2 E2]. split; [eapply SW_trans; eassumption|].
  intro m. rewrite E1, E2. reflexivity.
Qed.
Lemma blind_ev e : blind (fun c => ev c e). Proof. intro c. split; [sw|reflexivity]. Qed.
Lemma blind_upd_out a b d : blind (fun c => upd_out c a b d). Proof. intro c. split; [sw|reflexivity]. Qed.
Lemma blind_upd_in a b : 0 <= b -> blind (fun c => upd_in c a b).
Proof. intros Hb c. split; [unfold SW; repeat split; intros _; exact Hb|reflexivity]. Qed.
Lemma blind_upd_err a b d : blind (fun c => upd_err c a b d). Proof. intro c. split; [sw|reflexivity]. Qed.
Lemma blind_upd_flags a b e f : blind (fun c => upd_flags c a b e f). Proof. intro c. split; [sw|reflexivity]. Qed.
Lemma blind_error_push code info : blind (fun c => error_push c code info).
Proof.
  intro c. split.
  - unfold error_push. destruct (_ =? qcap c); sw.
  - intro m. unfold error_push. cbn [queue qcap upd_mem]. destruct (_ =? qcap c); reflexivity.
Qed.
Lemma blind_emit_empty : blind emit_empty.
Proof.
  intro c. split.
  - unfold emit_empty. destruct (_ && _); sw.
  - intro m. unfold emit_empty. cbn [queue qma upd_mem]. destruct (_ && _); reflexivity.
Qed.
Lemma blind_write b : blind (fun c => write c b).
Proof. intro c. split; [destruct b; sw|intro m; destruct b; reflexivity]. Qed.
Lemma blind_delimiter : blind delimiter.
Proof.
  intro c. split.
  - unfold delimiter. destruct (0 <? output_count c); [apply (blind_write [44%N])|]. destruct (negb _); [apply (blind_write [59%N])|apply SW_refl].
  - intro m. unfold delimiter. cbn [output_count first_output upd_mem]. destruct (0 <? output_count c); [reflexivity|]. destruct (negb _); reflexivity.
Qed.
Lemma blind_fold_write l : blind (fun c => fold_left write l c).
Proof.
  induction l as [|b l IH]; [apply blind_id|]. cbn [fold_left].
  apply (blind_comp (fun c => write c b) (fun c => fold_left write l c)); [apply blind_write|exact IH].
Qed.
Lemma blind_item l : blind (fun c => item c l).
Proof.
  unfold item. intro c.
  destruct (blind_comp delimiter (fun c => fold_left write l c) blind_delimiter (blind_fold_write l) c) as [S1 E1]. split.
  - eapply SW_trans; [exact S1|]. sw.
  - intro m. rewrite E1. reflexivity.
Qed.
Lemma blind_result_int w v b s : blind (fun c => result_int c w v b s).
Proof. unfold result_int. destruct (FmtModel.int2str w v (w + 1) b s) as [[s0 ?] ?]. apply blind_item. Qed.
Lemma blind_result_text t : blind (fun c => result_text c t). Proof. unfold result_text. apply blind_item. Qed.
Lemma blind_result_hdr n : blind (fun c => result_hdr c n).
Proof.
  unfold result_hdr. intro c.
  destruct (blind_comp delimiter (fun c => write c (block_header n)) blind_delimiter (blind_write _) c) as [S1 E1]. split.
  - eapply SW_trans; [exact S1|]. sw.
  - intro m. rewrite E1. reflexivity.
Qed.
Lemma blind_result_data dd : blind (fun c => result_data c dd).
Proof.
  intro c. split.
  - unfold result_data. destruct (arb_rem c <? _); [apply (blind_error_push (-310) None)|].
    eapply SW_trans; [|apply (blind_write dd)]. sw.
  - intro m. unfold result_data. cbn [arb_rem upd_mem]. destruct (arb_rem c <? _); [exact (proj2 (blind_error_push (-310) None c) m)|].
    destruct dd; reflexivity.
Qed.
Lemma blind_result_error code info desc : blind (fun c => result_error c code info desc).
Proof.
  unfold result_error. destruct (FmtModel.int2str 32 code 33 10 true) as [[digits ?] ?].
  apply (blind_comp (fun c => item c [bz digits]) (fun c => write c _)); [apply blind_item|apply blind_write].
Qed.
Lemma blind_fold {A} (f:ctx -> A -> ctx) : (forall v, blind (fun c => f c v)) -> forall l, blind (fun c => fold_left f l c).
Proof.
  intros H l. induction l as [|v l IH]; [apply blind_id|]. cbn [fold_left].
  apply (blind_comp (fun c => f c v) (fun c => fold_left f l c)); [apply H|exact IH].
Qed.
Lemma blind_result_array size fmt vals : blind (fun c => result_array c size fmt vals).
Proof.
  unfold result_array. destruct (fmt =? 0); [apply blind_fold; intro v; apply blind_result_int|].
  destruct (fmt =? Generated.gen_native_format).
  - apply (blind_comp (fun c => result_hdr c _) (fun c => result_data c _)); [apply blind_result_hdr|apply blind_result_data].
  - destruct vals as [|v vals].
    + apply (blind_comp (fun c => result_hdr c _) (fun c => result_data c _)); [apply blind_result_hdr|apply blind_result_data].
    + destruct (size =? 1).
      * apply (blind_comp (fun c => result_hdr c _) (fun c => result_data c _)); [apply blind_result_hdr|apply blind_result_data].
      * apply (blind_comp (fun c => result_hdr c _) (fun c => fold_left _ (v :: vals) c)); [apply blind_result_hdr|].
        apply blind_fold. intro v0. apply blind_result_data.
Qed.

(* ---------- the buffer extended by y ---------- *)
Lemma slice_app (m y:bytes) a b : 0 <= a -> a + b <= Z.of_nat (length m) -> slice (m ++ y) a b = slice m a b.
Proof.
  intros Ha Hb. unfold slice. destruct (Z.le_gt_cases b 0) as [Hb0|Hb0].
  - replace (Z.to_nat b) with O by lia. reflexivity.
  - rewrite skipn_app. replace (Z.to_nat a - length m)%nat with O by lia. cbn [skipn].
    rewrite firstn_app. replace (Z.to_nat b - length (skipn (Z.to_nat a) m))%nat with O by (rewrite skipn_length; lia).
    cbn [firstn]. apply app_nil_r.
Qed.
Lemma dropm_app (m y:bytes) a : 0 <= a <= Z.of_nat (length m) -> dropm (m ++ y) a = dropm m a ++ y.
Proof. intro H. unfold dropm. rewrite skipn_app. replace (Z.to_nat a - length m)%nat with O by lia. reflexivity. Qed.
Lemma getm_app (m y:bytes) i : i < Z.of_nat (length m) -> getm (m ++ y) i = getm m i.
Proof. intro H. unfold getm. destruct (Z.ltb_spec i 0); [reflexivity|]. apply app_nth1. lia. Qed.

(* ---------- the readers that are handed the text from the token to the end of the buffer ---------- *)
Lemma in_tail_app {A} (x:A) q : In x q -> q <> []. Proof. destruct q; [intros []|discriminate]. Qed.
Lemma copy_loop_app (y:bytes) fuel : forall (l:bytes) q ifrom ito plen buflen out, plen - 1 <= Z.of_nat (length l) ->
  copy_loop fuel (l ++ y) q ifrom ito plen buflen out = copy_loop fuel l q ifrom ito plen buflen out.
Proof.
  induction fuel as [|f IH]; intros l q ifrom ito plen buflen out Hl; [reflexivity|]. cbn [copy_loop].
  destruct (Z.leb_spec (plen - 1) ifrom); [reflexivity|]. destruct (buflen <=? ifrom); [reflexivity|].
  rewrite getm_app by lia. apply IH. exact Hl.
Qed.

Lemma digs_app (y:bytes) base : base <= 99 -> forall (q:bytes) acc n, In 10%N q -> digs base (q ++ y) acc n = digs base q acc n.
Proof.
  intros Hb q. induction q as [|x q IH]; intros acc n Hin; [destruct Hin|]. cbn [app digs].
  destruct (N.eq_dec x 10) as [->|Hx].
  - change (digval 10) with 99. destruct (Z.ltb_spec 99 base); [lia|reflexivity].
  - destruct (digval x <? base); [|reflexivity]. apply IH. destruct Hin; [congruence|assumption].
Qed.
Lemma strto_app (y:bytes) (c:N) (l':bytes) base : base <= 99 -> isspace c = false -> In 10%N (c :: l') ->
  strto ((c :: l') ++ y) base = strto (c :: l') base.
Proof.
  intros Hb Hc Hin. unfold strto. cbn [app skipsp]. rewrite Hc. cbn [hd].
  assert (Hc10 : c <> 10%N) by (intros ->; discriminate Hc).
  assert (Hin' : In 10%N l') by (destruct Hin; [congruence|assumption]).
  set (sgn := (c =? 45)%N || (c =? 43)%N).
  assert (G : forall q, In 10%N q ->
    (let pfx := (base =? 16) && (hd 0%N (q ++ y) =? 48)%N && ((hd 0%N (tl (q ++ y)) =? 120) || (hd 0%N (tl (q ++ y)) =? 88))%N && (digval (hd 0%N (tl (tl (q ++ y)))) <? 16) in
     (pfx, digs base (if pfx then tl (tl (q ++ y)) else q ++ y) 0 0)) =
    (let pfx := (base =? 16) && (hd 0%N q =? 48)%N && ((hd 0%N (tl q) =? 120) || (hd 0%N (tl q) =? 88))%N && (digval (hd 0%N (tl (tl q))) <? 16) in
     (pfx, digs base (if pfx then tl (tl q) else q) 0 0))).
  { intros q Hq. cbv zeta. destruct q as [|x1 q1]; [destruct Hq|]. cbn [app hd tl].
    destruct (base =? 16); cbn [andb]; [|rewrite (digs_app y base Hb (x1 :: q1)) by exact Hq; reflexivity].
    destruct (N.eqb_spec x1 48) as [->|H1]; cbn [andb]; [|rewrite (digs_app y base Hb (x1 :: q1)) by exact Hq; reflexivity].
    assert (Hq1 : In 10%N q1) by (destruct Hq; [discriminate|assumption]).
    destruct q1 as [|x2 q2]; [destruct Hq1|]. cbn [app hd tl].
    destruct ((x2 =? 120) || (x2 =? 88))%N eqn:E2; cbn [andb]; [|rewrite (digs_app y base Hb (48%N :: x2 :: q2)) by exact Hq; reflexivity].
    assert (Hq2 : In 10%N q2).
    { destruct Hq1 as [->|]; [discriminate E2|assumption]. }
    destruct q2 as [|x3 q3]; [destruct Hq2|]. cbn [app hd tl].
    destruct (digval x3 <? 16).
    - rewrite (digs_app y base Hb (x3 :: q3)) by exact Hq2. reflexivity.
    - rewrite (digs_app y base Hb (48%N :: x2 :: x3 :: q3)) by exact Hq. reflexivity. }
  destruct sgn.
  - cbn [tl]. specialize (G l' Hin'). cbv zeta in G. injection G as G1 G2. rewrite G2, G1. reflexivity.
  - specialize (G (c :: l') Hin). cbv zeta in G. cbn [app hd tl] in G |- *. injection G as G1 G2. rewrite G2, G1. reflexivity.
Qed.

Lemma nd_digs_app (y:list N) : forall q acc n, In 10%N q ->
  NumDecode.digs (q ++ y) acc n = (let '(r, a, k) := NumDecode.digs q acc n in (r ++ y, a, k)) /\ In 10%N (fst (fst (NumDecode.digs q acc n))).
Proof.
  induction q as [|x q IH]; intros acc n Hin; [destruct Hin|]. cbn [app NumDecode.digs].
  destruct (N.eq_dec x 10) as [->|Hx].
  - change (NumDecode.isdig 10) with false. cbn [fst]. split; [reflexivity|left; reflexivity].
  - destruct (NumDecode.isdig x).
    + apply IH. destruct Hin; [congruence|assumption].
    + cbn [fst]. split; [reflexivity|exact Hin].
Qed.

Ltac fin_tail y r4 I4 :=
  let x4 := fresh "x4" in let r4' := fresh "r4'" in let Hx4 := fresh "Hx4" in let I5 := fresh "I5" in
  let x5 := fresh "x5" in let r5' := fresh "r5'" in let Es := fresh "Es" in let I6 := fresh "I6" in let E6 := fresh "E6" in
  destruct (_ + _ =? 0); [reflexivity|];
  destruct r4 as [|x4 r4']; [destruct I4|]; cbn [app hd tl];
  destruct (N.eq_dec x4 10) as [->|Hx4];
  [ cbn [N.eqb Pos.eqb orb andb];
    repeat match goal with |- context [NumDecode.digs ?a 0 0] => destruct (NumDecode.digs a 0 0) as [[? ?] ?] end; reflexivity
  | assert (I5 : In 10%N r4') by (destruct I4; [congruence|assumption]);
    destruct r4' as [|x5 r5']; [destruct I5|]; cbn [app hd tl];
    destruct ((x5 =? 45)%N || (x5 =? 43)%N) eqn:Es;
    [ assert (I6 : In 10%N r5') by (destruct I5 as [I5|I5]; [subst x5; discriminate Es|exact I5]);
      destruct (nd_digs_app y r5' 0 0 I6) as [E6 _]; rewrite E6; destruct (NumDecode.digs r5' 0 0) as [[? ?] ?]; reflexivity
    | destruct (nd_digs_app y (x5 :: r5') 0 0 I5) as [E6 _]; cbn [app] in E6; rewrite E6;
      destruct (NumDecode.digs (x5 :: r5') 0 0) as [[? ?] ?]; reflexivity ] ].

Lemma strtod_exact_app (y:list N) (c:N) (l':list N) : NumDecode.isspace c = false -> In 10%N (c :: l') ->
  NumDecode.strtod_exact ((c :: l') ++ y) = NumDecode.strtod_exact (c :: l').
Proof.
  intros Hc Hin. unfold NumDecode.strtod_exact. cbn [app NumDecode.skipsp]. rewrite Hc. cbn [hd].
  assert (Hc10 : c <> 10%N) by (intros ->; discriminate Hc).
  assert (Hin' : In 10%N l') by (destruct Hin; [congruence|assumption]).
  assert (G : forall q, In 10%N q -> exists r3 ip ni, NumDecode.digs (q ++ y) 0 0 = (r3 ++ y, ip, ni) /\ NumDecode.digs q 0 0 = (r3, ip, ni) /\ In 10%N r3).
  { intros q Hq. destruct (nd_digs_app y q 0 0 Hq) as [E I]. destruct (NumDecode.digs q 0 0) as [[r3 ip] ni]. exists r3, ip, ni. auto. }
  destruct ((c =? 45)%N || (c =? 43)%N); cbn [tl].
  - destruct (G l' Hin') as (r3 & ip & ni & E1 & E2 & I3). rewrite E1, E2.
    destruct r3 as [|x3 r3']; [destruct I3|]. cbn [app hd tl].
    destruct (N.eqb_spec x3 46) as [->|H46].
    + assert (I3' : In 10%N r3') by (destruct I3; [discriminate|assumption]).
      destruct (nd_digs_app y r3' ip 0 I3') as [E4 I4]. rewrite E4. destruct (NumDecode.digs r3' ip 0) as [[r4 fp] nf]. cbn [fst] in I4.
      fin_tail y r4 I4.
    + change (x3 :: r3' ++ y) with ((x3 :: r3') ++ y). set (r4 := x3 :: r3') in *. fin_tail y r4 I3.
  - destruct (G (c :: l') Hin) as (r3 & ip & ni & E1 & E2 & I3). cbn [app] in E1. rewrite E1, E2.
    destruct r3 as [|x3 r3']; [destruct I3|]. cbn [app hd tl].
    destruct (N.eqb_spec x3 46) as [->|H46].
    + assert (I3' : In 10%N r3') by (destruct I3; [discriminate|assumption]).
      destruct (nd_digs_app y r3' ip 0 I3') as [E4 I4]. rewrite E4. destruct (NumDecode.digs r3' ip 0) as [[r4 fp] nf]. cbn [fst] in I4.
      fin_tail y r4 I4.
    + change (x3 :: r3' ++ y) with ((x3 :: r3') ++ y). set (r4 := x3 :: r3') in *. fin_tail y r4 I3.
Qed.

(* the same with a carriage return ahead *)
Lemma digs_app_cr (y:bytes) base : base <= 99 -> forall (q:bytes) acc n, In 13%N q -> digs base (q ++ y) acc n = digs base q acc n.
Proof.
  intros Hb q. induction q as [|x q IH]; intros acc n Hin; [destruct Hin|]. cbn [app digs].
  destruct (N.eq_dec x 13) as [->|Hx].
  - change (digval 13) with 99. destruct (Z.ltb_spec 99 base); [lia|reflexivity].
  - destruct (digval x <? base); [|reflexivity]. apply IH. destruct Hin; [congruence|assumption].
Qed.
Lemma strto_app_cr (y:bytes) (c:N) (l':bytes) base : base <= 99 -> isspace c = false -> In 13%N (c :: l') ->
  strto ((c :: l') ++ y) base = strto (c :: l') base.
Proof.
  intros Hb Hc Hin. unfold strto. cbn [app skipsp]. rewrite Hc. cbn [hd].
  assert (Hc10 : c <> 13%N) by (intros ->; discriminate Hc).
  assert (Hin' : In 13%N l') by (destruct Hin; [congruence|assumption]).
  set (sgn := (c =? 45)%N || (c =? 43)%N).
  assert (G : forall q, In 13%N q ->
    (let pfx := (base =? 16) && (hd 0%N (q ++ y) =? 48)%N && ((hd 0%N (tl (q ++ y)) =? 120) || (hd 0%N (tl (q ++ y)) =? 88))%N && (digval (hd 0%N (tl (tl (q ++ y)))) <? 16) in
     (pfx, digs base (if pfx then tl (tl (q ++ y)) else q ++ y) 0 0)) =
    (let pfx := (base =? 16) && (hd 0%N q =? 48)%N && ((hd 0%N (tl q) =? 120) || (hd 0%N (tl q) =? 88))%N && (digval (hd 0%N (tl (tl q))) <? 16) in
     (pfx, digs base (if pfx then tl (tl q) else q) 0 0))).
  { intros q Hq. cbv zeta. destruct q as [|x1 q1]; [destruct Hq|]. cbn [app hd tl].
    destruct (base =? 16); cbn [andb]; [|rewrite (digs_app_cr y base Hb (x1 :: q1)) by exact Hq; reflexivity].
    destruct (N.eqb_spec x1 48) as [->|H1]; cbn [andb]; [|rewrite (digs_app_cr y base Hb (x1 :: q1)) by exact Hq; reflexivity].
    assert (Hq1 : In 13%N q1) by (destruct Hq; [discriminate|assumption]).
    destruct q1 as [|x2 q2]; [destruct Hq1|]. cbn [app hd tl].
    destruct ((x2 =? 120) || (x2 =? 88))%N eqn:E2; cbn [andb]; [|rewrite (digs_app_cr y base Hb (48%N :: x2 :: q2)) by exact Hq; reflexivity].
    assert (Hq2 : In 13%N q2).
    { destruct Hq1 as [->|]; [discriminate E2|assumption]. }
    destruct q2 as [|x3 q3]; [destruct Hq2|]. cbn [app hd tl].
    destruct (digval x3 <? 16).
    - rewrite (digs_app_cr y base Hb (x3 :: q3)) by exact Hq2. reflexivity.
    - rewrite (digs_app_cr y base Hb (48%N :: x2 :: x3 :: q3)) by exact Hq. reflexivity. }
  destruct sgn.
  - cbn [tl]. specialize (G l' Hin'). cbv zeta in G. injection G as G1 G2. rewrite G2, G1. reflexivity.
  - specialize (G (c :: l') Hin). cbv zeta in G. cbn [app hd tl] in G |- *. injection G as G1 G2. rewrite G2, G1. reflexivity.
Qed.

Lemma nd_digs_app_cr (y:list N) : forall q acc n, In 13%N q ->
  NumDecode.digs (q ++ y) acc n = (let '(r, a, k) := NumDecode.digs q acc n in (r ++ y, a, k)) /\ In 13%N (fst (fst (NumDecode.digs q acc n))).
Proof.
  induction q as [|x q IH]; intros acc n Hin; [destruct Hin|]. cbn [app NumDecode.digs].
  destruct (N.eq_dec x 13) as [->|Hx].
  - change (NumDecode.isdig 13) with false. cbn [fst]. split; [reflexivity|left; reflexivity].
  - destruct (NumDecode.isdig x).
    + apply IH. destruct Hin; [congruence|assumption].
    + cbn [fst]. split; [reflexivity|exact Hin].
Qed.

Ltac fin_tail_cr y r4 I4 :=
  let x4 := fresh "x4" in let r4' := fresh "r4'" in let Hx4 := fresh "Hx4" in let I5 := fresh "I5" in
  let x5 := fresh "x5" in let r5' := fresh "r5'" in let Es := fresh "Es" in let I6 := fresh "I6" in let E6 := fresh "E6" in
  destruct (_ + _ =? 0); [reflexivity|];
  destruct r4 as [|x4 r4']; [destruct I4|]; cbn [app hd tl];
  destruct (N.eq_dec x4 13) as [->|Hx4];
  [ cbn [N.eqb Pos.eqb orb andb];
    repeat match goal with |- context [NumDecode.digs ?a 0 0] => destruct (NumDecode.digs a 0 0) as [[? ?] ?] end; reflexivity
  | assert (I5 : In 13%N r4') by (destruct I4; [congruence|assumption]);
    destruct r4' as [|x5 r5']; [destruct I5|]; cbn [app hd tl];
    destruct ((x5 =? 45)%N || (x5 =? 43)%N) eqn:Es;
    [ assert (I6 : In 13%N r5') by (destruct I5 as [I5|I5]; [subst x5; discriminate Es|exact I5]);
      destruct (nd_digs_app_cr y r5' 0 0 I6) as [E6 _]; rewrite E6; destruct (NumDecode.digs r5' 0 0) as [[? ?] ?]; reflexivity
    | destruct (nd_digs_app_cr y (x5 :: r5') 0 0 I5) as [E6 _]; cbn [app] in E6; rewrite E6;
      destruct (NumDecode.digs (x5 :: r5') 0 0) as [[? ?] ?]; reflexivity ] ].

Lemma strtod_exact_app_cr (y:list N) (c:N) (l':list N) : NumDecode.isspace c = false -> In 13%N (c :: l') ->
  NumDecode.strtod_exact ((c :: l') ++ y) = NumDecode.strtod_exact (c :: l').
Proof.
  intros Hc Hin. unfold NumDecode.strtod_exact. cbn [app NumDecode.skipsp]. rewrite Hc. cbn [hd].
  assert (Hc10 : c <> 13%N) by (intros ->; discriminate Hc).
  assert (Hin' : In 13%N l') by (destruct Hin; [congruence|assumption]).
  assert (G : forall q, In 13%N q -> exists r3 ip ni, NumDecode.digs (q ++ y) 0 0 = (r3 ++ y, ip, ni) /\ NumDecode.digs q 0 0 = (r3, ip, ni) /\ In 13%N r3).
  { intros q Hq. destruct (nd_digs_app_cr y q 0 0 Hq) as [E I]. destruct (NumDecode.digs q 0 0) as [[r3 ip] ni]. exists r3, ip, ni. auto. }
  destruct ((c =? 45)%N || (c =? 43)%N); cbn [tl].
  - destruct (G l' Hin') as (r3 & ip & ni & E1 & E2 & I3). rewrite E1, E2.
    destruct r3 as [|x3 r3']; [destruct I3|]. cbn [app hd tl].
    destruct (N.eqb_spec x3 46) as [->|H46].
    + assert (I3' : In 13%N r3') by (destruct I3; [discriminate|assumption]).
      destruct (nd_digs_app_cr y r3' ip 0 I3') as [E4 I4]. rewrite E4. destruct (NumDecode.digs r3' ip 0) as [[r4 fp] nf]. cbn [fst] in I4.
      fin_tail_cr y r4 I4.
    + change (x3 :: r3' ++ y) with ((x3 :: r3') ++ y). set (r4 := x3 :: r3') in *. fin_tail_cr y r4 I3.
  - destruct (G (c :: l') Hin) as (r3 & ip & ni & E1 & E2 & I3). cbn [app] in E1. rewrite E1, E2.
    destruct r3 as [|x3 r3']; [destruct I3|]. cbn [app hd tl].
    destruct (N.eqb_spec x3 46) as [->|H46].
    + assert (I3' : In 13%N r3') by (destruct I3; [discriminate|assumption]).
      destruct (nd_digs_app_cr y r3' ip 0 I3') as [E4 I4]. rewrite E4. destruct (NumDecode.digs r3' ip 0) as [[r4 fp] nf]. cbn [fst] in I4.
      fin_tail_cr y r4 I4.
    + change (x3 :: r3' ++ y) with ((x3 :: r3') ++ y). set (r4 := x3 :: r3') in *. fin_tail_cr y r4 I3.
Qed.

(* either line terminator *)
Lemma strto_app_t (y:bytes) (tl c:N) (l':bytes) base : tl = 10%N \/ tl = 13%N -> base <= 99 -> isspace c = false -> In tl (c :: l') ->
  strto ((c :: l') ++ y) base = strto (c :: l') base.
Proof. intros [->| ->]; [apply strto_app|apply strto_app_cr]. Qed.
Lemma strtod_exact_app_t (y:list N) (tl c:N) (l':list N) : tl = 10%N \/ tl = 13%N -> NumDecode.isspace c = false -> In tl (c :: l') ->
  NumDecode.strtod_exact ((c :: l') ++ y) = NumDecode.strtod_exact (c :: l').
Proof. intros [->| ->]; [apply strtod_exact_app|apply strtod_exact_app_cr]. Qed.

(* ---------- header composition and the -113 text on the extended buffer ---------- *)
Lemma nth_firstn_lt' {A} (d:A) : forall n i (l:list A), (i < n)%nat -> nth i (firstn n l) d = nth i l d.
Proof. induction n as [|n IH]; intros i l H; [lia|]. destruct l as [|x l]; [destruct i; reflexivity|]. destruct i as [|i]; [reflexivity|]. cbn [firstn nth]. apply IH. lia. Qed.
Lemma overwrite_app (m y src:bytes) at_ : (at_ + length src <= length m)%nat -> overwrite (m ++ y) at_ src = overwrite m at_ src ++ y.
Proof.
  intro H. rewrite !Dispatch.overwrite_eq by (rewrite ?app_length; lia).
  rewrite firstn_app. replace (at_ - length m)%nat with O by lia. cbn [firstn]. rewrite app_nil_r.
  rewrite skipn_app. replace (at_ + length src - length m)%nat with O by lia. cbn [skipn]. rewrite <- !app_assoc. reflexivity.
Qed.
Lemma last_colon_slice_le l n : 0 <= last_colon l n <= Z.of_nat n. Proof. apply Dispatch.last_colon_le. Qed.

Lemma compose_app (m y:bytes) pptr plen cptr clen : 0 <= pptr -> 0 <= plen -> pptr + plen <= cptr -> 0 < clen -> cptr + clen <= Z.of_nat (length m) ->
  compose (m ++ y) (Some (pptr, plen)) cptr clen = (let '(m1, hp, hl) := compose m (Some (pptr, plen)) cptr clen in (m1 ++ y, hp, hl)).
Proof.
  intros Hp Hpl Hord Hcl Hfit. unfold compose.
  destruct (plen =? 0) eqn:E0; [reflexivity|]. apply Z.eqb_neq in E0.
  rewrite !getm_app by lia. destruct (_ || _)%bool; [reflexivity|]. destruct (getm m pptr =? 42)%N; [reflexivity|].
  rewrite slice_app by lia.
  pose proof (last_colon_slice_le (slice m pptr plen) (Z.to_nat plen)) as Hi. set (i := last_colon (slice m pptr plen) (Z.to_nat plen)) in *.
  destruct (i =? 0); [reflexivity|].
  rewrite slice_app by lia.
  assert (Hsrc : length (slice m pptr i) = Z.to_nat i) by (apply Dispatch.slice_length; lia).
  rewrite overwrite_app by lia. reflexivity.
Qed.

(* where the bytes of the composed buffer come from *)
Lemma compose_bytes (m:bytes) pptr plen cptr clen : 0 <= pptr -> 0 <= plen -> pptr + plen <= cptr -> 0 < clen -> cptr + clen <= Z.of_nat (length m) ->
  let m1 := fst (fst (compose m (Some (pptr, plen)) cptr clen)) in
  forall j, 0 <= j -> (cptr <= j -> getm m1 j = getm m j) /\ (j < cptr -> exists j', 0 <= j' < cptr /\ getm m1 j = getm m j').
Proof.
  intros Hp Hpl Hord Hcl Hfit. cbv zeta.
  assert (Hsame : forall j, 0 <= j -> (cptr <= j -> getm m j = getm m j) /\ (j < cptr -> exists j', 0 <= j' < cptr /\ getm m j = getm m j')).
  { intros j Hj. split; [reflexivity|]. intro. exists j. split; [lia|reflexivity]. }
  unfold compose. destruct (plen =? 0) eqn:E0; [exact Hsame|]. apply Z.eqb_neq in E0.
  destruct (_ || _)%bool; [exact Hsame|]. destruct (getm m pptr =? 42)%N; [exact Hsame|].
  pose proof (last_colon_slice_le (slice m pptr plen) (Z.to_nat plen)) as Hi. set (i := last_colon (slice m pptr plen) (Z.to_nat plen)) in *.
  destruct (Z.eqb_spec i 0) as [Ei|Ei]; [exact Hsame|]. cbn [fst].
  assert (Hsrc : length (slice m pptr i) = Z.to_nat i) by (apply Dispatch.slice_length; lia).
  rewrite Dispatch.overwrite_eq by lia. rewrite Hsrc. replace (Z.to_nat (cptr - i) + Z.to_nat i)%nat with (Z.to_nat cptr) by lia.
  intros j Hj. unfold getm. destruct (Z.ltb_spec j 0); [lia|].
  assert (Hf : length (firstn (Z.to_nat (cptr - i)) m) = Z.to_nat (cptr - i)) by (apply firstn_length_le; lia).
  split.
  - intro Hge. rewrite app_nth2 by (rewrite Hf; lia). rewrite Hf. rewrite app_nth2 by (rewrite Hsrc; lia). rewrite Hsrc.
    rewrite Dispatch.nth_hd_skipn. rewrite Dispatch.skipn_skipn'. rewrite <- Dispatch.nth_hd_skipn. f_equal. lia.
  - intro Hlt. destruct (Z.lt_ge_cases j (cptr - i)) as [Ha|Ha].
    + exists j. split; [lia|]. rewrite app_nth1 by (rewrite Hf; lia). destruct (Z.ltb_spec j 0); [lia|]. apply nth_firstn_lt'. lia.
    + exists (pptr + (j - (cptr - i))). split; [lia|]. rewrite app_nth2 by (rewrite Hf; lia). rewrite Hf. rewrite app_nth1 by (rewrite Hsrc; lia).
      destruct (Z.ltb_spec (pptr + (j - (cptr - i))) 0); [lia|].
      unfold slice. rewrite nth_firstn_lt' by lia. rewrite Dispatch.nth_hd_skipn. rewrite Dispatch.skipn_skipn'. rewrite <- Dispatch.nth_hd_skipn. f_equal. lia.
Qed.

Lemma trim_crlf_app (m y:bytes) off r : off + Z.of_nat r <= Z.of_nat (length m) -> trim_crlf (m ++ y) off r = trim_crlf m off r.
Proof. induction r as [|r IH]; intro H; [reflexivity|]. cbn [trim_crlf]. rewrite getm_app by lia. rewrite IH by lia. reflexivity. Qed.
Lemma trim_crlf_pos (m:bytes) off r : (1 <= r)%nat -> getm m off <> 10%N -> getm m off <> 13%N -> 1 <= trim_crlf m off r.
Proof.
  intros Hr H10 H13. induction r as [|r IH]; [lia|]. cbn [trim_crlf].
  destruct (((getm m (off + Z.of_nat r) =? 13) || (getm m (off + Z.of_nat r) =? 10))%N) eqn:E; [|lia].
  destruct r as [|r']; [|apply IH; lia].
  exfalso. rewrite Z.add_0_r in E. apply orb_true_iff in E as [E|E]; apply N.eqb_eq in E; congruence.
Qed.
Lemma cstr_app (y:bytes) n : forall (l:bytes), (n <= length l)%nat -> cstr n (l ++ y) = cstr n l.
Proof.
  induction n as [|n IH]; intros l H; [reflexivity|]. destruct l as [|c r]; [cbn in H; lia|]. cbn [app cstr].
  destruct (c =? 0)%N; [reflexivity|]. rewrite IH by (cbn in H; lia). reflexivity.
Qed.

Section Local.
Variable y : bytes.
Variable L : Z.
Variable tL : N.                                  (* the terminator at L: a line feed or a carriage return *)
Hypothesis HtL : tL = 10%N \/ tL = 13%N.
Definition ext (c:ctx) : ctx := upd_mem c (mem c ++ y).
Lemma blind_ext f c : blind f -> f (ext c) = ext (f c).
Proof. intro H. destruct (H c) as [(A1 & _) E]. unfold ext. rewrite E, A1. reflexivity. Qed.
Lemma SW_ext_eq c c' : SW c c' -> upd_mem c' (mem c ++ y) = ext c'.
Proof. intros (A1 & _). unfold ext. rewrite A1. reflexivity. Qed.

Definition W (c:ctx) : Prop :=
  0 <= L < Z.of_nat (length (mem c)) /\ getm (mem c) L = tL /\
  (forall i, 0 <= i < L -> getm (mem c) i <> 10%N /\ getm (mem c) i <> 13%N) /\
  0 <= pd_off c /\ 0 <= pd_len c /\ pd_off c + pd_len c <= L + 1 /\
  0 <= raw_off c /\ 0 <= raw_len c /\ raw_off c + raw_len c <= Z.of_nat (length (mem c)) /\ 0 <= pd_pos c.
Lemma W_SW c c' : W c -> SW c c' -> W c'.
Proof.
  unfold W, SW. intros (H1 & H2 & H3 & H4 & H5 & H6 & H7 & H8 & H9 & H10) (A1 & A2 & A3 & A4 & A5 & _ & _ & A8).
  rewrite A1, A2, A3, A4, A5. exact (conj H1 (conj H2 (conj H3 (conj H4 (conj H5 (conj H6 (conj H7 (conj H8 (conj H9 (A8 H10)))))))))).
Qed.

(* what a reader has to satisfy *)
Definition local {A} (F:ctx -> ctx * A) : Prop := forall c, W c ->
  F (ext c) = (ext (fst (F c)), snd (F c)) /\ SW c (fst (F c)).

Lemma parameter_local m : local (fun c => let '(c1, ok, t) := parameter c m in (c1, (ok, t))).
Proof.
  intros c HW. pose proof HW as (W1 & W2 & W3 & W4 & W5 & W6 & _ & _ & _ & W10).
  unfold parameter. change (pd_len (ext c)) with (pd_len c). change (pd_pos (ext c)) with (pd_pos c).
  change (pd_off (ext c)) with (pd_off c). change (input_count (ext c)) with (input_count c). change (mem (ext c)) with (mem c ++ y).
  rewrite slice_app by lia.
  destruct (pd_len c <=? pd_pos c).
  - destruct m; cbn [fst snd].
    + rewrite (blind_ext (fun c => error_push c (-109) None)) by apply blind_error_push. split; [reflexivity|apply (blind_error_push (-109) None)].
    + split; [reflexivity|apply SW_refl].
  - set (region := slice (mem c) (pd_off c) (pd_len c)).
    assert (G : forall pos, 0 <= pos ->
      (let r := LexModel.parse_program_data (dropm region pos) in
       let c1 := upd_in (ext c) (input_count c + 1) (pos + LexModel.disp r) in
       let t := LexModel.tok r in
       let '(c1, ok, t) :=
        if tok_valid (LexModel.ty t)
        then (c1, true, {| LexModel.ty := LexModel.ty t; LexModel.ptr := pd_off c + pos + LexModel.ptr t; LexModel.len := LexModel.len t |})
        else (error_push c1 (-151) None, false, {| LexModel.ty := LexModel.T_UNKNOWN; LexModel.ptr := 0; LexModel.len := 0 |}) in (c1, (ok, t))) =
      (ext (fst (let r := LexModel.parse_program_data (dropm region pos) in
       let c1 := upd_in c (input_count c + 1) (pos + LexModel.disp r) in
       let t := LexModel.tok r in
       let '(c1, ok, t) :=
        if tok_valid (LexModel.ty t)
        then (c1, true, {| LexModel.ty := LexModel.ty t; LexModel.ptr := pd_off c + pos + LexModel.ptr t; LexModel.len := LexModel.len t |})
        else (error_push c1 (-151) None, false, {| LexModel.ty := LexModel.T_UNKNOWN; LexModel.ptr := 0; LexModel.len := 0 |}) in (c1, (ok, t)))),
       snd (let r := LexModel.parse_program_data (dropm region pos) in
       let c1 := upd_in c (input_count c + 1) (pos + LexModel.disp r) in
       let t := LexModel.tok r in
       let '(c1, ok, t) :=
        if tok_valid (LexModel.ty t)
        then (c1, true, {| LexModel.ty := LexModel.ty t; LexModel.ptr := pd_off c + pos + LexModel.ptr t; LexModel.len := LexModel.len t |})
        else (error_push c1 (-151) None, false, {| LexModel.ty := LexModel.T_UNKNOWN; LexModel.ptr := 0; LexModel.len := 0 |}) in (c1, (ok, t)))) /\
      SW c (fst (let r := LexModel.parse_program_data (dropm region pos) in
       let c1 := upd_in c (input_count c + 1) (pos + LexModel.disp r) in
       let t := LexModel.tok r in
       let '(c1, ok, t) :=
        if tok_valid (LexModel.ty t)
        then (c1, true, {| LexModel.ty := LexModel.ty t; LexModel.ptr := pd_off c + pos + LexModel.ptr t; LexModel.len := LexModel.len t |})
        else (error_push c1 (-151) None, false, {| LexModel.ty := LexModel.T_UNKNOWN; LexModel.ptr := 0; LexModel.len := 0 |}) in (c1, (ok, t))))).
    { intros pos Hpos. cbv zeta. set (r := LexModel.parse_program_data (dropm region pos)).
      assert (Hb : 0 <= pos + LexModel.disp r) by (pose proof (UnitProgress.ppd_disp (dropm region pos)); fold r in H; lia).
      rewrite (blind_ext (fun c0 => upd_in c0 (input_count c + 1) (pos + LexModel.disp r))) by (apply blind_upd_in; exact Hb).
      destruct (tok_valid _); cbn [fst snd].
      - split; [reflexivity|apply (blind_upd_in (input_count c + 1) (pos + LexModel.disp r) Hb)].
      - rewrite (blind_ext (fun c => error_push c (-151) None)) by apply blind_error_push. split; [reflexivity|].
        eapply SW_trans; [apply (blind_upd_in (input_count c + 1) (pos + LexModel.disp r) Hb)|apply (blind_error_push (-151) None)]. }
    cbv zeta in G. cbv zeta.
    destruct (negb (input_count c =? 0)).
    + destruct (LexModel.ret _ =? 0).
      * cbn [fst snd]. rewrite (blind_ext (fun c => error_push c (-103) None)) by apply blind_error_push. split; [reflexivity|apply (blind_error_push (-103) None)].
      * apply G. lia.
    + apply G. exact W10.
Qed.

(* ---------- where the token of a parameter lies ---------- *)
Definition TokOK (c:ctx) (t:LexModel.token) : Prop :=
  pd_off c <= LexModel.ptr t /\ 0 <= LexModel.len t /\ LexModel.ptr t + LexModel.len t <= pd_off c + pd_len c /\
  (LexTok.is_num (LexModel.ty t) = true -> LexModel.ptr t < pd_off c + pd_len c /\ LexTok.numstart (getm (mem c) (LexModel.ptr t)) = true).

Lemma nth_firstn_lt {A} (d:A) : forall n i (l:list A), (i < n)%nat -> nth i (firstn n l) d = nth i l d.
Proof. induction n as [|n IH]; intros i l H; [lia|]. destruct l as [|x l]; [destruct i; reflexivity|]. destruct i as [|i]; [reflexivity|]. cbn [firstn nth]. apply IH. lia. Qed.
Lemma getb_slice (m:bytes) off len i : 0 <= off -> 0 <= i < len -> LexTok.getb (slice m off len) i = getm m (off + i).
Proof.
  intros Ho Hi. unfold slice, getm. destruct (Z.ltb_spec (off + i) 0); [lia|].
  unfold LexTok.getb. rewrite nth_firstn_lt by lia.
  change (nth (Z.to_nat i) (skipn (Z.to_nat off) m) 0%N) with (LexTok.getb (LexModel.drop off m) i).
  rewrite <- LexTok.getb_drop by lia. reflexivity.
Qed.

Lemma parameter_tok c m : W c -> snd (fst (parameter c m)) = true -> TokOK c (snd (parameter c m)).
Proof.
  intros HW. pose proof HW as (W1 & W2 & W3 & W4 & W5 & W6 & _ & _ & _ & W10).
  unfold parameter. destruct (Z.leb_spec (pd_len c) (pd_pos c)) as [Hle|Hlt].
  - destruct m; cbn [fst snd]; discriminate.
  - set (region := slice (mem c) (pd_off c) (pd_len c)).
    assert (Hreg : length region = Z.to_nat (pd_len c)) by (apply Dispatch.slice_length; lia).
    assert (G : forall pos, 0 <= pos <= pd_len c ->
      snd (fst (let r := LexModel.parse_program_data (dropm region pos) in
       let c1 := upd_in c (input_count c + 1) (pos + LexModel.disp r) in
       let t := LexModel.tok r in
        if tok_valid (LexModel.ty t)
        then (c1, true, {| LexModel.ty := LexModel.ty t; LexModel.ptr := pd_off c + pos + LexModel.ptr t; LexModel.len := LexModel.len t |})
        else (error_push c1 (-151) None, false, {| LexModel.ty := LexModel.T_UNKNOWN; LexModel.ptr := 0; LexModel.len := 0 |}))) = true ->
      TokOK c (snd (let r := LexModel.parse_program_data (dropm region pos) in
       let c1 := upd_in c (input_count c + 1) (pos + LexModel.disp r) in
       let t := LexModel.tok r in
        if tok_valid (LexModel.ty t)
        then (c1, true, {| LexModel.ty := LexModel.ty t; LexModel.ptr := pd_off c + pos + LexModel.ptr t; LexModel.len := LexModel.len t |})
        else (error_push c1 (-151) None, false, {| LexModel.ty := LexModel.T_UNKNOWN; LexModel.ptr := 0; LexModel.len := 0 |})))).
    { intros pos Hpos. cbv zeta. pose proof (LexTok.ppd_tok (dropm region pos)) as Ht. cbv zeta in Ht.
      assert (Hdl : Z.of_nat (length (dropm region pos)) = pd_len c - pos) by (unfold dropm; rewrite skipn_length, Hreg; lia).
      unfold LexModel.bytes, LexModel.byte in Ht. rewrite Hdl in Ht. destruct Ht as (T1 & T2 & T3 & T4).
      destruct (tok_valid _); cbn [fst snd]; [|discriminate]. intros _. unfold TokOK. cbn [LexModel.ptr LexModel.len LexModel.ty].
      split; [lia|]. split; [lia|]. split; [lia|]. intro Hn. destruct (T4 Hn) as [T5 T6]. split; [lia|].
      pose proof (LexTok.getb_drop region pos _ (proj1 Hpos) T1) as E. change (LexModel.drop pos region) with (dropm region pos) in E.
      rewrite <- E in T6. clear E.
      unfold region at 1 in T6. rewrite getb_slice in T6 by lia. rewrite Z.add_assoc in T6. exact T6. }
    cbv zeta in G. cbv zeta. destruct (negb (input_count c =? 0)).
    + destruct (LexModel.ret _ =? 0); [cbn [fst snd]; discriminate|]. apply G. lia.
    + apply G. lia.
Qed.

Lemma TokOK_SW c c' t : SW c c' -> TokOK c t -> TokOK c' t.
Proof. unfold TokOK, SW. intros (A1 & A2 & A3 & _) H. rewrite A1, A2, A3. exact H. Qed.

(* the text a number reader is handed: it starts with a byte that is not white space, and the line feed is ahead *)
Lemma tok_text c t : W c -> TokOK c t -> LexTok.is_num (LexModel.ty t) = true ->
  0 <= LexModel.ptr t <= Z.of_nat (length (mem c)) /\
  exists x l', dropm (mem c) (LexModel.ptr t) = x :: l' /\ isspace x = false /\ In tL (x :: l').
Proof.
  intros (W1 & W2 & W3 & W4 & W5 & W6 & _) (T1 & T2 & T3 & T4) Hn. destruct (T4 Hn) as [T5 T6].
  set (p := LexModel.ptr t) in *. split; [lia|].
  assert (Hlen : (Z.to_nat p < length (mem c))%nat) by lia.
  assert (Hg : forall k, 0 <= k -> LexTok.getb (dropm (mem c) p) k = getm (mem c) (p + k)).
  { intros k Hk. change (dropm (mem c) p) with (LexModel.drop p (mem c)). rewrite <- LexTok.getb_drop by lia.
    unfold LexTok.getb, getm. destruct (Z.ltb_spec (p + k) 0); [lia|reflexivity]. }
  destruct (dropm (mem c) p) as [|x l'] eqn:Ed.
  { exfalso. apply (f_equal (@length N)) in Ed. unfold dropm in Ed. rewrite skipn_length in Ed. cbn in Ed. lia. }
  exists x, l'. split; [reflexivity|]. split.
  - apply LexTok.numstart_nospace. specialize (Hg 0 ltac:(lia)). cbn in Hg. rewrite Z.add_0_r in Hg. rewrite Hg. exact T6.
  - specialize (Hg (L - p) ltac:(lia)). replace (p + (L - p)) with L in Hg by lia. rewrite W2 in Hg. rewrite <- Hg.
    unfold LexTok.getb. apply nth_In. rewrite <- Ed. unfold dropm. rewrite skipn_length. lia.
Qed.

Lemma param_to_int_ext c t w sign : W c -> TokOK c t -> param_to_int (ext c) t w sign = param_to_int c t w sign.
Proof.
  intros HW HT. unfold param_to_int. change (mem (ext c)) with (mem c ++ y).
  destruct (LexTok.is_num (LexModel.ty t)) eqn:En; [|destruct (LexModel.ty t); try reflexivity; discriminate En].
  destruct (tok_text c t HW HT En) as (Hp & x & l' & Ed & Hx & Hin).
  rewrite dropm_app by exact Hp. rewrite Ed.
  destruct (LexModel.ty t); try reflexivity; rewrite (strto_app_t y tL x l' _ HtL) by (try lia; assumption); reflexivity.
Qed.
Lemma strtod_ext c t : W c -> TokOK c t -> LexTok.is_num (LexModel.ty t) = true ->
  NumDecode.strtod_exact (dropm (mem (ext c)) (LexModel.ptr t)) = NumDecode.strtod_exact (dropm (mem c) (LexModel.ptr t)).
Proof.
  intros HW HT En. destruct (tok_text c t HW HT En) as (Hp & x & l' & Ed & Hx & Hin).
  change (mem (ext c)) with (mem c ++ y). rewrite dropm_app by exact Hp. rewrite Ed. apply (strtod_exact_app_t y tL); assumption.
Qed.
Lemma param_to_double_ext c t : W c -> TokOK c t -> param_to_double_bits (ext c) t = param_to_double_bits c t.
Proof.
  intros HW HT. unfold param_to_double_bits. rewrite param_to_int_ext by assumption.
  destruct (LexModel.ty t) eqn:Ety; try reflexivity; unfold NumDecode.strtod_bits; rewrite strtod_ext by (try assumption; rewrite Ety; reflexivity); reflexivity.
Qed.
Lemma param_to_float_ext c t : W c -> TokOK c t -> param_to_float_bits (ext c) t = param_to_float_bits c t.
Proof.
  intros HW HT. unfold param_to_float_bits. rewrite param_to_int_ext by assumption.
  destruct (LexModel.ty t) eqn:Ety; try reflexivity; unfold NumDecode.strtof_bits; rewrite strtod_ext by (try assumption; rewrite Ety; reflexivity); reflexivity.
Qed.

(* ---------- the readers ---------- *)
Definition pack3 {B C} (x:ctx * B * C) : ctx * (B * C) := (fst (fst x), (snd (fst x), snd x)).
Definition pack4 {B C D} (x:ctx * B * C * D) : ctx * (B * C * D) := (fst (fst (fst x)), (snd (fst (fst x)), snd (fst x), snd x)).
Lemma local_eq {A} (F G:ctx -> ctx * A) : (forall c, F c = G c) -> local G -> local F.
Proof. intros E H c HW. rewrite !E. apply H, HW. Qed.

Lemma with_parameter {A} (K : ctx -> bool -> LexModel.token -> ctx * A) m :
  (forall c1 ok t, W c1 -> (ok = true -> TokOK c1 t) ->
     K (ext c1) ok t = (ext (fst (K c1 ok t)), snd (K c1 ok t)) /\ SW c1 (fst (K c1 ok t))) ->
  local (fun c => let '(c1, ok, t) := parameter c m in K c1 ok t).
Proof.
  intros HK c HW. destruct (parameter_local m c HW) as [E S]. pose proof (parameter_tok c m HW) as HT.
  destruct (parameter c m) as [[c1 ok] t]. cbn [fst snd] in *. destruct (parameter (ext c) m) as [[c1' ok'] t'].
  injection E as -> -> ->. assert (HW1 : W c1) by (eapply W_SW; eassumption).
  destruct (HK c1 ok t HW1) as [E1 S1]. { intro Hok. eapply TokOK_SW; [exact S|]. apply HT, Hok. }
  split; [exact E1|eapply SW_trans; eassumption].
Qed.

Ltac errb code := cbn [pack3 pack4 fst snd]; rewrite (blind_ext (fun c => error_push c code None)) by apply blind_error_push;
  split; [reflexivity|apply (blind_error_push code None)].

Lemma param_int_local w s m : local (fun c => pack3 (param_int c w s m)).
Proof.
  apply (local_eq _ (fun c => let '(c1, ok, t) := parameter c m in
     pack3 (if ok then (if is_number (LexModel.ty t) false then let '(r,v) := param_to_int c1 t w s in (c1, r, v)
                        else if is_number (LexModel.ty t) true then (error_push c1 (-138) None, false, 0)
                        else (error_push c1 (-104) None, false, 0)) else (c1, false, 0)))).
  { intro c. unfold param_int. destruct (parameter c m) as [[c1 ok] t]. reflexivity. }
  apply with_parameter. intros c1 ok t HW1 HT. destruct ok; [|split; [reflexivity|apply SW_refl]].
  destruct (is_number (LexModel.ty t) false).
  - rewrite param_to_int_ext by auto. destruct (param_to_int c1 t w s) as [r v]. split; [reflexivity|apply SW_refl].
  - destruct (is_number (LexModel.ty t) true); [errb (-138)|errb (-104)].
Qed.

Lemma tok_slice c t a b : W c -> TokOK c t -> LexModel.ptr t <= a -> a + b <= LexModel.ptr t + LexModel.len t ->
  slice (mem (ext c)) a b = slice (mem c) a b.
Proof.
  intros (W1 & _ & _ & W4 & W5 & W6 & _) (T1 & T2 & T3 & _) Ha Hb. change (mem (ext c)) with (mem c ++ y). apply slice_app; lia.
Qed.

Lemma param_to_choice_ext c t o : W c -> TokOK c t ->
  pack3 (param_to_choice (ext c) t o) = (ext (fst (pack3 (param_to_choice c t o))), snd (pack3 (param_to_choice c t o))) /\
  SW c (fst (pack3 (param_to_choice c t o))).
Proof.
  intros HW HT. unfold param_to_choice. destruct (LexModel.ty t); try (errb (-104)).
  rewrite (tok_slice c t) by (auto; lia). destruct (choice_lookup o _); [split; [reflexivity|apply SW_refl]|errb (-224)].
Qed.

Lemma param_bool_local m : local (fun c => pack3 (param_bool c m)).
Proof.
  apply (local_eq _ (fun c => let '(c1, ok, t) := parameter c m in
     pack3 (if ok then match LexModel.ty t with
                       | LexModel.T_DECIMAL => let '(_,v) := param_to_int c1 t 32 true in (c1, true, if v =? 0 then 0 else 1)
                       | _ => let '(c2, r, v) := param_to_choice c1 t bool_def in (c2, r, if v =? 0 then 0 else 1)
                       end else (c1, false, 0)))).
  { intro c. unfold param_bool. destruct (parameter c m) as [[c1 ok] t]. reflexivity. }
  apply with_parameter. intros c1 ok t HW1 HT. destruct ok; [|split; [reflexivity|apply SW_refl]].
  specialize (HT eq_refl).
  assert (G : pack3 (let '(c2, r, v) := param_to_choice (ext c1) t bool_def in (c2, r, if v =? 0 then 0 else 1)) =
              (ext (fst (pack3 (let '(c2, r, v) := param_to_choice c1 t bool_def in (c2, r, if v =? 0 then 0 else 1)))),
               snd (pack3 (let '(c2, r, v) := param_to_choice c1 t bool_def in (c2, r, if v =? 0 then 0 else 1)))) /\
              SW c1 (fst (pack3 (let '(c2, r, v) := param_to_choice c1 t bool_def in (c2, r, if v =? 0 then 0 else 1))))).
  { destruct (param_to_choice_ext c1 t bool_def HW1 HT) as [E S].
    destruct (param_to_choice c1 t bool_def) as [[c2 r] v]. destruct (param_to_choice (ext c1) t bool_def) as [[c2' r'] v'].
    cbn [pack3 fst snd] in *. injection E as -> -> ->. split; [reflexivity|exact S]. }
  destruct (LexModel.ty t); try exact G.
  rewrite param_to_int_ext by auto. destruct (param_to_int c1 t 32 true) as [r v]. split; [reflexivity|apply SW_refl].
Qed.

Lemma param_choice_local m : local (fun c => pack3 (param_choice c m)).
Proof.
  apply (local_eq _ (fun c => let '(c1, ok, t) := parameter c m in pack3 (if ok then param_to_choice c1 t choice_def else (c1, false, 0)))).
  { intro c. unfold param_choice. destruct (parameter c m) as [[c1 ok] t]. reflexivity. }
  apply with_parameter. intros c1 ok t HW1 HT. destruct ok; [|split; [reflexivity|apply SW_refl]].
  apply param_to_choice_ext; auto.
Qed.

Lemma param_chars_local m : local (fun c => pack3 (param_chars c m)).
Proof.
  apply (local_eq _ (fun c => let '(c1, ok, t) := parameter c m in
     pack3 (if ok then (c1, true, if is_quote (LexModel.ty t) then slice (mem c1) (LexModel.ptr t + 1) (LexModel.len t - 2)
                                   else slice (mem c1) (LexModel.ptr t) (LexModel.len t)) else (c1, false, [])))).
  { intro c. unfold param_chars. destruct (parameter c m) as [[c1 ok] t]. reflexivity. }
  apply with_parameter. intros c1 ok t HW1 HT. destruct ok; [|split; [reflexivity|apply SW_refl]]. specialize (HT eq_refl).
  rewrite !(tok_slice c1 t) by (auto; lia). split; [reflexivity|apply SW_refl].
Qed.

Lemma param_block_local m : local (fun c => pack3 (param_block c m)).
Proof.
  apply (local_eq _ (fun c => let '(c1, ok, t) := parameter c m in
     pack3 (if ok then match LexModel.ty t with
                       | LexModel.T_BLOCK => (c1, true, slice (mem c1) (LexModel.ptr t) (LexModel.len t))
                       | _ => (error_push c1 (-104) None, false, []) end else (c1, false, [])))).
  { intro c. unfold param_block. destruct (parameter c m) as [[c1 ok] t]. reflexivity. }
  apply with_parameter. intros c1 ok t HW1 HT. destruct ok; [|split; [reflexivity|apply SW_refl]]. specialize (HT eq_refl).
  destruct (LexModel.ty t); try (errb (-104)).
  rewrite (tok_slice c1 t) by (auto; lia). split; [reflexivity|apply SW_refl].
Qed.

Lemma param_text_local bl m : local (fun c => pack4 (param_text c bl m)).
Proof.
  apply (local_eq _ (fun c => let '(c1, ok, t) := parameter c m in
     pack4 (if ok then
              if is_quote (LexModel.ty t) then
                let q := match LexModel.ty t with LexModel.T_SQUOTE => 39%N | _ => 34%N end in
                let src := dropm (mem c1) (LexModel.ptr t) in
                let '(out, ito) := copy_loop (S (Z.to_nat (LexModel.len t))) src q 1 0 (LexModel.len t) bl [] in
                (c1, true, out, ito <? bl)
              else (error_push c1 (-104) None, false, [], false)
            else (c1, false, [], false)))).
  { intro c. unfold param_text. destruct (parameter c m) as [[c1 ok] t]. reflexivity. }
  apply with_parameter. intros c1 ok t HW1 HT. destruct ok; [|split; [reflexivity|apply SW_refl]]. specialize (HT eq_refl).
  destruct (is_quote (LexModel.ty t)); [|errb (-104)].
  cbv zeta. change (mem (ext c1)) with (mem c1 ++ y).
  pose proof HW1 as (W1 & _ & _ & W4 & W5 & W6 & _). pose proof HT as (T1 & T2 & T3 & _).
  rewrite dropm_app by lia. rewrite copy_loop_app by (unfold dropm; rewrite skipn_length; lia).
  destruct (copy_loop _ _ _ 1 0 _ bl []) as [out ito]. split; [reflexivity|apply SW_refl].
Qed.

Lemma param_fp_local dbl m : local (fun c => pack3 (param_fp c dbl m)).
Proof.
  apply (local_eq _ (fun c => let '(c1, ok, t) := parameter c m in
     pack3 (if ok then
              if is_number (LexModel.ty t) false then (c1, true, if dbl then param_to_double_bits c1 t else param_to_float_bits c1 t)
              else if is_number (LexModel.ty t) true then (error_push c1 (-138) None, false, 0)
              else (error_push c1 (-104) None, false, 0)
            else (c1, false, 0)))).
  { intro c. unfold param_fp. destruct (parameter c m) as [[c1 ok] t]. reflexivity. }
  apply with_parameter. intros c1 ok t HW1 HT. destruct ok; [|split; [reflexivity|apply SW_refl]]. specialize (HT eq_refl).
  destruct (is_number (LexModel.ty t) false).
  - rewrite param_to_double_ext, param_to_float_ext by auto. split; [reflexivity|apply SW_refl].
  - destruct (is_number (LexModel.ty t) true); [errb (-138)|errb (-104)].
Qed.

Lemma param_number_local m : local (fun c => pack3 (param_number c m)).
Proof.
  apply (local_eq _ (fun c => let '(c1, ok, t) := parameter c m in
     pack3 (if negb ok then (c1, false, []) else
  let base := match LexModel.ty t with LexModel.T_BINNUM => 2 | LexModel.T_HEXNUM => 16 | LexModel.T_OCTNUM => 8 | _ => 10 end in
  match LexModel.ty t with
  | LexModel.T_DECIMAL | LexModel.T_HEXNUM | LexModel.T_OCTNUM | LexModel.T_BINNUM =>
      (c1, true, [0; param_to_double_bits c1 t; 0; base])
  | LexModel.T_DECIMAL_SUFFIX =>
      let region := slice (mem c1) (LexModel.ptr t) (LexModel.len t) in
      let d := LexModel.lex_decimal region in
      let r1 := dropm region (LexModel.disp d) in
      let w := LexModel.lex_ws r1 in
      let r2 := dropm r1 (LexModel.disp w) in
      let sfx := LexModel.lex_suffix r2 in
      let stext := skip_isspace (firstn (Z.to_nat (LexModel.len (LexModel.tok sfx))) r2) in
      let v := param_to_double_bits c1 t in
      match stext with
      | [] => (c1, true, [0; v; 0; base])
      | _ => match unit_lookup stext with
             | Some (un,mult) => (c1, true, [0; NumDecode.mul64_bits v mult; un; base])
             | None => (error_push c1 (-131) None, false, [])
             end
      end
  | LexModel.T_MNEMONIC =>
      let '(c2, r, tag) := param_to_choice c1 t Generated.gen_specials in
      (c2, r, [1; tag; 0; base])
  | _ => (error_push c1 (-104) None, false, [])
  end))).
  { intro c. unfold param_number. destruct (parameter c m) as [[c1 ok] t]. reflexivity. }
  apply with_parameter. intros c1 ok t HW1 HT. destruct ok; cbn [negb]; [|split; [reflexivity|apply SW_refl]]. specialize (HT eq_refl).
  destruct (LexModel.ty t) eqn:Ety; try (errb (-104));
    try (rewrite param_to_double_ext by auto; split; [reflexivity|apply SW_refl]).
  - (* character data: MIN, MAX, ... *)
    destruct (param_to_choice_ext c1 t Generated.gen_specials HW1 HT) as [E S].
    destruct (param_to_choice c1 t Generated.gen_specials) as [[c2 r] v]. destruct (param_to_choice (ext c1) t Generated.gen_specials) as [[c2' r'] v'].
    cbn [pack3 fst snd] in *. injection E as -> -> ->. split; [reflexivity|exact S].
  - (* a number with a unit *)
    cbv zeta. rewrite (tok_slice c1 t) by (auto; lia). rewrite param_to_double_ext by auto.
    destruct (skip_isspace _); [split; [reflexivity|apply SW_refl]|].
    destruct (unit_lookup _) as [[un mult]|]; [split; [reflexivity|apply SW_refl]|errb (-131)].
Qed.

Lemma array_reader_local ty m : local (fun c => pack3 (array_reader ty c m)).
Proof.
  unfold array_reader. destruct (ty =? 13); [apply param_int_local|]. destruct (ty =? 14); [apply param_int_local|].
  destruct (ty =? 15); [apply param_int_local|]. destruct (ty =? 16); [apply param_int_local|].
  destruct (ty =? 17); apply param_fp_local.
Qed.
Lemma param_array_local ty n : forall m acc, local (fun c => pack3 (param_array n (array_reader ty) c m acc)).
Proof.
  induction n as [|n IH]; intros m acc c HW; [split; [reflexivity|apply SW_refl]|].
  cbn [param_array]. destruct (array_reader_local ty m c HW) as [E S].
  destruct (array_reader ty c m) as [[c1 ok] v]. destruct (array_reader ty (ext c) m) as [[c1' ok'] v'].
  cbn [pack3 fst snd] in E, S. injection E as -> -> ->.
  destruct ok; [|split; [reflexivity|exact S]].
  destruct (IH false (acc ++ [v]) c1 (W_SW _ _ HW S)) as [E2 S2]. split; [exact E2|eapply SW_trans; eassumption].
Qed.

Lemma expr_numlist_ext c t idx : W c -> TokOK c t ->
  expr_numlist (ext c) t idx = (ext (fst (expr_numlist c t idx)), snd (expr_numlist c t idx)) /\ SW c (fst (expr_numlist c t idx)).
Proof.
  intros HW HT. unfold expr_numlist. destruct (LexModel.ty t);
    try (cbn [fst snd]; rewrite (blind_ext (fun c => error_push c (-104) None)) by apply blind_error_push; split; [reflexivity|apply (blind_error_push (-104) None)]).
  rewrite (tok_slice c t) by (auto; lia).
  destruct (ExprModel.numlist_walk _ _ _ _ _) as [[[r isr] [fo fl]] [to tl_]]. cbn [fst snd].
  destruct r; try (split; [reflexivity|apply SW_refl]).
  rewrite (blind_ext (fun c => error_push c (-170) None)) by apply blind_error_push. split; [reflexivity|apply (blind_error_push (-170) None)].
Qed.
Lemma expr_chanlist_ext c t idx cap : W c -> TokOK c t ->
  expr_chanlist (ext c) t idx cap = (ext (fst (expr_chanlist c t idx cap)), snd (expr_chanlist c t idx cap)) /\ SW c (fst (expr_chanlist c t idx cap)).
Proof.
  intros HW HT. unfold expr_chanlist. destruct (LexModel.ty t);
    try (cbn [fst snd]; rewrite (blind_ext (fun c => error_push c (-104) None)) by apply blind_error_push; split; [reflexivity|apply (blind_error_push (-104) None)]).
  rewrite (tok_slice c t) by (auto; lia).
  destruct (ExprModel.chanlist_entry _ _ _) as [[[[[r isr] vf] vt] dims] nerr]. cbn [fst snd].
  destruct (0 <? nerr); [|split; [reflexivity|apply SW_refl]].
  rewrite (blind_ext (fun c => error_push c (-170) None)) by apply blind_error_push. split; [reflexivity|apply (blind_error_push (-170) None)].
Qed.

(* ---------- scripts ---------- *)
Variable d : Z -> bytes.

Ltac rd3 L c HW :=
  let E := fresh "E" in let S := fresh "S" in
  destruct (L c HW) as [E S];
  match type of E with pack3 ?X = _ => destruct X as [[? ?] ?] end;
  match type of E with _ = (ext (fst (pack3 ?X)), _) => destruct X as [[? ?] ?] end;
  cbn [pack3 fst snd] in E, S; injection E as -> -> ->;
  split; [reflexivity|eapply SW_trans; [exact S|apply (blind_ev _)]].
Ltac bl H := let E := fresh "E" in split; [match goal with c0 : ctx |- _ => pose proof (blind_ext _ c0 H) as E; cbv beta in E; rewrite E; reflexivity end|apply H].

Lemma step_local o c : W c -> step o (ext c) d = (ext (fst (step o c d)), snd (step o c d)) /\ SW c (fst (step o c d)).
Proof.
  intro HW. destruct o; cbn [step].
  - rd3 (param_int_local 32 true m) c HW.
  - rd3 (param_int_local 32 false m) c HW.
  - rd3 (param_int_local 64 true m) c HW.
  - rd3 (param_int_local 64 false m) c HW.
  - rd3 (param_bool_local m) c HW.
  - rd3 (param_choice_local m) c HW.
  - rd3 (param_chars_local m) c HW.
  - destruct (param_text_local buflen m c HW) as [E S].
    destruct (param_text c buflen m) as [[[c1 ok] v] nul]. destruct (param_text (ext c) buflen m) as [[[c1' ok'] v'] nul'].
    cbn [pack4 fst snd] in E, S. injection E as -> -> -> ->. split; [reflexivity|eapply SW_trans; [exact S|apply (blind_ev _)]].
  - rd3 (param_block_local m) c HW.
  - rd3 (param_fp_local true m) c HW.
  - rd3 (param_fp_local false m) c HW.
  - rd3 (param_number_local m) c HW.
  - cbn [fst snd]. bl (blind_result_int 32 v 10 true).
  - cbn [fst snd]. bl (blind_result_int 32 v base false).
  - cbn [fst snd]. bl (blind_result_int 64 v 10 true).
  - cbn [fst snd]. bl (blind_result_int 64 v base false).
  - cbn [fst snd]. bl (blind_result_int 32 (if b then 1 else 0) 10 false).
  - cbn [fst snd]. bl (blind_result_text t).
  - cbn [fst snd]. bl (blind_item [t]).
  - cbn [fst snd]. bl (blind_comp _ _ (blind_result_hdr (Z.of_nat (length d0))) (blind_result_data d0)).
  - cbn [fst snd]. bl (blind_result_hdr n).
  - cbn [fst snd]. bl (blind_result_data d0).
  - cbn [fst snd]. bl (blind_error_push code None).
  - change (cur (ext c)) with (cur c). destruct (cur c) as [[[pat tg] sc]|]; [|split; [reflexivity|apply SW_refl]].
    change (mem (ext c)) with (mem c ++ y). change (raw_off (ext c)) with (raw_off c). change (raw_len (ext c)) with (raw_len c).
    pose proof HW as (_ & _ & _ & _ & _ & _ & W7 & W8 & W9 & _). rewrite slice_app by lia.
    destruct (MatchModel.matchCommand _ _ _ _) as [r [a|]]; (split; [reflexivity|apply (blind_ev _)]).
  - unfold syst_err_parts. change (queue (ext c)) with (queue c). change (cmd_error (ext c)) with (cmd_error c). change (qma (ext c)) with (qma c).
    destruct (queue c) as [|[cd i] r]; cbn [fst snd].
    + bl (blind_comp _ _ (blind_comp _ _ (blind_upd_err (cmd_error c) [] (qma c)) blind_emit_empty) (blind_result_error 0 None (d 0))).
    + bl (blind_comp _ _ (blind_comp _ _ (blind_upd_err (cmd_error c) r (qma c)) blind_emit_empty) (blind_result_error cd i (d cd))).
  - split; [reflexivity|apply SW_refl].
  - cbn [fst snd]. bl (blind_result_int 32 v 10 true).
  - cbn [fst snd]. bl (blind_result_int 32 v base false).
  - cbn [fst snd]. bl (blind_result_int 32 v 10 true).
  - cbn [fst snd]. bl (blind_result_int 32 v base false).
  - cbn [fst snd]. bl (blind_item [cstr (length t) t]).
  - cbn [fst snd]. bl (blind_item [bz (GFmt.fmt_double 15 bits)]).
  - cbn [fst snd]. bl (blind_item [bz (GFmt.fmt_float 6 bits)]).
  - change (cur (ext c)) with (cur c). destruct (cur c) as [[[pat tg] sc]|]; [|split; [reflexivity|apply (blind_ev _)]].
    destruct (MatchModel.matchCommand _ _ _ _) as [r o]. split; [reflexivity|apply (blind_ev _)].
  - cbn [fst snd]. bl (blind_result_array size fmt vals).
  - rd3 (param_array_local ty (Z.to_nat cap) m []) c HW.
  - apply (with_parameter (fun c1 ok t => if ok then let '(c2, rep) := expr_numlist c1 t idx in (ev c2 (EvP 19 true rep), true)
                                          else (ev c1 (EvP 19 false []), after_read c1 false m)) m); [|exact HW].
    intros c1 ok t HW1 HT. destruct ok; [|split; [reflexivity|apply (blind_ev _)]].
    destruct (expr_numlist_ext c1 t idx HW1 (HT eq_refl)) as [E S]. rewrite E. destruct (expr_numlist c1 t idx) as [c2 rep]. cbn [fst snd] in *.
    split; [reflexivity|eapply SW_trans; [exact S|apply (blind_ev _)]].
  - apply (with_parameter (fun c1 ok t => if ok then let '(c2, rep) := expr_chanlist c1 t idx cap in (ev c2 (EvP 20 true rep), true)
                                          else (ev c1 (EvP 20 false []), after_read c1 false m)) m); [|exact HW].
    intros c1 ok t HW1 HT. destruct ok; [|split; [reflexivity|apply (blind_ev _)]].
    destruct (expr_chanlist_ext c1 t idx cap HW1 (HT eq_refl)) as [E S]. rewrite E. destruct (expr_chanlist c1 t idx cap) as [c2 rep]. cbn [fst snd] in *.
    split; [reflexivity|eapply SW_trans; [exact S|apply (blind_ev _)]].
Qed.

Lemma run_script_local s : forall c, W c ->
  run_script s (ext c) d = (ext (fst (run_script s c d)), snd (run_script s c d)) /\ SW c (fst (run_script s c d)).
Proof.
  induction s as [|o rest IH]; intros c HW; [split; [reflexivity|apply SW_refl]|].
  rewrite !run_script_cons. destruct (step_local o c HW) as [E S]. rewrite E.
  destruct (step o c d) as [c' go]. cbn [fst snd] in *. destruct go; [|split; [reflexivity|exact S]].
  destruct (IH c' (W_SW _ _ HW S)) as [E2 S2]. split; [exact E2|eapply SW_trans; eassumption].
Qed.

Lemma process_command_local c : W c ->
  process_command (ext c) d = (ext (fst (process_command c d)), snd (process_command c d)) /\ SW c (fst (process_command c d)).
Proof.
  intro HW. unfold process_command. change (cur (ext c)) with (cur c).
  destruct (cur c) as [[[pat tag] script]|]; [|split; [reflexivity|apply SW_refl]]. cbv zeta.
  pose proof (blind_upd_flags false 0 0 0) as B1. rewrite (blind_ext _ c B1).
  set (c1 := upd_flags c false 0 0 0). assert (S1 : SW c c1) by apply B1. assert (HW1 : W c1) by (eapply W_SW; eassumption).
  change (mem (ext c1)) with (mem c1 ++ y). change (raw_off (ext c1)) with (raw_off c1). change (raw_len (ext c1)) with (raw_len c1).
  pose proof HW1 as (_ & _ & _ & _ & _ & _ & W7 & W8 & W9 & _). rewrite slice_app by lia.
  set (e := EvH tag (slice (mem c1) (raw_off c1) (raw_len c1))).
  change (ev (ext c1) e) with (ext (ev c1 e)). set (c2 := ev c1 e).
  assert (S2 : SW c c2) by (eapply SW_trans; [exact S1|apply (blind_ev e)]). assert (HW2 : W c2) by (eapply W_SW; eassumption).
  destruct (run_script_local script c2 HW2) as [E3 S3]. rewrite E3. destruct (run_script script c2 d) as [c3 okret]. cbn [fst snd] in *.
  assert (S3' : SW c c3) by exact (SW_trans _ _ _ S2 S3).
  change (cmd_error (ext c3)) with (cmd_error c3).
  set (p4 := if negb okret then _ else _).
  assert (H4 : exists c4 result, p4 = (ext c4, result) /\
     (if negb okret then ((if negb (cmd_error c3) then error_push c3 (-200) None else c3), false)
      else if cmd_error c3 then (c3, false) else (c3, true)) = (c4, result) /\ SW c c4).
  { subst p4. destruct okret; cbn [negb].
    - destruct (cmd_error c3); eexists; eexists; (split; [reflexivity|split; [reflexivity|exact S3']]).
    - destruct (cmd_error c3); cbn [negb].
      + eexists; eexists; (split; [reflexivity|split; [reflexivity|exact S3']]).
      + rewrite (blind_ext _ c3 (blind_error_push (-200) None)). eexists; eexists. split; [reflexivity|]. split; [reflexivity|].
        eapply SW_trans; [exact S3'|apply (blind_error_push (-200) None)]. }
  destruct H4 as (c4 & result & -> & -> & S4).
  change (output_count (ext c4)) with (output_count c4). change (arb_rem (ext c4)) with (arb_rem c4).
  set (c5 := if 0 <? output_count c4 then upd_out c4 false (output_count c4) (arb_rem c4) else c4).
  assert (E5 : (if 0 <? output_count c4 then upd_out (ext c4) false (output_count c4) (arb_rem c4) else ext c4) = ext c5)
    by (subst c5; destruct (0 <? output_count c4); reflexivity).
  rewrite E5. assert (S5 : SW c c5) by (subst c5; destruct (0 <? output_count c4); [eapply SW_trans; [exact S4|apply (blind_upd_out false _ _)]|exact S4]).
  change (pd_pos (ext c5)) with (pd_pos c5). change (pd_len (ext c5)) with (pd_len c5). change (cmd_error (ext c5)) with (cmd_error c5).
  destruct (_ && _); cbn [fst snd].
  - rewrite (blind_ext _ c5 (blind_error_push (-108) None)). split; [reflexivity|eapply SW_trans; [exact S5|apply (blind_error_push (-108) None)]].
  - split; [reflexivity|exact S5].
Qed.

(* ---------- one unit of the message ---------- *)
Definition Wm (c:ctx) : Prop :=
  0 <= L < Z.of_nat (length (mem c)) /\ getm (mem c) L = tL /\
  (forall i, 0 <= i < L -> getm (mem c) i <> 10%N /\ getm (mem c) i <> 13%N).
Definition PrevOK (off:Z) (prev:option (Z*Z)) : Prop :=
  match prev with Some (hp, hl) => 0 <= hp /\ 0 < hl /\ hp + hl <= off | None => True end.
Lemma Wm_SW c c' : Wm c -> SW c c' -> Wm c'.
Proof. unfold Wm, SW. intros H (A1 & _). rewrite A1. exact H. Qed.
Lemma W_Wm c : W c -> Wm c.
Proof. intros (H1 & H2 & H3 & _). exact (conj H1 (conj H2 H3)). Qed.

Lemma error_push_text c code t t' n :
  (let n' := if n =? 0 then Z.of_nat (length (cstr 255 t)) else n in cstr (Z.to_nat n') t) =
  (let n' := if n =? 0 then Z.of_nat (length (cstr 255 t')) else n in cstr (Z.to_nat n') t') ->
  error_push c code (Some (t, n)) = error_push c code (Some (t', n)).
Proof. intro H. unfold error_push. cbv zeta in H. rewrite H. reflexivity. Qed.

Lemma slice_one (m:bytes) i : 0 <= i < Z.of_nat (length m) -> slice m i 1 = [getm m i].
Proof.
  intro H. destruct (Dispatch.getm_slice m i 1 ltac:(lia) ltac:(lia) ltac:(lia)) as (x & r & E & Ex).
  pose proof (Dispatch.slice_length m i 1 ltac:(lia) ltac:(lia) ltac:(lia)) as Hl. rewrite E in Hl. cbn in Hl.
  destruct r; [|cbn in Hl; lia]. rewrite E, Ex. reflexivity.
Qed.

Lemma loop_body_local c off len prev result : Wm c -> 0 <= off -> 1 <= len -> off + len = L + 1 -> PrevOK off prev ->
  loop_body (ext c) off len prev result d =
    (let '(c1, prev1, result1, r) := loop_body c off len prev result d in (ext c1, prev1, result1, r)) /\
  Wm (fst (fst (fst (loop_body c off len prev result d)))).
Proof.
  intros HWm Hoff Hlen Hwin Hprev. pose proof HWm as (M1 & M2 & M3).
  unfold loop_body. change (mem (ext c)) with (mem c ++ y). rewrite slice_app by lia. cbv zeta.
  assert (Hsl : length (slice (mem c) off len) = Z.to_nat len) by (apply Dispatch.slice_length; lia).
  pose proof (Dispatch.consumed_bounds (slice (mem c) off len)) as Hr. rewrite Hsl in Hr.
  pose proof (UnitGeom.header_inside_unit (slice (mem c) off len)) as Hg. cbv zeta in Hg.
  pose proof (LexTok.data_inside_unit (slice (mem c) off len)) as Hdat. cbv zeta in Hdat. unfold LexModel.bytes, LexModel.byte in Hdat. rewrite Hsl in Hdat.
  set (u := LexModel.detect_unit (slice (mem c) off len)) in *. set (r := LexModel.u_consumed u) in *. set (h := LexModel.u_hdr u) in *.
  assert (Hmain : LexModel.ty h <> LexModel.T_INVALID ->
    (let '(c1, prev1, result1) :=
        if 0 <? LexModel.len h then
          let '(m1, hp, hl) := compose (mem c ++ y) prev (off + LexModel.ptr h) (LexModel.len h) in
          let c' := upd_mem (ext c) m1 in
          match find_cmd c' (slice m1 hp hl) with
          | Some e =>
              let dd := LexModel.u_data u in
              let c'' := upd_unit c' e (off + LexModel.ptr dd) (LexModel.len dd) hp hl in
              let '(c3, res) := process_command c'' d in
              (c3, Some (hp, hl), result && res)
          | None =>
              let r2 := trim_crlf m1 off (Z.to_nat r) in
              (error_push c' (-113) (Some (dropm m1 off, r2)), Some (hp, hl), false)
          end
        else (ext c, prev, result) in (c1, prev1, result1, r)) =
    (let '(c1, prev1, result1, r0) :=
       (let '(c1, prev1, result1) :=
        if 0 <? LexModel.len h then
          let '(m1, hp, hl) := compose (mem c) prev (off + LexModel.ptr h) (LexModel.len h) in
          let c' := upd_mem c m1 in
          match find_cmd c' (slice m1 hp hl) with
          | Some e =>
              let dd := LexModel.u_data u in
              let c'' := upd_unit c' e (off + LexModel.ptr dd) (LexModel.len dd) hp hl in
              let '(c3, res) := process_command c'' d in
              (c3, Some (hp, hl), result && res)
          | None =>
              let r2 := trim_crlf m1 off (Z.to_nat r) in
              (error_push c' (-113) (Some (dropm m1 off, r2)), Some (hp, hl), false)
          end
        else (c, prev, result) in (c1, prev1, result1, r)) in (ext c1, prev1, result1, r0)) /\
    Wm (fst (fst (fst (let '(c1, prev1, result1) :=
        if 0 <? LexModel.len h then
          let '(m1, hp, hl) := compose (mem c) prev (off + LexModel.ptr h) (LexModel.len h) in
          let c' := upd_mem c m1 in
          match find_cmd c' (slice m1 hp hl) with
          | Some e =>
              let dd := LexModel.u_data u in
              let c'' := upd_unit c' e (off + LexModel.ptr dd) (LexModel.len dd) hp hl in
              let '(c3, res) := process_command c'' d in
              (c3, Some (hp, hl), result && res)
          | None =>
              let r2 := trim_crlf m1 off (Z.to_nat r) in
              (error_push c' (-113) (Some (dropm m1 off, r2)), Some (hp, hl), false)
          end
        else (c, prev, result) in (c1, prev1, result1, r)))))).
  { intro Hty. specialize (Hg Hty). destruct Hg as (G1 & G2 & G3).
    destruct (Z.ltb_spec 0 (LexModel.len h)) as [Hhl|Hhl]; [|split; [reflexivity|exact HWm]].
    (* the unit does not start at the line feed *)
    assert (HoffL : off < L).
    { destruct (Z.eq_dec off L) as [->|]; [|lia]. exfalso. assert (len = 1) by lia. subst len.
      assert (Es : slice (mem c) L 1 = [tL]) by (rewrite slice_one by lia; rewrite M2; reflexivity).
      subst h u. rewrite Es in Hhl. destruct HtL as [EtL|EtL]; rewrite EtL in Hhl; vm_compute in Hhl; discriminate. }
    set (cptr := off + LexModel.ptr h) in *. set (clen := LexModel.len h) in *.
    (* composition: the same bytes, y behind them *)
    assert (Hc : exists m1 hp hl, compose (mem c) prev cptr clen = (m1, hp, hl) /\ compose (mem c ++ y) prev cptr clen = (m1 ++ y, hp, hl) /\
               length m1 = length (mem c) /\ 0 <= hp /\ 0 < hl /\ hp + hl = cptr + clen /\
               (forall j, 0 <= j -> (cptr <= j -> getm m1 j = getm (mem c) j) /\ (j < cptr -> exists j', 0 <= j' < cptr /\ getm m1 j = getm (mem c) j'))).
    { destruct prev as [[pptr plen]|].
      - destruct Hprev as (P1 & P2 & P3).
        pose proof (compose_app (mem c) y pptr plen cptr clen P1 ltac:(lia) ltac:(lia) Hhl ltac:(lia)) as Ea.
        pose proof (Dispatch.compose_spec (mem c) pptr plen cptr clen P1 ltac:(lia) ltac:(lia) Hhl ltac:(lia)) as Es.
        pose proof (compose_bytes (mem c) pptr plen cptr clen P1 ltac:(lia) ltac:(lia) Hhl ltac:(lia)) as Eb. cbv zeta in Eb.
        destruct (compose (mem c) (Some (pptr, plen)) cptr clen) as [[m1 hp] hl]. cbn [fst] in Eb. destruct Es as (_ & S2 & _ & S4 & S5 & S6).
        exists m1, hp, hl. repeat split; try assumption; try lia; apply Eb; assumption.
      - exists (mem c), cptr, clen. cbn [compose]. split; [reflexivity|]. split; [reflexivity|]. split; [reflexivity|]. split; [lia|]. split; [lia|]. split; [lia|].
        intros j Hj. split; [reflexivity|]. intro. exists j. split; [lia|reflexivity]. }
    destruct Hc as (m1 & hp & hl & Ec & Ecy & Hl1 & Hp0 & Hl0 & Hsum & Hb). rewrite Ec, Ecy. cbv zeta.
    change (upd_mem (ext c) (m1 ++ y)) with (ext (upd_mem c m1)). set (c' := upd_mem c m1).
    rewrite slice_app by lia.
    (* the buffer after composition still has the line feed at L and none before *)
    assert (HWm' : Wm c').
    { unfold Wm. subst c'. cbn [mem upd_mem]. rewrite Hl1. split; [exact M1|]. split.
      - destruct (Hb L ltac:(lia)) as [Hge _]. rewrite Hge by lia. exact M2.
      - intros i Hi. destruct (Z.le_gt_cases cptr i) as [Hge|Hlt].
        + destruct (Hb i ltac:(lia)) as [E _]. rewrite E by lia. apply M3, Hi.
        + destruct (Hb i ltac:(lia)) as [_ E]. destruct (E Hlt) as (j' & Hj' & ->). apply M3. lia. }
    change (find_cmd (ext c') (slice m1 hp hl)) with (find_cmd c' (slice m1 hp hl)).
    destruct (find_cmd c' (slice m1 hp hl)) as [e|].
    - set (dd := LexModel.u_data u) in *.
      change (upd_unit (ext c') e (off + LexModel.ptr dd) (LexModel.len dd) hp hl) with (ext (upd_unit c' e (off + LexModel.ptr dd) (LexModel.len dd) hp hl)).
      set (c'' := upd_unit c' e (off + LexModel.ptr dd) (LexModel.len dd) hp hl).
      assert (HW'' : W c'').
      { destruct HWm' as (N1 & N2 & N3). unfold W. subst c''. cbn [mem pd_off pd_len raw_off raw_len pd_pos upd_unit].
        split; [exact N1|]. split; [exact N2|]. split; [exact N3|]. split; [lia|]. split; [lia|]. split; [lia|]. split; [exact Hp0|]. split; [lia|].
        split; [subst c'; cbn [mem upd_mem]; lia|lia]. }
      destruct (process_command_local c'' HW'') as [E3 S3]. rewrite E3. destruct (process_command c'' d) as [c3 res]. cbn [fst snd] in *.
      split; [reflexivity|]. apply (Wm_SW c''); [apply W_Wm, HW''|exact S3].
    - cbv zeta. subst c'. rewrite trim_crlf_app by lia.
      assert (Hr2 : 1 <= trim_crlf m1 off (Z.to_nat r)).
      { destruct HWm' as (_ & _ & N3). cbn [mem upd_mem] in N3. destruct (N3 off ltac:(lia)) as [A B].
        apply trim_crlf_pos; try assumption.
        assert (1 <= r) by (subst r u; apply (proj2 (UnitProgress.detect_progress _)); intro E; rewrite E in Hsl; cbn in Hsl; lia). lia. }
      set (r2 := trim_crlf m1 off (Z.to_nat r)) in *.
      assert (Hr2le : r2 <= r).
      { assert (G : forall k, trim_crlf m1 off k <= Z.of_nat k).
        { induction k as [|k IH]; [cbn; lia|]. cbn [trim_crlf]. destruct (_ || _)%bool; lia. }
        subst r2. specialize (G (Z.to_nat r)). lia. }
      rewrite dropm_app by lia.
      rewrite (error_push_text (ext (upd_mem c m1)) (-113) (dropm m1 off ++ y) (dropm m1 off) r2).
      2:{ cbv zeta. destruct (Z.eqb_spec r2 0); [lia|]. apply cstr_app. unfold dropm. rewrite skipn_length. lia. }
      rewrite (blind_ext _ (upd_mem c m1) (blind_error_push (-113) (Some (dropm m1 off, r2)))).
      split; [reflexivity|]. cbn [fst]. apply (Wm_SW (upd_mem c m1)); [exact HWm'|apply (blind_error_push (-113) (Some (dropm m1 off, r2)))].
  }
  destruct (LexModel.ty h) eqn:Ety; try (apply Hmain; discriminate).
  rewrite (blind_ext _ c (blind_error_push (-101) None)). split; [reflexivity|]. cbn [fst].
  apply (Wm_SW c); [exact HWm|apply (blind_error_push (-101) None)].
Qed.

(* ---------- the message ---------- *)
Lemma parse_loop_local fuel : forall c off len prev result, Wm c -> 0 <= off -> 1 <= len -> off + len = L + 1 -> PrevOK off prev ->
  parse_loop fuel (ext c) off len prev result d = (let '(c1, r) := parse_loop fuel c off len prev result d in (ext c1, r)).
Proof.
  induction fuel as [|f IH]; intros c off len prev result HWm Hoff Hlen Hwin Hprev; [reflexivity|].
  rewrite !parse_loop_S. destruct (loop_body_local c off len prev result HWm Hoff Hlen Hwin Hprev) as [E HW1]. rewrite E.
  pose proof HWm as (M1 & _).
  pose proof (Fuel.body_length c off len prev result d Hoff ltac:(lia) ltac:(lia) Hprev) as Hb.
  assert (Hsl : length (slice (mem c) off len) = Z.to_nat len) by (apply Dispatch.slice_length; lia).
  pose proof (Dispatch.consumed_bounds (slice (mem c) off len)) as Hr. rewrite Hsl in Hr.
  destruct (loop_body c off len prev result d) as [[[c1 prev1] result1] r]. cbn [fst] in HW1. destruct Hb as (-> & Hl & Hp1).
  set (r := LexModel.u_consumed (LexModel.detect_unit (slice (mem c) off len))) in *.
  destruct (Z.ltb_spec r len); [|reflexivity].
  apply IH; try lia; assumption.
Qed.

Theorem scpi_parse_local c : Wm c -> scpi_parse (ext c) (L + 1) d = (let '(c1, r) := scpi_parse c (L + 1) d in (ext c1, r)).
Proof.
  intro HWm. pose proof HWm as (M1 & _). unfold scpi_parse.
  change (upd_out (ext c) true 0 (arb_rem (ext c))) with (ext (upd_out c true 0 (arb_rem c))).
  rewrite (parse_loop_local (S (Z.to_nat (L + 1))) (upd_out c true 0 (arb_rem c)) 0 (L + 1) None true) by (try exact I; try lia; exact HWm).
  destruct (parse_loop (S (Z.to_nat (L + 1))) (upd_out c true 0 (arb_rem c)) 0 (L + 1) None true d) as [c1 res].
  change (first_output (ext c1)) with (first_output c1). destruct (negb (first_output c1)); reflexivity.
Qed.
End Local.
Print Assumptions scpi_parse_local.
