(* C05 -- property theorems only: every statement is closed by `exact` on a lemma proved elsewhere.
   Statements are pinned by coq/statements/C05.json; ./check compares. *)
From Coq Require Import Bool List NArith ZArith Lia.
From M Require ParamErr.
From M Require ListWs.
From M Require Tie.
From M Require ParamList.
From M Require ArrayRoundTrip.
From M Require ArrayReaders.
From M Require EndToEnd.
From M Require ParamBounds.
From M Require ArrayRoundTrip64.
From M Require ArrayRoundTrip.
From M Require DecSpec.
From M Require HdrSpec.
From M Require LexBounds.
From M Require LexModel.
From M Require ListWs.
From M Require MoreSpecs.
From M Require NumList.
From M Require ParamList.
From M Require ParserModel.
From M Require SimpleSpecs.
From M Require UnitFull.
From M Require UnitSpec.
Import ListNotations.

Module T_param_bool_fail. Import ParamErr. Local Open Scope bool_scope. Local Open Scope Z_scope.
Import ParserModel. Local Open Scope Z_scope.
Theorem C05_param_bool_fail :
  forall c m c1 v,
  param_bool c m = (c1, false, v) -> why c c1 m.
Proof. exact (@ParamErr.param_bool_fail). Qed.
End T_param_bool_fail.
Definition C05_param_bool_fail := @T_param_bool_fail.C05_param_bool_fail.

Module T_param_choice_fail. Import ParamErr. Local Open Scope bool_scope. Local Open Scope Z_scope.
Import ParserModel. Local Open Scope Z_scope.
Theorem C05_param_choice_fail :
  forall c m c1 v,
  param_choice c m = (c1, false, v) -> why c c1 m.
Proof. exact (@ParamErr.param_choice_fail). Qed.
End T_param_choice_fail.
Definition C05_param_choice_fail := @T_param_choice_fail.C05_param_choice_fail.

Module T_param_chars_fail. Import ParamErr. Local Open Scope bool_scope. Local Open Scope Z_scope.
Import ParserModel. Local Open Scope Z_scope.
Theorem C05_param_chars_fail :
  forall c m c1 v,
  param_chars c m = (c1, false, v) -> why c c1 m.
Proof. exact (@ParamErr.param_chars_fail). Qed.
End T_param_chars_fail.
Definition C05_param_chars_fail := @T_param_chars_fail.C05_param_chars_fail.

Module T_param_text_fail. Import ParamErr. Local Open Scope bool_scope. Local Open Scope Z_scope.
Import ParserModel. Local Open Scope Z_scope.
Theorem C05_param_text_fail :
  forall c b m c1 v nul,
  param_text c b m = (c1, false, v, nul) -> why c c1 m.
Proof. exact (@ParamErr.param_text_fail). Qed.
End T_param_text_fail.
Definition C05_param_text_fail := @T_param_text_fail.C05_param_text_fail.

Module T_param_block_fail. Import ParamErr. Local Open Scope bool_scope. Local Open Scope Z_scope.
Import ParserModel. Local Open Scope Z_scope.
Theorem C05_param_block_fail :
  forall c m c1 v,
  param_block c m = (c1, false, v) -> why c c1 m.
Proof. exact (@ParamErr.param_block_fail). Qed.
End T_param_block_fail.
Definition C05_param_block_fail := @T_param_block_fail.C05_param_block_fail.

Module T_param_fp_fail. Import ParamErr. Local Open Scope bool_scope. Local Open Scope Z_scope.
Import ParserModel. Local Open Scope Z_scope.
Theorem C05_param_fp_fail :
  forall c dbl m c1 v,
  param_fp c dbl m = (c1, false, v) -> why c c1 m.
Proof. exact (@ParamErr.param_fp_fail). Qed.
End T_param_fp_fail.
Definition C05_param_fp_fail := @T_param_fp_fail.C05_param_fp_fail.

Module T_param_number_fail. Import ParamErr. Local Open Scope bool_scope. Local Open Scope Z_scope.
Import ParserModel. Local Open Scope Z_scope.
Theorem C05_param_number_fail :
  forall c m c1 v,
  param_number c m = (c1, false, v) -> why c c1 m.
Proof. exact (@ParamErr.param_number_fail). Qed.
End T_param_number_fail.
Definition C05_param_number_fail := @T_param_number_fail.C05_param_number_fail.

Module T_param_int_fail. Import ParamErr. Local Open Scope bool_scope. Local Open Scope Z_scope.
Import ParserModel. Local Open Scope Z_scope.
Theorem C05_param_int_fail :
  forall c w s m c1 v,
  param_int c w s m = (c1, false, v) ->
  why c c1 m \/ (exists t, parameter c m = (c1, true, t) /\ is_number (LexModel.ty t) false = true /\ fst (param_to_int c1 t w s) = false).
Proof. exact (@ParamErr.param_int_fail). Qed.
End T_param_int_fail.
Definition C05_param_int_fail := @T_param_int_fail.C05_param_int_fail.

Module T_unit_fail_silent. Import ParamErr. Local Open Scope bool_scope. Local Open Scope Z_scope.
Import ParserModel. Local Open Scope Z_scope.
Theorem C05_unit_fail_silent :
  forall c d pat tag script c3,
  cur c = Some (pat, tag, script) ->
  run_script script (unit_start c tag) d = (c3, false) -> cmd_error c3 = false ->
  process_command c d = (flagged (error_push c3 (-200) None), false).
Proof. exact (@ParamErr.unit_fail_silent). Qed.
End T_unit_fail_silent.
Definition C05_unit_fail_silent := @T_unit_fail_silent.C05_unit_fail_silent.

Module T_unit_fail_reported. Import ParamErr. Local Open Scope bool_scope. Local Open Scope Z_scope.
Import ParserModel. Local Open Scope Z_scope.
Theorem C05_unit_fail_reported :
  forall c d pat tag script c3,
  cur c = Some (pat, tag, script) ->
  run_script script (unit_start c tag) d = (c3, false) -> cmd_error c3 = true ->
  process_command c d = (flagged c3, false).
Proof. exact (@ParamErr.unit_fail_reported). Qed.
End T_unit_fail_reported.
Definition C05_unit_fail_reported := @T_unit_fail_reported.C05_unit_fail_reported.

Module T_unit_unread. Import ParamErr. Local Open Scope bool_scope. Local Open Scope Z_scope.
Import ParserModel. Local Open Scope Z_scope.
Theorem C05_unit_unread :
  forall c d pat tag script c3,
  cur c = Some (pat, tag, script) ->
  run_script script (unit_start c tag) d = (c3, true) -> cmd_error c3 = false -> pd_pos c3 < pd_len c3 ->
  process_command c d = (error_push (flagged c3) (-108) None, false).
Proof. exact (@ParamErr.unit_unread). Qed.
End T_unit_unread.
Definition C05_unit_unread := @T_unit_unread.C05_unit_unread.

Module T_unit_clean. Import ParamErr. Local Open Scope bool_scope. Local Open Scope Z_scope.
Import ParserModel. Local Open Scope Z_scope.
Theorem C05_unit_clean :
  forall c d pat tag script c3,
  cur c = Some (pat, tag, script) ->
  run_script script (unit_start c tag) d = (c3, true) -> cmd_error c3 = false -> pd_len c3 <= pd_pos c3 ->
  process_command c d = (flagged c3, true).
Proof. exact (@ParamErr.unit_clean). Qed.
End T_unit_clean.
Definition C05_unit_clean := @T_unit_clean.C05_unit_clean.

Module T_ppd_decimal. Import ListWs. Local Open Scope bool_scope. Local Open Scope Z_scope.
Import LexModel LexBounds DecSpec MoreSpecs NumList SimpleSpecs. Local Open Scope Z_scope.
Theorem C05_ppd_decimal :
  forall w0 a w1 rest,
  all isws w0 -> Dec a -> all isws w1 -> item_stop rest ->
  let r := parse_program_data (w0 ++ a ++ w1 ++ rest) in
  ty (tok r) = T_DECIMAL /\ ptr (tok r) = Z.of_nat (length w0) /\ len (tok r) = Z.of_nat (length a) /\
  ret r = Z.of_nat (length w0) + Z.of_nat (length a) + Z.of_nat (length w1) /\
  disp r = Z.of_nat (length w0) + Z.of_nat (length a) + Z.of_nat (length w1).
Proof. exact (@ListWs.ppd_decimal). Qed.
End T_ppd_decimal.
Definition C05_ppd_decimal := @T_ppd_decimal.C05_ppd_decimal.

Module T_all_data_list. Import ListWs. Local Open Scope bool_scope. Local Open Scope Z_scope.
Import LexModel LexBounds DecSpec MoreSpecs NumList SimpleSpecs. Local Open Scope Z_scope.
Theorem C05_all_data_list :
  forall items fuel l pos tlen count rest, Forall item_ok items -> items <> [] ->
  item_stop rest -> starts (ischr 44%N) rest = false -> 0 <= pos ->
  drop pos l = list_text items ++ rest -> (length items < fuel)%nat ->
  all_data_loop fuel l pos tlen count =
  {| ad_ty := T_ALL_DATA; ad_len := tlen + Z.of_nat (length (list_text items));
     ad_n := count + Z.of_nat (length items); ad_disp := pos + Z.of_nat (length (list_text items)) |}.
Proof. exact (@ListWs.all_data_list). Qed.
End T_all_data_list.
Definition C05_all_data_list := @T_all_data_list.C05_all_data_list.

Module T_tie_bool_names. Import Tie. Local Open Scope bool_scope. Local Open Scope Z_scope.
Local Open Scope Z_scope.
Theorem C05_tie_bool_names :
  ParserModel.bool_def = Generated.gen_bool_def.
Proof. exact (@Tie.tie_bool_names). Qed.
End T_tie_bool_names.
Definition C05_tie_bool_names := @T_tie_bool_names.C05_tie_bool_names.

Module T_parameter_item. Import ParamList. Local Open Scope bool_scope. Local Open Scope Z_scope.
Import LexModel LexBounds DecSpec MoreSpecs NumList SimpleSpecs ListWs ParserModel. Local Open Scope Z_scope.
Local Open Scope Z_scope.
Theorem C05_parameter_item :
  forall items k w0 a w1 c m,
  Forall item_ok items -> nth_error items k = Some (w0, a, w1) -> at_item c items k ->
  exists c', parameter c m = (c', true, {| ty := T_DECIMAL; ptr := pd_off c + item_off items k + Z.of_nat (length w0); len := Z.of_nat (length a) |}) /\
             at_item c' items (S k) /\ c' = upd_in c (Z.of_nat (S k)) (item_off items (S k) - 1).
Proof. exact (@ParamList.parameter_item). Qed.
End T_parameter_item.
Definition C05_parameter_item := @T_parameter_item.C05_parameter_item.

Module T_read_uint_array. Import ArrayRoundTrip. Local Open Scope bool_scope. Local Open Scope Z_scope.
Import LexModel LexBounds DecSpec MoreSpecs NumList SimpleSpecs ListWs ParserModel ParamList. Local Open Scope Z_scope.
Local Open Scope Z_scope.
Theorem C05_read_uint_array :
  forall items n c m,
  Forall uint_item items -> items <> [] -> at_item c items 0 -> tail_ok c -> n <> O ->
  exists c', param_array n (array_reader 14) c m [] = (c', false, map value_of (firstn n items)) /\ (exists ic pos, c' = upd_in c ic pos) /\
             at_item c' items (Nat.min n (length items)).
Proof. exact (@ArrayRoundTrip.read_uint_array). Qed.
End T_read_uint_array.
Definition C05_read_uint_array := @T_read_uint_array.C05_read_uint_array.

Module T_array_reader_result. Import ArrayReaders. Local Open Scope bool_scope. Local Open Scope Z_scope.
Import ParserModel. Local Open Scope Z_scope.
Local Open Scope Z_scope.
Theorem C05_array_reader_result :
  forall ty cap c m,
  let '(c1, m1, vals) := param_array (Z.to_nat cap) (array_reader ty) c m [] in
  negb m1 = negb m || (negb (Z.to_nat cap =? 0)%nat && snd (fst (array_reader ty c m))).
Proof. exact (@ArrayReaders.array_reader_result). Qed.
End T_array_reader_result.
Definition C05_array_reader_result := @T_array_reader_result.C05_array_reader_result.

Module T_message_reads_array. Import EndToEnd. Local Open Scope bool_scope. Local Open Scope Z_scope.
Import LexModel LexBounds DecSpec MoreSpecs NumList SimpleSpecs ListWs HdrSpec UnitSpec UnitFull ParserModel ParamList ArrayRoundTrip. Local Open Scope Z_scope.
Local Open Scope Z_scope.
Theorem C05_message_reads_array :
  forall c d lead m1 ms (q:bool) ws1 items hdr l pat tag cap m,
  Mnem m1 -> Forall Mnem ms -> ws1 <> [] -> all isws ws1 -> Forall uint_item items -> items <> [] -> first_tight items ->
  hdr = header_text lead m1 ms ++ (if q then [63%N] else []) ->
  l = hdr ++ ws1 ++ list_text items ++ [10%N] ->
  mem c = l -> find_cmd c hdr = Some (pat, tag, [PARR 14 cap m]) -> (length items <= Z.to_nat cap)%nat ->
  exists c', scpi_parse c (Z.of_nat (length l)) d = (c', true) /\
    trace c' = EvP 14 true (map value_of items) :: EvH tag hdr :: trace c /\ queue c' = queue c /\ mem c' = mem c.
Proof. exact (@EndToEnd.message_reads_array). Qed.
End T_message_reads_array.
Definition C05_message_reads_array := @T_message_reads_array.C05_message_reads_array.

Module T_parameter_window. Import ParamBounds. Local Open Scope bool_scope. Local Open Scope Z_scope.
Import ParserModel. Local Open Scope Z_scope.
Theorem C05_parameter_window :
  forall c m,
  window_ok c ->
  window_ok (fst (fst (parameter c m))) /\
  (snd (fst (parameter c m)) = true ->
   let t := snd (parameter c m) in
   pd_off c <= LexModel.ptr t /\ 0 <= LexModel.len t /\ LexModel.ptr t + LexModel.len t <= pd_off c + pd_len c).
Proof. exact (@ParamBounds.parameter_window). Qed.
End T_parameter_window.
Definition C05_parameter_window := @T_parameter_window.C05_parameter_window.

Module T_read_uint_array64. Import ArrayRoundTrip64. Local Open Scope bool_scope. Local Open Scope Z_scope.
Import LexModel LexBounds DecSpec MoreSpecs NumList SimpleSpecs ListWs ParserModel ParamList. Local Open Scope Z_scope.
Local Open Scope Z_scope.
Theorem C05_read_uint_array64 :
  forall items n c m,
  Forall uint_item64 items -> items <> [] -> at_item c items 0 -> tail_ok64 c -> n <> O ->
  exists c', param_array n (array_reader 16) c m [] = (c', false, map value_of64 (firstn n items)) /\ (exists ic pos, c' = upd_in c ic pos) /\
             at_item c' items (Nat.min n (length items)).
Proof. exact (@ArrayRoundTrip64.read_uint_array64). Qed.
End T_read_uint_array64.
Definition C05_read_uint_array64 := @T_read_uint_array64.C05_read_uint_array64.

