(* C11 on the register model with the enable-propagation fix *)
From Coq Require Import Bool List NArith ZArith Lia.
From M Require Import RegModel.
Import ListNotations.
Local Open Scope N_scope.
Local Open Scope bool_scope.

(* ---------- bit facts ---------- *)
Lemma tb_lor_pow2 a k j : N.testbit (N.lor a (2^k)) j = (j =? k) || N.testbit a j.
Proof. rewrite N.lor_spec, N.pow2_bits_eqb, orb_comm. f_equal. apply N.eqb_sym. Qed.
Lemma tb_ldiff_pow2 a k j : N.testbit (N.ldiff a (2^k)) j = negb (j =? k) && N.testbit a j.
Proof. rewrite N.ldiff_spec, N.pow2_bits_eqb, andb_comm. f_equal. f_equal. apply N.eqb_sym. Qed.
Lemma ldiff_lor_same a b : N.ldiff (N.lor a b) b = N.ldiff a b.
Proof. apply N.bits_inj; intro j. rewrite !N.ldiff_spec, N.lor_spec. destruct (N.testbit a j), (N.testbit b j); reflexivity. Qed.
Lemma ldiff_idem a b : N.ldiff (N.ldiff a b) b = N.ldiff a b.
Proof. apply N.bits_inj; intro j. rewrite !N.ldiff_spec. destruct (N.testbit a j), (N.testbit b j); reflexivity. Qed.

Definition mss (stb sre:N) : bool := negb (N.land (N.ldiff stb 64) (N.ldiff sre 64) =? 0).
Definition setbit_to (v:N) (k:N) (b:bool) : N := if b then N.lor v (2^k) else N.ldiff v (2^k).
Lemma setbit_to_spec v k b j : N.testbit (setbit_to v k b) j = if j =? k then b else N.testbit v j.
Proof. unfold setbit_to. destruct b; [rewrite tb_lor_pow2|rewrite tb_ldiff_pow2]; destruct (j =? k); reflexivity. Qed.

Lemma set_same s r v : set s r v r = v. Proof. unfold set. destruct r; reflexivity. Qed.
Lemma set_other s r r' v : r <> r' -> set s r v r' = s r'.
Proof. unfold set. destruct r, r'; cbn; congruence. Qed.

(* ---------- writing the status byte: everything but bit 6 is taken from the value, bit 6 is recomputed ---------- *)
Lemma stb_write f s v cb : let s' := fst (regset (S f) s STB v cb) in
  (forall r, r <> STB -> s' r = s r) /\
  (forall j, j <> 6 -> N.testbit (s' STB) j = N.testbit v j) /\
  (s STB <> v -> N.testbit (s' STB) 6 = mss (s' STB) (s' SRE)) /\
  (s STB = v -> s' = s).
Proof.
  cbn [regset details fst]. destruct (N.eqb_spec (s STB) v) as [E|Hne].
  - cbn [fst]. repeat split; try congruence.
  - rewrite !set_same. rewrite (set_other s STB SRE v) by discriminate. unfold SRQ.
    destruct (N.land (N.ldiff v 64) (N.ldiff (s SRE) 64) =? 0) eqn:E; cbn [negb fst].
    + repeat split; try congruence.
      * intros r Hr. rewrite !set_other by congruence. reflexivity.
      * intros j Hj. rewrite set_same. change 64 with (2^6). rewrite tb_ldiff_pow2.
        destruct (N.eqb_spec j 6); [contradiction|reflexivity].
      * intros _. rewrite set_same. rewrite (set_other _ STB SRE) by discriminate. rewrite (set_other _ STB SRE) by discriminate.
        unfold mss. rewrite ldiff_idem, E. cbn [negb]. change 64 with (2^6). rewrite tb_ldiff_pow2, N.eqb_refl. reflexivity.
    + repeat split; try congruence.
      * intros r Hr. rewrite !set_other by congruence. reflexivity.
      * intros j Hj. rewrite set_same. change 64 with (2^6). rewrite tb_lor_pow2.
        destruct (N.eqb_spec j 6); [contradiction|reflexivity].
      * intros _. rewrite set_same. rewrite (set_other _ STB SRE) by discriminate. rewrite (set_other _ STB SRE) by discriminate.
        unfold mss. rewrite ldiff_lor_same, E. cbn [negb]. change 64 with (2^6). rewrite tb_lor_pow2, N.eqb_refl. reflexivity.
Qed.

(* ---------- the invariant (register part) ---------- *)
Definition summ (ev en:N) : bool := negb (N.land ev en =? 0).
Record Coh (s:regs) (qnonempty:bool) : Prop := {
  c_esb : N.testbit (s STB) 5 = summ (s ESR) (s ESE);
  c_ops : N.testbit (s STB) 7 = summ (s OPER) (s OPERE);
  c_qes : N.testbit (s STB) 3 = summ (s QUES) (s QUESE);
  c_qma : N.testbit (s STB) 2 = qnonempty;
  c_mss : N.testbit (s STB) 6 = mss (s STB) (s SRE) }.

(* updating one summary bit of STB through the propagation loop *)
Lemma stb_bit_update f s k b cb : k <> 6 ->
  N.testbit (s STB) 6 = mss (s STB) (s SRE) ->
  let s' := fst (regset (S f) s STB (setbit_to (s STB) k b) cb) in
  (forall r, r <> STB -> s' r = s r) /\
  (forall j, j <> 6 -> N.testbit (s' STB) j = if j =? k then b else N.testbit (s STB) j) /\
  N.testbit (s' STB) 6 = mss (s' STB) (s' SRE).
Proof.
  intros Hk Hm s'. pose proof (stb_write f s (setbit_to (s STB) k b) cb) as (Ha & Hb & Hc & Hd). fold s' in Ha, Hb, Hc, Hd.
  split; [exact Ha|]. split.
  - intros j Hj. rewrite Hb by exact Hj. apply setbit_to_spec.
  - destruct (N.eq_dec (s STB) (setbit_to (s STB) k b)) as [E|E]; [rewrite (Hd E); exact Hm|exact (Hc E)].
Qed.

(* group data: event, enable, condition (if any), bit index *)
Definition gbitidx (r:reg) : N := match r with ESR | ESE => 5 | OPER | OPERE | OPERC => 7 | QUES | QUESE | QUESC => 3 | _ => 0 end.

(* generic consequence of a summary-bit update for coherence *)
Lemma coh_after_bit s s' qn k b :
  (forall r, r <> STB -> s' r = s r) ->
  (forall j, j <> 6 -> N.testbit (s' STB) j = if j =? k then b else N.testbit (s STB) j) ->
  N.testbit (s' STB) 6 = mss (s' STB) (s' SRE) ->
  Coh s qn ->
  (k = 5 -> b = summ (s ESR) (s ESE)) -> (k = 7 -> b = summ (s OPER) (s OPERE)) -> (k = 3 -> b = summ (s QUES) (s QUESE)) -> (k = 2 -> b = qn) ->
  (k = 5 \/ k = 7 \/ k = 3 \/ k = 2) ->
  Coh s' qn.
Proof.
  intros Ho Hb Hm [C5 C7 C3 C2 C6] H5 H7 H3 H2 Hk.
  constructor; rewrite ?(Ho ESR), ?(Ho ESE), ?(Ho OPER), ?(Ho OPERE), ?(Ho QUES), ?(Ho QUESE) by discriminate; try exact Hm.
  - rewrite Hb by discriminate. destruct (N.eqb_spec 5 k) as [<-|]; [now apply H5|exact C5].
  - rewrite Hb by discriminate. destruct (N.eqb_spec 7 k) as [<-|]; [now apply H7|exact C7].
  - rewrite Hb by discriminate. destruct (N.eqb_spec 3 k) as [<-|]; [now apply H3|exact C3].
  - rewrite Hb by discriminate. destruct (N.eqb_spec 2 k) as [<-|]; [now apply H2|exact C2].
Qed.

(* a state that differs from a coherent one only in registers other than STB, with one group's summary to be refreshed *)
Record CohBut (s:regs) (qn:bool) (k:N) : Prop := {
  b_esb : k <> 5 -> N.testbit (s STB) 5 = summ (s ESR) (s ESE);
  b_ops : k <> 7 -> N.testbit (s STB) 7 = summ (s OPER) (s OPERE);
  b_qes : k <> 3 -> N.testbit (s STB) 3 = summ (s QUES) (s QUESE);
  b_qma : k <> 2 -> N.testbit (s STB) 2 = qn;
  b_mss : N.testbit (s STB) 6 = mss (s STB) (s SRE) }.

Lemma refresh f s qn k b cb : (k = 5 \/ k = 7 \/ k = 3 \/ k = 2) -> CohBut s qn k ->
  (k = 5 -> b = summ (s ESR) (s ESE)) -> (k = 7 -> b = summ (s OPER) (s OPERE)) -> (k = 3 -> b = summ (s QUES) (s QUESE)) -> (k = 2 -> b = qn) ->
  Coh (fst (regset (S f) s STB (setbit_to (s STB) k b) cb)) qn.
Proof.
  intros Hk [B5 B7 B3 B2 B6] H5 H7 H3 H2.
  assert (Hk6 : k <> 6) by (destruct Hk as [->|[->|[->| ->]]]; discriminate).
  pose proof (stb_bit_update f s k b cb Hk6 B6) as (Ho & Hb & Hm).
  set (s' := fst (regset (S f) s STB (setbit_to (s STB) k b) cb)) in *.
  constructor; rewrite ?(Ho ESR), ?(Ho ESE), ?(Ho OPER), ?(Ho OPERE), ?(Ho QUES), ?(Ho QUESE) by discriminate; try exact Hm.
  - rewrite Hb by discriminate. destruct (N.eqb_spec 5 k) as [<-|Hn]; [now apply H5|apply B5; congruence].
  - rewrite Hb by discriminate. destruct (N.eqb_spec 7 k) as [<-|Hn]; [now apply H7|apply B7; congruence].
  - rewrite Hb by discriminate. destruct (N.eqb_spec 3 k) as [<-|Hn]; [now apply H3|apply B3; congruence].
  - rewrite Hb by discriminate. destruct (N.eqb_spec 2 k) as [<-|Hn]; [now apply H2|apply B2; congruence].
Qed.

Lemma coh_weaken s qn k : Coh s qn -> CohBut s qn k.
Proof. intros [C5 C7 C3 C2 C6]. constructor; auto. Qed.

(* ---------- 16-bit values ---------- *)
Definition Small (x:N) : Prop := forall j, 16 <= j -> N.testbit x j = false.
Lemma u16_bits x j : N.testbit (u16 x) j = (j <? 16) && N.testbit x j.
Proof. unfold u16. change 65536 with (2^16). destruct (N.ltb_spec j 16).
  - now rewrite N.mod_pow2_bits_low.
  - now rewrite N.mod_pow2_bits_high. Qed.
Lemma u16_small x : Small x -> u16 x = x.
Proof. intros H. apply N.bits_inj; intro j. rewrite u16_bits. destruct (N.ltb_spec j 16); [reflexivity|]. now rewrite H. Qed.
Lemma small_setbit x k b : k < 16 -> Small x -> Small (setbit_to x k b).
Proof. intros Hk H j Hj. rewrite setbit_to_spec. destruct (N.eqb_spec j k); [lia|]. now apply H. Qed.


Definition Good (s:regs) (qn:bool) : Prop := Coh s qn /\ Small (s STB).
Lemma refresh_small f s k b cb : k < 16 -> k <> 6 -> N.testbit (s STB) 6 = mss (s STB) (s SRE) -> Small (s STB) ->
  Small (fst (regset (S f) s STB (setbit_to (s STB) k b) cb) STB).
Proof.
  intros Hk Hk6 Hm Hs. pose proof (stb_bit_update f s k b cb Hk6 Hm) as (_ & Hb & _).
  intros j Hj. rewrite Hb by lia. destruct (N.eqb_spec j k); [lia|]. now apply Hs.
Qed.
Lemma refresh_good f s qn k b cb : (k = 5 \/ k = 7 \/ k = 3 \/ k = 2) -> CohBut s qn k -> Small (s STB) ->
  (k = 5 -> b = summ (s ESR) (s ESE)) -> (k = 7 -> b = summ (s OPER) (s OPERE)) -> (k = 3 -> b = summ (s QUES) (s QUESE)) -> (k = 2 -> b = qn) ->
  Good (fst (regset (S f) s STB (setbit_to (s STB) k b) cb)) qn.
Proof.
  intros Hk HB Hs H5 H7 H3 H2. split; [now apply refresh|].
  apply refresh_small; [destruct Hk as [->|[->|[->| ->]]]; lia|destruct Hk as [->|[->|[->| ->]]]; discriminate|apply HB|exact Hs].
Qed.
(* ---------- event register write ---------- *)
Lemma event_write f s qn (e:reg) v cb : (1 <= f)%nat -> (e = ESR \/ e = OPER \/ e = QUES) -> Good s qn ->
  Good (fst (regset (S f) s e v cb)) qn.
Proof.
  intros Hf He [HC HS].
  destruct He as [->|[->| ->]]; cbn [regset details g_enable g_parent g_bit g_event];
  match goal with |- context [?a =? v] => destruct (N.eqb_spec a v) as [E|Hne] end; try (split; [exact HC|exact HS]); (destruct f as [|f']; [lia|]).
  - change 32 with (2^5).
    match goal with |- Good (fst (regset _ ?s1 STB (if ?b then N.lor _ _ else N.ldiff _ _) _)) _ => change (Good (fst (regset (S f') s1 STB (setbit_to (s1 STB) 5 b) cb)) qn) end.
    apply refresh_good; [now left| | | | | | ]; try (intros; discriminate); [|rewrite set_other by discriminate; exact HS|].
    + destruct HC as [C5 C7 C3 C2 C6]. constructor; intros; rewrite ?set_same, ?set_other by discriminate; auto; congruence.
    + intros _. rewrite set_same. rewrite (set_other _ ESR ESE) by discriminate. reflexivity.
  - change 128 with (2^7).
    match goal with |- Good (fst (regset _ ?s1 STB (if ?b then N.lor _ _ else N.ldiff _ _) _)) _ => change (Good (fst (regset (S f') s1 STB (setbit_to (s1 STB) 7 b) cb)) qn) end.
    apply refresh_good; [now right; left| | | | | | ]; try (intros; discriminate); [|rewrite set_other by discriminate; exact HS|].
    + destruct HC as [C5 C7 C3 C2 C6]. constructor; intros; rewrite ?set_same, ?set_other by discriminate; auto; congruence.
    + intros _. rewrite set_same. rewrite (set_other _ OPER OPERE) by discriminate. reflexivity.
  - change 8 with (2^3).
    match goal with |- Good (fst (regset _ ?s1 STB (if ?b then N.lor _ _ else N.ldiff _ _) _)) _ => change (Good (fst (regset (S f') s1 STB (setbit_to (s1 STB) 3 b) cb)) qn) end.
    apply refresh_good; [now right; right; left| | | | | | ]; try (intros; discriminate); [|rewrite set_other by discriminate; exact HS|].
    + destruct HC as [C5 C7 C3 C2 C6]. constructor; intros; rewrite ?set_same, ?set_other by discriminate; auto; congruence.
    + intros _. rewrite set_same. rewrite (set_other _ QUES QUESE) by discriminate. reflexivity.
Qed.

(* ---------- enable register write (with the fix) ---------- *)
Lemma enable_write f s qn (e:reg) v cb : (1 <= f)%nat -> (e = ESE \/ e = OPERE \/ e = QUESE) -> Good s qn ->
  Good (fst (regset (S f) s e v cb)) qn.
Proof.
  intros Hf He [HC HS].
  destruct He as [->|[->| ->]]; cbn [regset details g_enable g_parent g_bit g_event];
  match goal with |- context [?a =? v] => destruct (N.eqb_spec a v) as [E|Hne] end; try (split; [exact HC|exact HS]); (destruct f as [|f']; [lia|]).
  - change 32 with (2^5).
    match goal with |- Good (fst (regset _ ?s1 STB (if ?b then N.lor _ _ else N.ldiff _ _) _)) _ => change (Good (fst (regset (S f') s1 STB (setbit_to (s1 STB) 5 b) cb)) qn) end.
    apply refresh_good; [now left| | | | | | ]; try (intros; discriminate); [|rewrite set_other by discriminate; exact HS|].
    + destruct HC as [C5 C7 C3 C2 C6]. constructor; intros; rewrite ?set_same, ?set_other by discriminate; auto; congruence.
    + intros _. rewrite set_same. rewrite (set_other _ ESE ESR) by discriminate. reflexivity.
  - change 128 with (2^7).
    match goal with |- Good (fst (regset _ ?s1 STB (if ?b then N.lor _ _ else N.ldiff _ _) _)) _ => change (Good (fst (regset (S f') s1 STB (setbit_to (s1 STB) 7 b) cb)) qn) end.
    apply refresh_good; [now right; left| | | | | | ]; try (intros; discriminate); [|rewrite set_other by discriminate; exact HS|].
    + destruct HC as [C5 C7 C3 C2 C6]. constructor; intros; rewrite ?set_same, ?set_other by discriminate; auto; congruence.
    + intros _. rewrite set_same. rewrite (set_other _ OPERE OPER) by discriminate. reflexivity.
  - change 8 with (2^3).
    match goal with |- Good (fst (regset _ ?s1 STB (if ?b then N.lor _ _ else N.ldiff _ _) _)) _ => change (Good (fst (regset (S f') s1 STB (setbit_to (s1 STB) 3 b) cb)) qn) end.
    apply refresh_good; [now right; right; left| | | | | | ]; try (intros; discriminate); [|rewrite set_other by discriminate; exact HS|].
    + destruct HC as [C5 C7 C3 C2 C6]. constructor; intros; rewrite ?set_same, ?set_other by discriminate; auto; congruence.
    + intros _. rewrite set_same. rewrite (set_other _ QUESE QUES) by discriminate. reflexivity.
Qed.

(* ---------- condition register write: latches into the event register, then as an event write ---------- *)
Lemma coh_set_cond s qn (c:reg) v : (c = OPERC \/ c = QUESC) -> Good s qn -> Good (set s c v) qn.
Proof. intros Hc [[C5 C7 C3 C2 C6] HS]. destruct Hc as [->| ->]; (split; [constructor; rewrite ?set_other by discriminate; assumption|rewrite set_other by discriminate; exact HS]). Qed.
Lemma cond_write f s qn (c:reg) v cb : (1 <= f)%nat -> (c = OPERC \/ c = QUESC) -> Good s qn -> Good (fst (regset (S (S f)) s c v cb)) qn.
Proof.
  intros Hf Hc HC. remember (S f) as f1. destruct Hc as [->| ->]; cbn [regset details g_event];
  match goal with |- context [?a =? v] => destruct (N.eqb_spec a v) as [E|Hne] end; try exact HC; subst f1.
  - apply event_write; [exact Hf|now right; left|]. apply coh_set_cond; [now left|exact HC].
  - apply event_write; [exact Hf|now right; right|]. apply coh_set_cond; [now right|exact HC].
Qed.

(* ---------- service request enable write ---------- *)
Lemma sre_write f s qn v cb : Good s qn -> Good (fst (regset (S f) s SRE v cb)) qn.
Proof.
  intros [[C5 C7 C3 C2 C6] HS]. cbn [regset details fst]. destruct (N.eqb_spec (s SRE) v) as [E|Hne]; [split; [constructor; assumption|exact HS]|].
  rewrite set_same. rewrite (set_other s SRE STB v) by discriminate. unfold SRQ.
  destruct (N.land (N.ldiff (s STB) 64) (N.ldiff v 64) =? 0) eqn:E; cbn [negb fst]; split;
  try (constructor; rewrite ?set_same, ?set_other by discriminate;
       try (change 64 with (2^6); rewrite ?tb_ldiff_pow2, ?tb_lor_pow2; cbn [N.eqb Pos.eqb negb andb orb]; assumption)).
  - unfold mss. rewrite set_same. rewrite ldiff_idem, E. cbn [negb]. change 64 with (2^6). now rewrite tb_ldiff_pow2, N.eqb_refl.
  - rewrite set_same. intros j Hj. change 64 with (2^6). rewrite tb_ldiff_pow2. rewrite (HS j Hj). now rewrite andb_false_r.
  - unfold mss. rewrite set_same. rewrite ldiff_lor_same, E. cbn [negb]. change 64 with (2^6). now rewrite tb_lor_pow2, N.eqb_refl.
  - rewrite set_same. intros j Hj. change 64 with (2^6). rewrite tb_lor_pow2. rewrite (HS j Hj). destruct (N.eqb_spec j 6); [lia|reflexivity].
Qed.

(* the error-available bit *)
Lemma qma_update f s qn b cb : Coh s qn -> Small (s STB) ->
  let s' := fst (regset (S f) s STB (u16 (setbit_to (s STB) 2 b)) cb) in Coh s' b /\ Small (s' STB).
Proof.
  intros HC Hs s'. subst s'. rewrite u16_small by (apply small_setbit; [lia|exact Hs]).
  split.
  - apply refresh; [now right; right; right| | | | | ]; try (intros; discriminate); [|reflexivity].
    destruct HC as [C5 C7 C3 C2 C6]. constructor; intros; auto; congruence.
  - destruct HC as [C5 C7 C3 C2 C6].
    pose proof (stb_bit_update f s 2 b cb ltac:(discriminate) C6) as (_ & Hb & _).
    intros j Hj. rewrite Hb by lia. destruct (N.eqb_spec j 2); [lia|]. now apply Hs.
Qed.


(* ---------- operations of the status subsystem ---------- *)
Lemma land_pow2_testbit x k : (N.land x (2^k) =? 0) = negb (N.testbit x k).
Proof.
  destruct (N.testbit x k) eqn:E; cbn [negb].
  - apply N.eqb_neq. intro H. assert (N.testbit (N.land x (2^k)) k = false) by (rewrite H; apply N.bits_0).
    rewrite N.land_spec, E, N.pow2_bits_true in H0. discriminate.
  - apply N.eqb_eq. apply N.bits_inj; intro j. rewrite N.land_spec, N.bits_0, N.pow2_bits_eqb.
    destruct (N.eqb_spec k j) as [<-|]; [now rewrite E|now rewrite andb_false_r].
Qed.

Local Open Scope Z_scope.
Definition Inv (s:st) : Prop := Good (rg s) (negb (qlen s =? 0)) /\ 0 <= qlen s <= qcap s /\ 0 < qcap s.

Lemma good_qn_irrelevant s qn qn' : Good s qn -> N.testbit (s STB) 2 = qn' -> Good s qn'.
Proof. intros [[C5 C7 C3 C2 C6] HS] H. split; [constructor; assumption|exact HS]. Qed.

Lemma regsetbits_esr r qn b cb : Good r qn -> Good (fst (RegSetBits r ESR b cb)) qn.
Proof. intros H. unfold RegSetBits, RegSet. apply (event_write 3); [lia|now left|exact H]. Qed.

Lemma fold_esr bits : forall r cb qn, Good r qn ->
  Good (fst (fold_left (fun '(r,cb) b => RegSetBits r ESR b cb) bits (r, cb))) qn.
Proof. induction bits as [|b bs IH]; intros r cb qn H; [exact H|]. cbn [fold_left].
  destruct (RegSetBits r ESR b cb) as [r1 cb1] eqn:E. apply IH. replace r1 with (fst (RegSetBits r ESR b cb)) by now rewrite E.
  now apply regsetbits_esr. Qed.

Lemma set_qma r qn cb : Good r qn -> Good (fst (RegSetBits r STB QMA%N cb)) true.
Proof. intros [HC HS]. unfold RegSetBits, RegSet, QMA. change (N.lor (r STB) 4) with (setbit_to (r STB) 2 true).
  pose proof (qma_update 3 r qn true cb HC HS) as [H1 H2]. split; assumption. Qed.
Lemma clear_qma r qn cb : Good r qn -> Good (fst (RegClearBits r STB QMA%N cb)) false.
Proof. intros [HC HS]. unfold RegClearBits, RegSet, QMA. change (N.ldiff (r STB) 4) with (setbit_to (r STB) 2 false).
  pose proof (qma_update 3 r qn false cb HC HS) as [H1 H2]. split; assumption. Qed.

Lemma push_inv s code : Inv s -> Inv (fst (push s code)).
Proof.
  intros (HG & Hq & Hc). unfold push.
  pose proof (fold_esr (class_bits code) (rg s) [] _ HG) as H1.
  destruct (fold_left _ (class_bits code) (rg s, [])) as [r1 cb1]; cbn [fst] in H1.
  pose proof (set_qma r1 _ [] H1) as H2. destruct (RegSetBits r1 STB QMA%N []) as [r2 cb2]; cbn [fst] in H2.
  destruct (Z.eqb_spec (qlen s) (qcap s)) as [E|Hne].
  - pose proof (set_qma r2 _ [] H2) as H3. destruct (RegSetBits r2 STB QMA%N []) as [r3 cb3]; cbn [fst] in *.
    unfold Inv; cbn [fst rg qlen qcap]. split; [|lia]. destruct (Z.eqb_spec (qlen s) 0); [lia|exact H3].
  - unfold Inv; cbn [fst rg qlen qcap]. split; [|lia]. destruct (Z.eqb_spec (qlen s + 1) 0); [lia|exact H2].
Qed.

Lemma emit_empty_inv r ql qc qn : Good r qn -> 0 <= ql <= qc -> 0 < qc -> (0 < ql -> qn = true) ->
  Inv (fst (emit_empty {| rg := r; qlen := ql; qcap := qc |})).
Proof.
  intros HG Hq Hc Hqn. unfold emit_empty; cbn [rg qlen qcap].
  destruct (Z.eqb_spec ql 0) as [E|Hne]; cbn [andb].
  - subst ql. unfold QMA. change (N.land (r STB) 4) with (N.land (r STB) (2^2)). rewrite land_pow2_testbit, negb_involutive.
    destruct (N.testbit (r STB) 2) eqn:Eb.
    + pose proof (clear_qma r qn [] HG) as H. unfold QMA in H. destruct (RegClearBits r STB 4%N []) as [r1 cb]; cbn [fst] in *.
      unfold Inv; cbn [fst rg qlen qcap]. split; [exact H|lia].
    + unfold Inv; cbn [fst rg qlen qcap]. split; [|lia]. apply (good_qn_irrelevant r qn); assumption.
  - unfold Inv; cbn [fst rg qlen qcap]. split; [|lia]. destruct (Z.eqb_spec ql 0); [lia|]. cbn [negb].
    rewrite <- (Hqn ltac:(lia)). exact HG.
Qed.

Lemma pop_inv s : Inv s -> Inv (fst (pop s)).
Proof. intros (HG & Hq & Hc). unfold pop. destruct (Z.eqb_spec (qlen s) 0) as [E|Hne].
  - apply (emit_empty_inv _ _ _ _ HG); lia.
  - apply (emit_empty_inv _ _ _ _ HG); try lia. all: try (intros _; destruct (Z.eqb_spec (qlen s) 0); [lia|reflexivity]). Qed.
Lemma clear_inv s : Inv s -> Inv (fst (clear s)).
Proof. intros (HG & Hq & Hc). unfold clear. apply (emit_empty_inv _ _ _ _ HG); lia. Qed.

Lemma wr_inv s r v : r <> STB -> Inv s -> Inv (fst (wr s r v)).
Proof.
  intros Hr (HG & Hq & Hc). unfold wr, RegSet.
  assert (H : Good (fst (regset 4 (rg s) r (u16 v) [])) (negb (qlen s =? 0))).
  { destruct r; try congruence.
    - apply (sre_write 3); exact HG.
    - apply (event_write 3); [lia|now left|exact HG].
    - apply (enable_write 3); [lia|now left|exact HG].
    - apply (event_write 3); [lia|now right; left|exact HG].
    - apply (enable_write 3); [lia|now right; left|exact HG].
    - apply (cond_write 2); [lia|now left|exact HG].
    - apply (event_write 3); [lia|now right; right|exact HG].
    - apply (enable_write 3); [lia|now right; right|exact HG].
    - apply (cond_write 2); [lia|now right|exact HG]. }
  destruct (regset 4 (rg s) r (u16 v) []) as [r1 cb]; cbn [fst] in *. unfold Inv; cbn [rg qlen qcap]. split; [exact H|lia].
Qed.

Lemma cls_inv s : Inv s -> Inv (fst (cls s)).
Proof.
  intros H. unfold cls.
  pose proof (clear_inv s H) as H1. destruct (clear s) as [s1 e1]; cbn [fst] in H1.
  pose proof (wr_inv s1 ESR 0%N ltac:(discriminate) H1) as H2. destruct (wr s1 ESR 0%N) as [s2 e2]; cbn [fst] in H2.
  pose proof (wr_inv s2 OPER 0%N ltac:(discriminate) H2) as H3. destruct (wr s2 OPER 0%N) as [s3 e3]; cbn [fst] in H3.
  pose proof (wr_inv s3 QUES 0%N ltac:(discriminate) H3) as H4. destruct (wr s3 QUES 0%N) as [s4 e4]; cbn [fst] in H4.
  exact H4.
Qed.

(* ---------- C11: every history ---------- *)
Inductive oper := OWr (r:reg) (v:N) | OPush (code:Z) | OPop | OClear | OCls.
Definition legal (o:oper) : Prop := match o with OWr r _ => r <> STB | _ => True end.
Definition step (s:st) (o:oper) : st :=
  match o with OWr r v => fst (wr s r v) | OPush c => fst (push s c) | OPop => fst (pop s) | OClear => fst (clear s) | OCls => fst (cls s) end.
Definition init (qc:Z) : st := {| rg := fun _ => 0%N; qlen := 0; qcap := qc |}.
Lemma init_inv qc : 0 < qc -> Inv (init qc).
Proof. intros H. split; [|cbn; lia]. split; [constructor; reflexivity|]. intros j _. apply N.bits_0. Qed.
Theorem stb_coherent qc ops : 0 < qc -> Forall legal ops -> Inv (fold_left step ops (init qc)).
Proof.
  intros Hq Hl. assert (G : forall s, Inv s -> Inv (fold_left step ops s)).
  { induction Hl as [|o os Ho Hos IH]; intros s Hs; [exact Hs|]. cbn [fold_left]. apply IH.
    destruct o; cbn [step]; [apply wr_inv; assumption|apply push_inv|apply pop_inv|apply clear_inv|apply cls_inv]; assumption. }
  apply G. now apply init_inv.
Qed.
Print Assumptions stb_coherent.
(* reading the invariant: the five clauses of the property *)
Lemma inv_reads s : Inv s ->
  N.testbit (rg s STB) 5 = negb (N.land (rg s ESR) (rg s ESE) =? 0)%N /\
  N.testbit (rg s STB) 7 = negb (N.land (rg s OPER) (rg s OPERE) =? 0)%N /\
  N.testbit (rg s STB) 3 = negb (N.land (rg s QUES) (rg s QUESE) =? 0)%N /\
  N.testbit (rg s STB) 2 = negb (qlen s =? 0) /\
  N.testbit (rg s STB) 6 = negb (N.land (N.ldiff (rg s STB) 64) (N.ldiff (rg s SRE) 64) =? 0)%N.
Proof. intros ([[C5 C7 C3 C2 C6] _] & _). repeat split; assumption. Qed.
