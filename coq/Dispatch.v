(* C02: each message unit runs exactly the first command matching its effective header (on the fixed parser model) *)
From Coq Require Import Bool List NArith ZArith Lia.
From M Require LexModel MatchModel FmtModel.
From M Require OpsGen.
From M Require Import ParserModel Framing2.
Import ListNotations.
Local Open Scope Z_scope.

(* ---------- handler-start events of the trace; what handlers cannot touch ---------- *)
Definition is_hdr (e:event) : bool := match e with EvH _ _ => true | _ => false end.
Definition hdrs (tr:list event) : list event := filter is_hdr tr.     (* most recent first *)
Definition is_err (e:event) : bool := match e with EvE _ => true | _ => false end.
(* K: memory, command table and the handler-start events are unchanged *)
Definition K (c c':ctx) : Prop := mem c' = mem c /\ cmds c' = cmds c /\ hdrs (trace c') = hdrs (trace c).
Ltac kr := (unfold K; repeat split; reflexivity).
Lemma K_refl c : K c c. Proof. kr. Qed.
Lemma K_trans a b c : K a b -> K b c -> K a c.
Proof. unfold K. intros (A1 & A2 & A3) (B1 & B2 & B3). repeat split; congruence. Qed.
Lemma K_ev c e : is_hdr e = false -> K c (ev c e).
Proof. intro H. unfold K. repeat split; try reflexivity. cbn [trace ev hdrs filter]. now rewrite H. Qed.
Lemma K_upd_in c a b : K c (upd_in c a b). Proof. kr. Qed.
Lemma K_upd_err c a b d : K c (upd_err c a b d). Proof. kr. Qed.
Lemma K_error_push c code info : K c (error_push c code info).
Proof. unfold error_push. destruct (_ =? qcap c); kr. Qed.
Lemma K_emit_empty c : K c (emit_empty c).
Proof. unfold emit_empty. destruct (_ && _); kr. Qed.
Lemma K_write c b : K c (write c b). Proof. destruct b; kr. Qed.
Lemma K_delimiter c : K c (delimiter c).
Proof. unfold delimiter. destruct (0 <? output_count c); [apply K_write|]. destruct (negb _); [apply K_write|apply K_refl]. Qed.
Lemma K_fold_write l : forall c, K c (fold_left write l c).
Proof. induction l as [|b l IH]; intro c; [apply K_refl|]. cbn. eapply K_trans; [apply K_write|apply IH]. Qed.
Lemma K_item c l : K c (item c l).
Proof. unfold item. eapply K_trans; [apply K_delimiter|]. eapply K_trans; [apply K_fold_write|]. kr. Qed.
Lemma K_result_int c w v b s : K c (result_int c w v b s).
Proof. unfold result_int. destruct (FmtModel.int2str _ _ _ _ _) as [[? ?] ?]. apply K_item. Qed.
Lemma K_result_hdr c n : K c (result_hdr c n).
Proof. unfold result_hdr. eapply K_trans; [apply K_delimiter|]. eapply K_trans; [apply K_write|]. kr. Qed.
Lemma K_result_data c d : K c (result_data c d).
Proof. unfold result_data. destruct (_ <? _); [apply K_error_push|]. eapply K_trans; [|apply K_write]. kr. Qed.
Lemma K_result_error c code info desc : K c (result_error c code info desc).
Proof. unfold result_error. destruct (FmtModel.int2str _ _ _ _ _) as [[? ?] ?]. eapply K_trans; [apply K_item|apply K_write]. Qed.

(* readers *)
Lemma K_parameter c m : K c (fst (fst (parameter c m))).
Proof.
  unfold parameter. destruct (pd_len c <=? pd_pos c).
  - destruct m; cbn [fst]; [apply K_error_push|apply K_refl].
  - destruct (negb (input_count c =? 0)).
    + destruct (LexModel.ret _ =? 0); cbn [fst]; [apply K_error_push|].
      destruct (tok_valid _); cbn [fst]; [kr|]. eapply K_trans; [|apply K_error_push]. kr.
    + destruct (tok_valid _); cbn [fst]; [kr|]. eapply K_trans; [|apply K_error_push]. kr.
Qed.

Lemma K_param_int c w s m : K c (fst (fst (param_int c w s m))).
Proof. unfold param_int. pose proof (K_parameter c m) as H. destruct (parameter c m) as [[c1 ok] t]; cbn [fst] in *.
  destruct ok; [|exact H]. destruct (is_number _ false).
  - destruct (param_to_int c1 t w s). exact H.
  - destruct (is_number _ true); cbn [fst]; (eapply K_trans; [exact H|apply K_error_push]). Qed.
Lemma K_param_to_choice c t o : K c (fst (fst (param_to_choice c t o))).
Proof. unfold param_to_choice. destruct (LexModel.ty t); cbn [fst]; try apply K_error_push.
  destruct (choice_lookup _ _); cbn [fst]; [apply K_refl|apply K_error_push]. Qed.
Lemma K_param_bool c m : K c (fst (fst (param_bool c m))).
Proof. unfold param_bool. pose proof (K_parameter c m) as H. destruct (parameter c m) as [[c1 ok] t]; cbn [fst] in *.
  destruct ok; [|exact H].
  pose proof (K_param_to_choice c1 t bool_def) as H2.
  destruct (LexModel.ty t); try (destruct (param_to_int c1 t 32 true); exact H);
  destruct (param_to_choice c1 t bool_def) as [[c2 r] v]; cbn [fst] in *; (eapply K_trans; [exact H|exact H2]). Qed.
Lemma K_param_choice c m : K c (fst (fst (param_choice c m))).
Proof. unfold param_choice. pose proof (K_parameter c m) as H. destruct (parameter c m) as [[c1 ok] t]; cbn [fst] in *.
  destruct ok; [|exact H]. eapply K_trans; [exact H|apply K_param_to_choice]. Qed.
Lemma K_param_chars c m : K c (fst (fst (param_chars c m))).
Proof. unfold param_chars. pose proof (K_parameter c m) as H. destruct (parameter c m) as [[c1 ok] t]; cbn [fst] in *. destruct ok; exact H. Qed.
Lemma K_param_text c b m : K c (fst (fst (fst (param_text c b m)))).
Proof. unfold param_text. pose proof (K_parameter c m) as H. destruct (parameter c m) as [[c1 ok] t]; cbn [fst] in *.
  destruct ok; [|exact H]. destruct (is_quote _).
  - destruct (copy_loop _ _ _ _ _ _ _ _). exact H.
  - cbn [fst]. eapply K_trans; [exact H|apply K_error_push]. Qed.
Lemma K_param_block c m : K c (fst (fst (param_block c m))).
Proof. unfold param_block. pose proof (K_parameter c m) as H. destruct (parameter c m) as [[c1 ok] t]; cbn [fst] in *.
  destruct ok; [|exact H]. destruct (LexModel.ty t); cbn [fst]; try exact H; (eapply K_trans; [exact H|apply K_error_push]). Qed.
Lemma K_param_fp c d m : K c (fst (fst (param_fp c d m))).
Proof. unfold param_fp. pose proof (K_parameter c m) as H. destruct (parameter c m) as [[c1 ok] t]; cbn [fst] in *.
  destruct ok; [|exact H]. destruct (is_number _ false); [exact H|].
  destruct (is_number _ true); cbn [fst]; (eapply K_trans; [exact H|apply K_error_push]). Qed.
Lemma K_param_number c m : K c (fst (fst (param_number c m))).
Proof. unfold param_number. pose proof (K_parameter c m) as H. destruct (parameter c m) as [[c1 ok] t]; cbn [fst] in *.
  destruct ok; cbn [negb]; [|exact H].
  pose proof (K_param_to_choice c1 t Generated.gen_specials) as H2.
  destruct (LexModel.ty t); cbn [fst]; try exact H; try (eapply K_trans; [exact H|apply K_error_push]).
  - destruct (param_to_choice c1 t Generated.gen_specials) as [[c2 r] tag]; cbn [fst] in *. eapply K_trans; [exact H|exact H2].
  - destruct (skip_isspace _); cbn [fst]; [exact H|]. destruct (unit_lookup _) as [[un mult]|]; cbn [fst]; [exact H|].
    eapply K_trans; [exact H|apply K_error_push]. Qed.


Lemma K_step o c d : K c (fst (step o c d)).
Proof.
  destruct o; cbn [step].
  - pose proof (K_param_int c 32 true m) as H. destruct (param_int c 32 true m) as [[c1 ok] v]; cbn [fst] in *. eapply K_trans; [exact H|now apply K_ev].
  - pose proof (K_param_int c 32 false m) as H. destruct (param_int c 32 false m) as [[c1 ok] v]; cbn [fst] in *. eapply K_trans; [exact H|now apply K_ev].
  - pose proof (K_param_int c 64 true m) as H. destruct (param_int c 64 true m) as [[c1 ok] v]; cbn [fst] in *. eapply K_trans; [exact H|now apply K_ev].
  - pose proof (K_param_int c 64 false m) as H. destruct (param_int c 64 false m) as [[c1 ok] v]; cbn [fst] in *. eapply K_trans; [exact H|now apply K_ev].
  - pose proof (K_param_bool c m) as H. destruct (param_bool c m) as [[c1 ok] v]; cbn [fst] in *. eapply K_trans; [exact H|now apply K_ev].
  - pose proof (K_param_choice c m) as H. destruct (param_choice c m) as [[c1 ok] v]; cbn [fst] in *. eapply K_trans; [exact H|now apply K_ev].
  - pose proof (K_param_chars c m) as H. destruct (param_chars c m) as [[c1 ok] v]; cbn [fst] in *. eapply K_trans; [exact H|now apply K_ev].
  - pose proof (K_param_text c buflen m) as H. destruct (param_text c buflen m) as [[[c1 ok] v] nul]; cbn [fst] in *. eapply K_trans; [exact H|now apply K_ev].
  - pose proof (K_param_block c m) as H. destruct (param_block c m) as [[c1 ok] v]; cbn [fst] in *. eapply K_trans; [exact H|now apply K_ev].
  - pose proof (K_param_fp c true m) as H. destruct (param_fp c true m) as [[c1 ok] v]; cbn [fst] in *. eapply K_trans; [exact H|now apply K_ev].
  - pose proof (K_param_fp c false m) as H. destruct (param_fp c false m) as [[c1 ok] v]; cbn [fst] in *. eapply K_trans; [exact H|now apply K_ev].
  - pose proof (K_param_number c m) as H. destruct (param_number c m) as [[c1 ok] v]; cbn [fst] in *. eapply K_trans; [exact H|now apply K_ev].
  - apply K_result_int.
  - apply K_result_int.
  - apply K_result_int.
  - apply K_result_int.
  - apply K_result_int.
  - apply K_item.
  - apply K_item.
  - eapply K_trans; [apply K_result_hdr|apply K_result_data].
  - apply K_result_hdr.
  - apply K_result_data.
  - apply K_error_push.
  - destruct (cur c) as [[[pat tg] sc]|]; [|apply K_refl]. destruct (MatchModel.matchCommand _ _ _ _) as [r [a|]]; cbn [fst]; now apply K_ev.
  - destruct (syst_err_parts c) as [[code info] q']. cbn [fst]. eapply K_trans; [|apply K_result_error]. eapply K_trans; [|apply K_emit_empty]. kr.
  - apply K_refl.
  - apply K_result_int.
  - apply K_result_int.
  - apply K_result_int.
  - apply K_result_int.
  - apply K_item.
  - apply K_item.
  - apply K_item.
  - destruct (cur c) as [[[pat tg] sc]|]; [|now apply K_ev]. destruct (MatchModel.matchCommand _ _ _ _) as [r a]; cbn [fst]; now apply K_ev.
  - apply (OpsGen.R_result_array K K_refl K_trans K_result_int K_result_hdr K_result_data).
  - pose proof (OpsGen.R_param_array K K_refl K_trans K_param_int K_param_fp ty (Z.to_nat cap) c m []) as H.
    destruct (param_array _ _ c m []) as [[c1 m1] vals]; cbn [fst] in *. eapply K_trans; [exact H|now apply K_ev].
  - pose proof (K_parameter c m) as H. destruct (parameter c m) as [[c1 ok] t]; cbn [fst] in *. destruct ok; [|eapply K_trans; [exact H|now apply K_ev]].
    pose proof (OpsGen.R_expr_numlist K K_refl (fun c => K_error_push c (-170) None) (fun c => K_error_push c (-104) None) c1 t idx) as H2.
    destruct (expr_numlist c1 t idx) as [c2 rep]; cbn [fst] in *. eapply K_trans; [exact H|]. eapply K_trans; [exact H2|now apply K_ev].
  - pose proof (K_parameter c m) as H. destruct (parameter c m) as [[c1 ok] t]; cbn [fst] in *. destruct ok; [|eapply K_trans; [exact H|now apply K_ev]].
    pose proof (OpsGen.R_expr_chanlist K K_refl (fun c => K_error_push c (-170) None) (fun c => K_error_push c (-104) None) c1 t idx cap) as H2.
    destruct (expr_chanlist c1 t idx cap) as [c2 rep]; cbn [fst] in *. eapply K_trans; [exact H|]. eapply K_trans; [exact H2|now apply K_ev].
Qed.
Lemma K_run_script s : forall c d, K c (fst (run_script s c d)).
Proof.
  induction s as [|o rest IH]; intros c d; [apply K_refl|]. rewrite run_script_cons.
  pose proof (K_step o c d) as H. destruct (step o c d) as [c1 go]; cbn [fst] in H. destruct go; [eapply K_trans; [exact H|apply IH]|exact H].
Qed.

(* a unit whose header matched starts its handler exactly once, with the matched tag and the effective header; memory is untouched *)
Lemma unit_dispatch c d pat tag script : cur c = Some (pat, tag, script) ->
  let c' := fst (process_command c d) in
  mem c' = mem c /\ cmds c' = cmds c /\ hdrs (trace c') = EvH tag (slice (mem c) (raw_off c) (raw_len c)) :: hdrs (trace c).
Proof.
  intro Hc. unfold process_command. rewrite Hc. cbn zeta.
  set (c2 := ev (upd_flags c false 0 0 0) (EvH tag (slice (mem (upd_flags c false 0 0 0)) (raw_off (upd_flags c false 0 0 0)) (raw_len (upd_flags c false 0 0 0))))).
  pose proof (K_run_script script c2 d) as H. destruct (run_script script c2 d) as [c3 okret]. cbn [fst] in H.
  set (p4 := if negb okret then _ else _).
  assert (H4 : K c3 (fst p4)).
  { subst p4. destruct okret; cbn [negb]; [destruct (cmd_error c3); apply K_refl|]. destruct (cmd_error c3); cbn [negb fst]; [apply K_refl|apply K_error_push]. }
  destruct p4 as [c4 result]. cbn [fst] in H4.
  set (c5 := if 0 <? output_count c4 then upd_out c4 false (output_count c4) (arb_rem c4) else c4).
  assert (H5 : K c4 c5) by (subst c5; destruct (0 <? output_count c4); kr).
  assert (H6 : forall c6, K c5 c6 -> mem c6 = mem c /\ cmds c6 = cmds c /\ hdrs (trace c6) = EvH tag (slice (mem c) (raw_off c) (raw_len c)) :: hdrs (trace c)).
  { intros c6 H7. pose proof (K_trans _ _ _ H (K_trans _ _ _ H4 (K_trans _ _ _ H5 H7))) as (A1 & A2 & A3). rewrite A1, A2, A3. repeat split. }
  destruct ((pd_pos c5 <? pd_len c5) && negb (cmd_error c5)); cbn [fst]; apply H6; [apply K_error_push|apply K_refl].
Qed.

(* ---------- composeCompoundCommand ---------- *)
Lemma overwrite_eq : forall (m:bytes) at_ src, (at_ + length src <= length m)%nat ->
  overwrite m at_ src = firstn at_ m ++ src ++ skipn (at_ + length src) m.
Proof.
  induction m as [|x m IH]; intros at_ src H.
  - destruct src; [destruct at_; reflexivity|cbn in H; lia].
  - destruct src as [|c r].
    + cbn [overwrite length app]. rewrite Nat.add_0_r. now rewrite firstn_skipn.
    + destruct at_ as [|a].
      * cbn [overwrite firstn app length Nat.add skipn]. f_equal. rewrite (IH O r) by (cbn in *; lia). reflexivity.
      * cbn [overwrite firstn app]. f_equal. rewrite (IH a (c :: r)) by (cbn in *; lia). reflexivity.
Qed.
Lemma overwrite_length m at_ src : (at_ + length src <= length m)%nat -> length (overwrite m at_ src) = length m.
Proof. intro H. rewrite overwrite_eq by exact H. rewrite !app_length, firstn_length_le, skipn_length by lia. lia. Qed.

(* path of a header: everything up to and including its last colon *)
Lemma last_colon_le l : forall i, 0 <= last_colon l i <= Z.of_nat i.
Proof. induction i as [|i IH]; cbn [last_colon]; [lia|]. destruct (nth i l 0%N =? 58)%N; lia. Qed.
Definition path (p:bytes) : bytes := firstn (Z.to_nat (last_colon p (length p))) p.
Definition starts (ch:N) (l:bytes) : bool := match l with x :: _ => (x =? ch)%N | [] => false end.
(* the effective header of a unit whose predecessor had the effective header prev *)
Definition effective (prev:option bytes) (cur_:bytes) : bytes :=
  match prev with
  | None => cur_
  | Some p => if is_nil p then cur_ else if starts 42 cur_ || starts 58 cur_ then cur_ else if starts 42 p then cur_ else path p ++ cur_
  end.

Lemma skipn_skipn' {A} : forall b a (l:list A), skipn a (skipn b l) = skipn (b + a) l.
Proof. induction b as [|b IH]; intros a l; [reflexivity|]. destruct l; [now rewrite !skipn_nil|]. cbn [skipn Nat.add]. apply IH. Qed.
Lemma nth_hd_skipn : forall (l:bytes) n, nth n l 0%N = hd 0%N (skipn n l).
Proof. induction l as [|x l IH]; intros [|n]; cbn; auto. Qed.
Lemma getm_slice m off len : 0 <= off -> 0 < len -> off + len <= Z.of_nat (length m) ->
  exists x r, slice m off len = x :: r /\ getm m off = x.
Proof.
  intros Ho Hl Hfit. unfold slice, getm. destruct (Z.ltb_spec off 0); [lia|]. rewrite nth_hd_skipn.
  destruct (skipn (Z.to_nat off) m) as [|x r] eqn:E.
  - apply (f_equal (@length N)) in E. rewrite skipn_length in E. cbn in E. lia.
  - replace (Z.to_nat len) with (S (Z.to_nat (len - 1))) by lia. cbn [firstn hd]. eauto.
Qed.
Lemma slice_length m off len : 0 <= off -> 0 <= len -> off + len <= Z.of_nat (length m) -> length (slice m off len) = Z.to_nat len.
Proof. intros. unfold slice. rewrite firstn_length_le; [reflexivity|]. rewrite skipn_length. lia. Qed.
Lemma slice_slice m off len i : 0 <= i <= len -> slice (slice m off len) 0 i = slice m off i.
Proof. intros. unfold slice. cbn [Z.to_nat skipn]. rewrite firstn_firstn. f_equal. lia. Qed.

Theorem compose_spec m pptr plen cptr clen : 0 <= pptr -> 0 <= plen -> pptr + plen <= cptr -> 0 < clen -> cptr + clen <= Z.of_nat (length m) ->
  let '(m1, hp, hl) := compose m (Some (pptr, plen)) cptr clen in
  slice m1 hp hl = effective (Some (slice m pptr plen)) (slice m cptr clen) /\
  length m1 = length m /\ skipn (Z.to_nat (cptr + clen)) m1 = skipn (Z.to_nat (cptr + clen)) m /\
  pptr <= hp /\ hp + hl = cptr + clen /\ 0 < hl.
Proof.
  intros Hp Hpl Hord Hcl Hfit. unfold compose, effective.
  assert (Hnone : slice m cptr clen = slice m cptr clen /\ length m = length m /\ skipn (Z.to_nat (cptr + clen)) m = skipn (Z.to_nat (cptr + clen)) m /\
                  pptr <= cptr /\ cptr + clen = cptr + clen /\ 0 < clen) by (repeat split; lia).
  destruct (Z.eqb_spec plen 0) as [->|Hnz].
  { replace (slice m pptr 0) with (@nil N) by (unfold slice; reflexivity). exact Hnone. }
  destruct (getm_slice m cptr clen ltac:(lia) Hcl Hfit) as (x & r & Ecur & Ex).
  destruct (getm_slice m pptr plen Hp ltac:(lia) ltac:(lia)) as (y & q & Eprev & Ey).
  rewrite Ecur, Eprev, Ex, Ey. cbn [is_nil starts].
  destruct ((x =? 42)%N || (x =? 58)%N); [rewrite <- Ecur; exact Hnone|].
  destruct (y =? 42)%N; [rewrite <- Ecur; exact Hnone|].
  rewrite <- Eprev, <- Ecur.
  assert (Hplen : length (slice m pptr plen) = Z.to_nat plen) by (apply slice_length; lia).
  unfold path. rewrite Hplen.
  pose proof (last_colon_le (slice m pptr plen) (Z.to_nat plen)) as Hi. set (i := last_colon (slice m pptr plen) (Z.to_nat plen)) in *.
  destruct (Z.eqb_spec i 0) as [Hi0|Hi0].
  { rewrite Hi0. cbn [Z.to_nat firstn app]. exact Hnone. }
  change (firstn (Z.to_nat i) (slice m pptr plen)) with (slice (slice m pptr plen) 0 i). rewrite slice_slice by lia.
  set (src := slice m pptr i).
  assert (Hsrc : length src = Z.to_nat i) by (apply slice_length; lia).
  assert (Hat : (Z.to_nat (cptr - i) + length src <= length m)%nat) by lia.
  split; [|split; [apply overwrite_length, Hat|split; [|lia]]].
  - rewrite overwrite_eq by exact Hat. unfold slice at 1.
    assert (Hf : length (firstn (Z.to_nat (cptr - i)) m) = Z.to_nat (cptr - i)) by (rewrite firstn_length_le; lia).
    rewrite <- Hf at 1. rewrite skipn_app, skipn_all, Nat.sub_diag. cbn [app skipn].
    replace (Z.to_nat (clen + i)) with (length src + Z.to_nat clen)%nat by lia.
    rewrite firstn_app_2. f_equal. unfold slice. do 2 f_equal. lia.
  - rewrite overwrite_eq by exact Hat.
    replace (Z.to_nat (cptr + clen)) with (length (firstn (Z.to_nat (cptr - i)) m ++ src) + Z.to_nat clen)%nat
      by (rewrite app_length, firstn_length_le; lia).
    rewrite app_assoc, skipn_app. rewrite (skipn_all2 (firstn (Z.to_nat (cptr - i)) m ++ src)) by lia. cbn [app].
    replace (length (firstn (Z.to_nat (cptr - i)) m ++ src) + Z.to_nat clen - length (firstn (Z.to_nat (cptr - i)) m ++ src))%nat with (Z.to_nat clen) by lia.
    rewrite skipn_skipn'. f_equal. rewrite app_length, firstn_length_le; lia.
Qed.

(* ---------- first matching table entry ---------- *)
Fixpoint first_match (table:list (bytes * Z * list op)) (hdr:bytes) : option (bytes * Z * list op) :=
  match table with
  | [] => None
  | (pat,tg,sc) :: r => match MatchModel.matchCommand pat hdr None 0 with MatchModel.Res true _ => Some (pat,tg,sc) | _ => first_match r hdr end
  end.
Lemma find_cmd_first c hdr : find_cmd c hdr = first_match (cmds c) hdr.
Proof. unfold find_cmd. induction (cmds c) as [|[[pat tg] sc] r IH]; [reflexivity|]. cbn [first_match]. rewrite <- IH. reflexivity. Qed.
Definition accepts (e:bytes * Z * list op) (hdr:bytes) : bool :=
  match MatchModel.matchCommand (fst (fst e)) hdr None 0 with MatchModel.Res true _ => true | _ => false end.
Lemma first_match_spec table hdr :
  match first_match table hdr with
  | Some e => exists l1 l2, table = l1 ++ e :: l2 /\ accepts e hdr = true /\ forallb (fun e' => negb (accepts e' hdr)) l1 = true
  | None => forallb (fun e' => negb (accepts e' hdr)) table = true
  end.
Proof.
  induction table as [|[[pat tg] sc] r IH]; [reflexivity|]. cbn [first_match].
  destruct (MatchModel.matchCommand pat hdr None 0) as [[|] nums] eqn:E.
  - exists [], r. unfold accepts. cbn [fst]. rewrite E. auto.
  - destruct (first_match r hdr) as [e|].
    + destruct IH as (l1 & l2 & -> & Ha & Hn). exists ((pat,tg,sc) :: l1), l2. cbn [app forallb]. unfold accepts at 2. cbn [fst]. rewrite E. auto.
    + cbn [forallb]. unfold accepts at 1. cbn [fst]. rewrite E. exact IH.
Qed.

(* ---------- the specification: handler starts of a message, from the message text alone ---------- *)
Fixpoint spec_units (fuel:nat) (m:bytes) (table:list (bytes * Z * list op)) (off len:Z) (prev:option bytes) : list (Z * bytes) :=
  match fuel with O => [] | S f =>
    let u := LexModel.detect_unit (slice m off len) in
    let h := LexModel.u_hdr u in
    let r := LexModel.u_consumed u in
    let '(evs, prev') :=
      match LexModel.ty h with
      | LexModel.T_INVALID => ([], prev)
      | _ => if 0 <? LexModel.len h then
               let eff := effective prev (slice m (off + LexModel.ptr h) (LexModel.len h)) in
               (match first_match table eff with Some (_, tag, _) => [(tag, eff)] | None => [] end, Some eff)
             else ([], prev)
      end in
    evs ++ (if r <? len then spec_units f m table (off + r) (len - r) prev' else [])
  end.

Lemma slice_ext m m' a off len : 0 <= a <= off -> skipn (Z.to_nat a) m = skipn (Z.to_nat a) m' -> slice m off len = slice m' off len.
Proof.
  intros Ha H. unfold slice. f_equal. replace (Z.to_nat off) with (Z.to_nat a + Z.to_nat (off - a))%nat by lia.
  rewrite <- !skipn_skipn'. now rewrite H.
Qed.
Lemma skipn_ext_more {A} (m m':list A) a b : (a <= b)%nat -> skipn a m = skipn a m' -> skipn b m = skipn b m'.
Proof. intros Hab H. replace b with (a + (b - a))%nat by lia. rewrite <- !skipn_skipn'. now rewrite H. Qed.

Section Loop.
  (* geometry of a recognised unit: from the lexer bounds (LexBounds.v / UnitProgress.v) *)
  Hypothesis consumed_nonneg : forall l : list N, 0 <= LexModel.u_consumed (LexModel.detect_unit l) <= Z.of_nat (@length N l).
  Hypothesis header_inside_unit : forall l : list N, let u := LexModel.detect_unit l in
    LexModel.ty (LexModel.u_hdr u) <> LexModel.T_INVALID ->
    0 <= LexModel.ptr (LexModel.u_hdr u) /\ 0 <= LexModel.len (LexModel.u_hdr u) /\
    LexModel.ptr (LexModel.u_hdr u) + LexModel.len (LexModel.u_hdr u) <= LexModel.u_consumed u.

  Lemma spec_units_ext table fuel : forall m m' off len prev, 0 <= off ->
    skipn (Z.to_nat off) m = skipn (Z.to_nat off) m' ->
    spec_units fuel m table off len prev = spec_units fuel m' table off len prev.
  Proof.
    induction fuel as [|f IH]; intros m m' off len prev Hoff H; [reflexivity|]. cbn [spec_units].
    rewrite (slice_ext m m' off off len ltac:(lia) H).
    set (u := LexModel.detect_unit (slice m' off len)). pose proof (consumed_nonneg (slice m' off len)) as Hr. fold u in Hr.
    assert (Hrec : forall p, spec_units f m table (off + LexModel.u_consumed u) (len - LexModel.u_consumed u) p =
                             spec_units f m' table (off + LexModel.u_consumed u) (len - LexModel.u_consumed u) p).
    { intro p. apply IH; [lia|]. eapply skipn_ext_more; [|exact H]. lia. }
    destruct (LexModel.ty (LexModel.u_hdr u)) eqn:Ety;
    try (cbv beta iota zeta; rewrite Hrec; reflexivity);
    (pose proof (header_inside_unit (slice m' off len)) as Hg; fold u in Hg; cbn zeta in Hg; specialize (Hg ltac:(rewrite Ety; discriminate));
     rewrite (slice_ext m m' off (off + LexModel.ptr (LexModel.u_hdr u)) (LexModel.len (LexModel.u_hdr u)) ltac:(lia) H);
     destruct (0 <? LexModel.len (LexModel.u_hdr u)); cbv beta iota zeta; rewrite Hrec; reflexivity).
  Qed.

  Definition spec_body (m:bytes) (table:list (bytes * Z * list op)) (off len:Z) (prev:option bytes) : list (Z * bytes) * option bytes :=
    let u := LexModel.detect_unit (slice m off len) in
    let h := LexModel.u_hdr u in
    match LexModel.ty h with
    | LexModel.T_INVALID => ([], prev)
    | _ => if 0 <? LexModel.len h then
             let eff := effective prev (slice m (off + LexModel.ptr h) (LexModel.len h)) in
             (match first_match table eff with Some (_, tag, _) => [(tag, eff)] | None => [] end, Some eff)
           else ([], prev)
    end.
  Lemma spec_units_S f m table off len prev :
    spec_units (S f) m table off len prev =
    let r := LexModel.u_consumed (LexModel.detect_unit (slice m off len)) in
    let '(evs, prev') := spec_body m table off len prev in
    evs ++ (if r <? len then spec_units f m table (off + r) (len - r) prev' else []).
  Proof. reflexivity. Qed.

  Definition prev_ok (m:bytes) (off:Z) (prev:option (Z*Z)) (ps:option bytes) : Prop :=
    match prev, ps with
    | None, None => True
    | Some (hp, hl), Some s => 0 <= hp /\ 0 < hl /\ hp + hl <= off /\ slice m hp hl = s
    | _, _ => False
    end.
  Definition mkH (x:Z * bytes) : event := EvH (fst x) (snd x).

  Lemma body_dispatch c off len prev ps result d : 0 <= off -> 0 <= len -> off + len <= Z.of_nat (length (mem c)) -> prev_ok (mem c) off prev ps ->
    let r := LexModel.u_consumed (LexModel.detect_unit (slice (mem c) off len)) in
    let '(c1, prev1, _, r1) := loop_body c off len prev result d in
    let '(evs, ps') := spec_body (mem c) (cmds c) off len ps in
    r1 = r /\ hdrs (trace c1) = rev (map mkH evs) ++ hdrs (trace c) /\ cmds c1 = cmds c /\ length (mem c1) = length (mem c) /\
    skipn (Z.to_nat (off + r)) (mem c1) = skipn (Z.to_nat (off + r)) (mem c) /\ prev_ok (mem c1) (off + r) prev1 ps'.
  Proof.
    intros Hoff Hlen Hfit Hprev. cbn zeta. unfold loop_body, spec_body. cbv zeta.
    assert (Hsl : length (slice (mem c) off len) = Z.to_nat len) by (apply slice_length; lia).
    pose proof (consumed_nonneg (slice (mem c) off len)) as Hr. rewrite Hsl in Hr.
    pose proof (header_inside_unit (slice (mem c) off len)) as Hg. cbn zeta in Hg.
    set (u := LexModel.detect_unit (slice (mem c) off len)) in *. set (r := LexModel.u_consumed u) in *.
    (* the cases that start no handler and keep the previous header *)
    assert (Hkeep : forall c1, K c c1 ->
      r = r /\ hdrs (trace c1) = rev (map mkH []) ++ hdrs (trace c) /\ cmds c1 = cmds c /\ length (mem c1) = length (mem c) /\
      skipn (Z.to_nat (off + r)) (mem c1) = skipn (Z.to_nat (off + r)) (mem c) /\ prev_ok (mem c1) (off + r) prev ps).
    { intros c1 (A1 & A2 & A3). rewrite A1, A2, A3. repeat split.
      unfold prev_ok in *. destruct prev as [[hp hl]|], ps as [s|]; auto. destruct Hprev as (B1 & B2 & B3 & B4). repeat split; try lia. exact B4. }
    assert (Hmain : LexModel.ty (LexModel.u_hdr u) <> LexModel.T_INVALID ->
      let '(c1, prev1, _, r1) :=
        (let '(c1, prev1, result1) :=
          if 0 <? LexModel.len (LexModel.u_hdr u) then
            let '(m1, hp, hl) := compose (mem c) prev (off + LexModel.ptr (LexModel.u_hdr u)) (LexModel.len (LexModel.u_hdr u)) in
            match find_cmd (upd_mem c m1) (slice m1 hp hl) with
            | Some e => let '(c3, res) := process_command (upd_unit (upd_mem c m1) e (off + LexModel.ptr (LexModel.u_data u)) (LexModel.len (LexModel.u_data u)) hp hl) d in
                        (c3, Some (hp, hl), result && res)
            | None => (error_push (upd_mem c m1) (-113) (Some (dropm m1 off, trim_crlf m1 off (Z.to_nat r))), Some (hp, hl), false)
            end
          else (c, prev, result) in (c1, prev1, result1, r)) in
      let '(evs, ps') :=
        if 0 <? LexModel.len (LexModel.u_hdr u) then
          (match first_match (cmds c) (effective ps (slice (mem c) (off + LexModel.ptr (LexModel.u_hdr u)) (LexModel.len (LexModel.u_hdr u)))) with
           | Some (_, tag, _) => [(tag, effective ps (slice (mem c) (off + LexModel.ptr (LexModel.u_hdr u)) (LexModel.len (LexModel.u_hdr u))))] | None => [] end,
           Some (effective ps (slice (mem c) (off + LexModel.ptr (LexModel.u_hdr u)) (LexModel.len (LexModel.u_hdr u)))))
        else ([], ps) in
      r1 = r /\ hdrs (trace c1) = rev (map mkH evs) ++ hdrs (trace c) /\ cmds c1 = cmds c /\ length (mem c1) = length (mem c) /\
      skipn (Z.to_nat (off + r)) (mem c1) = skipn (Z.to_nat (off + r)) (mem c) /\ prev_ok (mem c1) (off + r) prev1 ps').
    { intro Hv. specialize (Hg Hv). destruct Hg as (G1 & G2 & G3). fold r in G3.
      destruct (Z.ltb_spec 0 (LexModel.len (LexModel.u_hdr u))) as [Hpos|Hnp]; [|apply Hkeep, K_refl].
      set (cptr := off + LexModel.ptr (LexModel.u_hdr u)) in *. set (clen := LexModel.len (LexModel.u_hdr u)) in *.
      set (cur_ := slice (mem c) cptr clen).
      (* composition *)
      assert (Hcomp : let '(m1, hp, hl) := compose (mem c) prev cptr clen in
                slice m1 hp hl = effective ps cur_ /\ length m1 = length (mem c) /\
                skipn (Z.to_nat (cptr + clen)) m1 = skipn (Z.to_nat (cptr + clen)) (mem c) /\ 0 <= hp /\ hp + hl = cptr + clen /\ 0 < hl).
      { unfold prev_ok in Hprev. destruct prev as [[hp hl]|], ps as [s|]; try contradiction.
        - destruct Hprev as (B1 & B2 & B3 & B4). pose proof (compose_spec (mem c) hp hl cptr clen B1 ltac:(lia) ltac:(lia) Hpos ltac:(lia)) as H.
          destruct (compose (mem c) (Some (hp, hl)) cptr clen) as [[m1 hp'] hl']. rewrite B4 in H. destruct H as (H1 & H2 & H3 & H4 & H5 & H6). repeat split; auto; lia.
        - cbn [compose effective]. repeat split; auto; lia. }
      destruct (compose (mem c) prev cptr clen) as [[m1 hp] hl]. destruct Hcomp as (E1 & E2 & E3 & E4 & E5 & E6).
      rewrite find_cmd_first. cbn [cmds upd_mem]. rewrite E1.
      assert (Hskip : skipn (Z.to_nat (off + r)) m1 = skipn (Z.to_nat (off + r)) (mem c)) by (eapply skipn_ext_more; [|exact E3]; lia).
      assert (Hpo : prev_ok m1 (off + r) (Some (hp, hl)) (Some (effective ps cur_))) by (cbn [prev_ok]; repeat split; try lia; exact E1).
      destruct (first_match (cmds c) (effective ps cur_)) as [[[pat tag] script]|].
      - set (c2 := upd_unit (upd_mem c m1) (pat, tag, script) _ _ hp hl).
        pose proof (unit_dispatch c2 d pat tag script eq_refl) as H. cbn zeta in H. destruct (process_command c2 d) as [c3 res]. cbn [fst] in H.
        destruct H as (A1 & A2 & A3). cbn [mem cmds trace raw_off raw_len c2 upd_unit upd_mem] in A1, A2, A3. rewrite A1, A2, A3, E1.
        cbn [map rev app mkH fst snd]. repeat split; auto; subst cptr clen; lia.
      - assert (Hk : K (upd_mem c m1) (error_push (upd_mem c m1) (-113) (Some (dropm m1 off, trim_crlf m1 off (Z.to_nat r))))) by apply K_error_push.
        destruct Hk as (A1 & A2 & A3). rewrite A1, A2, A3. cbn [mem cmds trace upd_mem map rev app]. repeat split; auto; subst cptr clen; lia. }
    destruct (LexModel.ty (LexModel.u_hdr u)) eqn:Ety; try (apply Hmain; discriminate).
    apply Hkeep, K_error_push.
  Qed.

  Lemma loop_dispatch fuel : forall c off len prev ps result d,
    0 <= off -> 0 <= len -> off + len <= Z.of_nat (length (mem c)) -> prev_ok (mem c) off prev ps ->
    let c' := fst (parse_loop fuel c off len prev result d) in
    hdrs (trace c') = rev (map mkH (spec_units fuel (mem c) (cmds c) off len ps)) ++ hdrs (trace c).
  Proof.
    induction fuel as [|f IH]; intros c off len prev ps result d Hoff Hlen Hfit Hprev; [reflexivity|].
    cbn zeta. rewrite parse_loop_S, spec_units_S. cbn zeta.
    pose proof (body_dispatch c off len prev ps result d Hoff Hlen Hfit Hprev) as Hb. cbn zeta in Hb.
    assert (Hsl : length (slice (mem c) off len) = Z.to_nat len) by (apply slice_length; lia).
    pose proof (consumed_nonneg (slice (mem c) off len)) as Hr. rewrite Hsl in Hr.
    set (r := LexModel.u_consumed (LexModel.detect_unit (slice (mem c) off len))) in *.
    destruct (loop_body c off len prev result d) as [[[c1 prev1] result1] r1].
    destruct (spec_body (mem c) (cmds c) off len ps) as [evs ps'].
    destruct Hb as (-> & B2 & B3 & B4 & B5 & B6).
    destruct (Z.ltb_spec r len) as [Hlt|Hge].
    - specialize (IH c1 (off + r) (len - r) prev1 ps' result1 d ltac:(lia) ltac:(lia) ltac:(lia) B6). cbn zeta in IH.
      rewrite IH, B2, B3. rewrite (spec_units_ext (cmds c) f (mem c1) (mem c) (off + r) (len - r) ps' ltac:(lia) B5).
      rewrite map_app, rev_app_distr, app_assoc. reflexivity.
    - cbn [fst]. rewrite app_nil_r. exact B2.
  Qed.

  (* C02, dispatch half: the handler starts of a message are determined by the message text and the table alone:
     every unit starts the first entry accepting its effective header, once, in order; the path is empty at the start *)
  Theorem dispatch c len d : 0 <= len <= Z.of_nat (length (mem c)) ->
    let c' := fst (scpi_parse c len d) in
    hdrs (trace c') = rev (map mkH (spec_units (S (Z.to_nat len)) (mem c) (cmds c) 0 len None)) ++ hdrs (trace c).
  Proof.
    intro Hl. unfold scpi_parse. set (c0 := upd_out c true 0 (arb_rem c)).
    pose proof (loop_dispatch (S (Z.to_nat len)) c0 0 len None None true d ltac:(lia) ltac:(lia) ltac:(cbn [mem c0 upd_out]; lia) I) as H. cbn zeta in H.
    destruct (parse_loop (S (Z.to_nat len)) c0 0 len None true d) as [c1 res]. cbn [fst] in *.
    change (mem c0) with (mem c) in H. change (cmds c0) with (cmds c) in H. change (trace c0) with (trace c) in H.
    rewrite <- H. destruct (negb (first_output c1)); [|reflexivity]. cbn [trace upd_out ev]. unfold write. cbn [trace ev hdrs filter is_hdr]. reflexivity.
  Qed.
End Loop.

(* ---------- discharge of the lexer-geometry hypotheses ---------- *)
From M Require UnitProgress UnitGeom.
Lemma consumed_bounds (l:list N) : 0 <= LexModel.u_consumed (LexModel.detect_unit l) <= Z.of_nat (@length N l).
Proof. exact (proj1 (UnitProgress.detect_progress l)). Qed.
Theorem dispatch_closed c len d : 0 <= len <= Z.of_nat (length (mem c)) ->
  hdrs (trace (fst (scpi_parse c len d))) = rev (map mkH (spec_units (S (Z.to_nat len)) (mem c) (cmds c) 0 len None)) ++ hdrs (trace c).
Proof. exact (dispatch consumed_bounds UnitGeom.header_inside_unit c len d). Qed.
Print Assumptions dispatch_closed.
Print Assumptions compose_spec.
Print Assumptions first_match_spec.

(* non-vacuity: the table and message of the framing example; "A?;N?;B?" starts 1, 2, 3 in order *)
Example ex_dispatch :
  spec_units 10 ex_msg ex_cmds 0 9 None = [(1, [65;63]%N); (2, [78;63]%N); (3, [66;63]%N)] /\
  rev (hdrs (trace (fst (scpi_parse (ex_ctx ex_msg) 9 desc_of)))) = [EvH 1 [65;63]%N; EvH 2 [78;63]%N; EvH 3 [66;63]%N].
Proof. split; vm_compute; reflexivity. Qed.
(* and the compound-path rule on a concrete pair *)
Example ex_effective :
  effective (Some [83;89;83;84;58;69;82;82]%N) [86;69;82;83]%N = [83;89;83;84;58;86;69;82;83]%N /\      (* SYST:ERR then VERS -> SYST:VERS *)
  effective (Some [83;89;83;84;58;69;82;82]%N) [58;86;69;82;83]%N = [58;86;69;82;83]%N /\             (* leading colon: as written *)
  effective (Some [42;82;83;84]%N) [86;69;82;83]%N = [86;69;82;83]%N.                                 (* after a common command: as written *)
Proof. repeat split; vm_compute; reflexivity. Qed.
