(* C08 -- property theorems only: every statement is closed by `exact` on a lemma proved elsewhere.
   Statements are pinned by coq/statements/C08.json; ./check compares. *)
From Coq Require Import Bool List NArith ZArith Lia.
From M Require Chunk.
From M Require ParserModel.
Import ListNotations.

Module T_pending_is_prefix. Import Chunk. Local Open Scope bool_scope. Local Open Scope Z_scope.
Import ParserModel. Local Open Scope Z_scope.
Theorem C08_pending_is_prefix :
  forall c x d,
  x <> [] ->
  input_core c x d = input_core (upd_mem c []) (mem c ++ x) d.
Proof. exact (@Chunk.pending_is_prefix). Qed.
End T_pending_is_prefix.
Definition C08_pending_is_prefix := @T_pending_is_prefix.C08_pending_is_prefix.

Module T_quiet_chunk_accumulates. Import Chunk. Local Open Scope bool_scope. Local Open Scope Z_scope.
Import ParserModel. Local Open Scope Z_scope.
Theorem C08_quiet_chunk_accumulates :
  forall c x d,
  x <> [] -> Z.of_nat (length x) <= cap c - Z.of_nat (length (mem c)) - 1 ->
  scan_quiet (S (S (length (mem c ++ x)))) (mem c ++ x) 0 = true ->
  input_core c x d = (upd_mem c (mem c ++ x), true).
Proof. exact (@Chunk.quiet_chunk_accumulates). Qed.
End T_quiet_chunk_accumulates.
Definition C08_quiet_chunk_accumulates := @T_quiet_chunk_accumulates.C08_quiet_chunk_accumulates.

Module T_split_before_message. Import Chunk. Local Open Scope bool_scope. Local Open Scope Z_scope.
Import ParserModel. Local Open Scope Z_scope.
Theorem C08_split_before_message :
  forall c x y d,
  x <> [] -> y <> [] ->
  Z.of_nat (length x) + Z.of_nat (length y) <= cap c - Z.of_nat (length (mem c)) - 1 ->
  scan_quiet (S (S (length (mem c ++ x)))) (mem c ++ x) 0 = true ->
  input_core (fst (input_core c x d)) y d = input_core c (x ++ y) d.
Proof. exact (@Chunk.split_before_message). Qed.
End T_split_before_message.
Definition C08_split_before_message := @T_split_before_message.C08_split_before_message.

Module T_chunks_before_message. Import Chunk. Local Open Scope bool_scope. Local Open Scope Z_scope.
Import ParserModel. Local Open Scope Z_scope.
Theorem C08_chunks_before_message :
  forall chunks c y d, quiet_prefixes (mem c) chunks -> y <> [] ->
  Z.of_nat (length (concat chunks)) + Z.of_nat (length y) <= cap c - Z.of_nat (length (mem c)) - 1 ->
  input_core (feed c chunks d) y d = input_core c (concat chunks ++ y) d.
Proof. exact (@Chunk.chunks_before_message). Qed.
End T_chunks_before_message.
Definition C08_chunks_before_message := @T_chunks_before_message.C08_chunks_before_message.

