(* C08 -- property theorems only: every statement is closed by `exact` on a lemma proved elsewhere.
   Statements are pinned by coq/statements/C08.json; ./check compares. *)
From Coq Require Import Bool List NArith ZArith Lia.
From M Require Chunk.
From M Require LexCut.
From M Require MultiMsg.
From M Require EmptyMsg.
From M Require CrLf.
From M Require Chunk.
From M Require Framing2.
From M Require Fuel.
From M Require Isolation.
From M Require LexBounds.
From M Require LexModel.
From M Require MultiMsg.
From M Require ParserModel.
From M Require UnitProgress.
Import ListNotations.

Module T_pending_is_prefix. Import Chunk. Local Open Scope bool_scope. Local Open Scope Z_scope.
Import ParserModel. Local Open Scope Z_scope.
Theorem C08_pending_is_prefix :
  forall c x d,
  x <> [] ->
  input_core c x d = input_core (upd_mem c []) (mem c ++ x) d.
Proof. exact (@Chunk.pending_is_prefix). Qed.
End T_pending_is_prefix.
Definition C08_pending_is_prefix := @T_pending_is_prefix.C08_pending_is_prefix.

Module T_quiet_chunk_accumulates. Import Chunk. Local Open Scope bool_scope. Local Open Scope Z_scope.
Import ParserModel. Local Open Scope Z_scope.
Theorem C08_quiet_chunk_accumulates :
  forall c x d,
  x <> [] -> Z.of_nat (length x) <= cap c - Z.of_nat (length (mem c)) - 1 ->
  scan_quiet (S (S (length (mem c ++ x)))) (mem c ++ x) 0 = true ->
  input_core c x d = (upd_mem c (mem c ++ x), true).
Proof. exact (@Chunk.quiet_chunk_accumulates). Qed.
End T_quiet_chunk_accumulates.
Definition C08_quiet_chunk_accumulates := @T_quiet_chunk_accumulates.C08_quiet_chunk_accumulates.

Module T_split_before_message. Import Chunk. Local Open Scope bool_scope. Local Open Scope Z_scope.
Import ParserModel. Local Open Scope Z_scope.
Theorem C08_split_before_message :
  forall c x y d,
  x <> [] -> y <> [] ->
  Z.of_nat (length x) + Z.of_nat (length y) <= cap c - Z.of_nat (length (mem c)) - 1 ->
  scan_quiet (S (S (length (mem c ++ x)))) (mem c ++ x) 0 = true ->
  input_core (fst (input_core c x d)) y d = input_core c (x ++ y) d.
Proof. exact (@Chunk.split_before_message). Qed.
End T_split_before_message.
Definition C08_split_before_message := @T_split_before_message.C08_split_before_message.

Module T_chunks_before_message. Import Chunk. Local Open Scope bool_scope. Local Open Scope Z_scope.
Import ParserModel. Local Open Scope Z_scope.
Theorem C08_chunks_before_message :
  forall chunks c y d, quiet_prefixes (mem c) chunks -> y <> [] ->
  Z.of_nat (length (concat chunks)) + Z.of_nat (length y) <= cap c - Z.of_nat (length (mem c)) - 1 ->
  input_core (feed c chunks d) y d = input_core c (concat chunks ++ y) d.
Proof. exact (@Chunk.chunks_before_message). Qed.
End T_chunks_before_message.
Definition C08_chunks_before_message := @T_chunks_before_message.C08_chunks_before_message.

Module T_flush_executes_pending. Import Chunk. Local Open Scope bool_scope. Local Open Scope Z_scope.
Import ParserModel. Local Open Scope Z_scope.
Theorem C08_flush_executes_pending :
  forall c d,
  input_core c [] d = (upd_mem (fst (scpi_parse c (Z.of_nat (length (mem c))) d)) [], snd (scpi_parse c (Z.of_nat (length (mem c))) d)).
Proof. exact (@Chunk.flush_executes_pending). Qed.
End T_flush_executes_pending.
Definition C08_flush_executes_pending := @T_flush_executes_pending.C08_flush_executes_pending.

Module T_overrun_discards. Import Chunk. Local Open Scope bool_scope. Local Open Scope Z_scope.
Import ParserModel. Local Open Scope Z_scope.
Theorem C08_overrun_discards :
  forall c x d,
  x <> [] -> cap c - Z.of_nat (length (mem c)) - 1 < Z.of_nat (length x) ->
  input_core c x d = (error_push (upd_mem c []) (-363) None, false).
Proof. exact (@Chunk.overrun_discards). Qed.
End T_overrun_discards.
Definition C08_overrun_discards := @T_overrun_discards.C08_overrun_discards.

Definition C08_partition_reduction := @Chunk.partition_reduction.

Module T_partition_one_message. Import Chunk. Local Open Scope bool_scope. Local Open Scope Z_scope.
Import ParserModel. Local Open Scope Z_scope.
Theorem C08_partition_one_message :
  forall d chunks c,
  chunks <> [] -> Forall (fun x => x <> []) chunks -> quiet_class c (concat chunks) ->
  feed c chunks d = fst (input_core c (concat chunks) d).
Proof. exact (@Chunk.partition_one_message). Qed.
End T_partition_one_message.
Definition C08_partition_one_message := @T_partition_one_message.C08_partition_one_message.

Module T_message_in_pieces. Import Chunk. Local Open Scope bool_scope. Local Open Scope Z_scope.
Import ParserModel. Local Open Scope Z_scope.
Theorem C08_message_in_pieces :
  forall c msg t,
  mem c = [] -> no_nl msg -> Z.of_nat (length msg) + 1 <= cap c - 1 -> quiet_class c (msg ++ [t]).
Proof. exact (@Chunk.message_in_pieces). Qed.
End T_message_in_pieces.
Definition C08_message_in_pieces := @T_message_in_pieces.C08_message_in_pieces.

Module T_one_message_any_partition. Import Chunk. Local Open Scope bool_scope. Local Open Scope Z_scope.
Import ParserModel. Local Open Scope Z_scope.
Theorem C08_one_message_any_partition :
  forall d c msg t chunks,
  mem c = [] -> no_nl msg -> Z.of_nat (length msg) + 1 <= cap c - 1 ->
  chunks <> [] -> Forall (fun x => x <> []) chunks -> concat chunks = msg ++ [t] ->
  feed c chunks d = fst (input_core c (msg ++ [t]) d).
Proof. exact (@Chunk.one_message_any_partition). Qed.
End T_one_message_any_partition.
Definition C08_one_message_any_partition := @T_one_message_any_partition.C08_one_message_any_partition.

Module T_detect_cut. Import LexCut. Local Open Scope bool_scope. Local Open Scope Z_scope.
Import LexModel LexBounds UnitProgress. Local Open Scope Z_scope.
Theorem C08_detect_cut :
  forall a t z,
  plain a -> tchar t -> detect_unit (a ++ t :: z) = detect_t a t (starts (ischr 10%N) z).
Proof. exact (@LexCut.detect_cut). Qed.
End T_detect_cut.
Definition C08_detect_cut := @T_detect_cut.C08_detect_cut.

Module T_scan_msg. Import MultiMsg. Local Open Scope bool_scope. Local Open Scope Z_scope.
Import ParserModel Chunk Fuel. Local Open Scope Z_scope.
Theorem C08_scan_msg :
  forall d a0 rest,
  seg a0 -> forall f tot c res, mem c = a0 ++ 10%N :: rest -> 0 <= tot <= Z.of_nat (length a0) ->
  (Z.to_nat (Z.of_nat (length a0) - tot) < f)%nat ->
  exists k, (1 <= k <= f)%nat /\ Z.of_nat k <= Z.of_nat (length a0) + 1 - tot /\
    input_loop f c tot res d =
      (let '(c1, res1) := scpi_parse c (Z.of_nat (length a0) + 1) d in
       input_loop (f - k) (upd_mem c1 (dropm (mem c1) (Z.of_nat (length a0) + 1))) 0 res1 d).
Proof. exact (@MultiMsg.scan_msg). Qed.
End T_scan_msg.
Definition C08_scan_msg := @T_scan_msg.C08_scan_msg.

Module T_scpi_parse_tail. Import MultiMsg. Local Open Scope bool_scope. Local Open Scope Z_scope.
Import ParserModel Chunk Fuel. Local Open Scope Z_scope.
Theorem C08_scpi_parse_tail :
  forall c n d,
  0 <= n <= Z.of_nat (length (mem c)) -> dropm (mem (fst (scpi_parse c n d))) n = dropm (mem c) n.
Proof. exact (@MultiMsg.scpi_parse_tail). Qed.
End T_scpi_parse_tail.
Definition C08_scpi_parse_tail := @T_scpi_parse_tail.C08_scpi_parse_tail.

Module T_parse_is_local. Import MultiMsg. Local Open Scope bool_scope. Local Open Scope Z_scope.
Import ParserModel Chunk Fuel. Local Open Scope Z_scope.
Theorem C08_parse_is_local :
  forall d,
  parse_local d.
Proof. exact (@MultiMsg.parse_is_local). Qed.
End T_parse_is_local.
Definition C08_parse_is_local := @T_parse_is_local.C08_parse_is_local.

Module T_ok_stream_any_partition_all. Import MultiMsg. Local Open Scope bool_scope. Local Open Scope Z_scope.
Import ParserModel Chunk Fuel. Local Open Scope Z_scope.
Theorem C08_ok_stream_any_partition_all :
  forall d chunks c,
  chunks <> [] -> Forall (fun x => x <> []) chunks -> ok_class c (concat chunks) ->
  feed c chunks d = fst (input_core c (concat chunks) d).
Proof. exact (@MultiMsg.ok_stream_any_partition_all). Qed.
End T_ok_stream_any_partition_all.
Definition C08_ok_stream_any_partition_all := @T_ok_stream_any_partition_all.C08_ok_stream_any_partition_all.

Module T_empty_message_silent. Import EmptyMsg. Local Open Scope bool_scope. Local Open Scope Z_scope.
Import ParserModel Chunk Isolation. Local Open Scope Z_scope.
Theorem C08_empty_message_silent :
  forall c t d,
  mem c = [] -> (t = 10%N \/ t = 13%N) -> 2 <= cap c -> first_output c = true ->
  E c (fst (input_core c [t] d)) /\ snd (input_core c [t] d) = true.
Proof. exact (@EmptyMsg.empty_message_silent). Qed.
End T_empty_message_silent.
Definition C08_empty_message_silent := @T_empty_message_silent.C08_empty_message_silent.

Module T_scan_msg_gen. Import MultiMsg. Local Open Scope bool_scope. Local Open Scope Z_scope.
Import ParserModel Chunk Fuel. Local Open Scope Z_scope.
Theorem C08_scan_msg_gen :
  forall d a0 tm rest,
  seg a0 -> (tm = 10%N \/ tm = 13%N) -> forall f tot c res, mem c = a0 ++ tm :: rest ->
  0 <= tot <= Z.of_nat (length a0) -> (Z.to_nat (Z.of_nat (length a0) - tot) < f)%nat ->
  exists k, (1 <= k <= f)%nat /\ Z.of_nat k <= Z.of_nat (length a0) + 1 - tot /\
    input_loop f c tot res d =
      (let '(c1, res1) := scpi_parse c (mlen a0 tm rest) d in
       input_loop (f - k) (upd_mem c1 (dropm (mem c1) (mlen a0 tm rest))) 0 res1 d).
Proof. exact (@MultiMsg.scan_msg_gen). Qed.
End T_scan_msg_gen.
Definition C08_scan_msg_gen := @T_scan_msg_gen.C08_scan_msg_gen.

Module T_scpi_parse_crlf. Import CrLf. Local Open Scope bool_scope. Local Open Scope Z_scope.
Import ParserModel Chunk Fuel Framing2 MultiMsg Isolation. Local Open Scope Z_scope.
Theorem C08_scpi_parse_crlf :
  forall d c a0 rest,
  mem c = a0 ++ 13%N :: 10%N :: rest -> seg a0 ->
  scpi_parse c (Z.of_nat (length a0) + 2) d = scpi_parse c (Z.of_nat (length a0) + 1) d.
Proof. exact (@CrLf.scpi_parse_crlf). Qed.
End T_scpi_parse_crlf.
Definition C08_scpi_parse_crlf := @T_scpi_parse_crlf.C08_scpi_parse_crlf.

Module T_crlf_stream_any_partition. Import CrLf. Local Open Scope bool_scope. Local Open Scope Z_scope.
Import ParserModel Chunk Fuel Framing2 MultiMsg Isolation. Local Open Scope Z_scope.
Theorem C08_crlf_stream_any_partition :
  forall d,
  forall chunks c, chunks <> [] -> Forall (fun x => x <> []) chunks -> ok_class' c (concat chunks) ->
  E (feed c chunks d) (fst (input_core c (concat chunks) d)).
Proof. exact (@CrLf.crlf_stream_any_partition). Qed.
End T_crlf_stream_any_partition.
Definition C08_crlf_stream_any_partition := @T_crlf_stream_any_partition.C08_crlf_stream_any_partition.

