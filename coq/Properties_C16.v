(* C16 -- property theorems only: every statement is closed by `exact` on a lemma proved elsewhere.
   Statements are pinned by coq/statements/C16.json; ./check compares. *)
From Coq Require Import Bool List NArith ZArith Lia.
From M Require GFmtSpec.
From M Require ILog.
From M Require Tie.
From M Require DtostreLayout.
From M Require DtostreSpec.
From M Require FpLen.
From M Require BufModel.
From M Require Dtostre.
From M Require DtostreCases1.
From M Require DtostreCases2.
From M Require DtostreCases3.
From M Require DtostreSpec.
From M Require GFmt.
From M Require GFmtSpec.
From M Require ILog.
From M Require NumDecode.
From M Require NumSyntax.
From M Require RtFloat.
Import ListNotations.

Module T_rne_nearest. Import GFmtSpec. Local Open Scope bool_scope. Local Open Scope Z_scope.
Import GFmt. Local Open Scope Z_scope.
Theorem C16_rne_nearest :
  forall n d,
  0 < d -> 0 <= n -> 2 * Z.abs (n - rne n d * d) <= d.
Proof. exact (@GFmtSpec.rne_nearest). Qed.
End T_rne_nearest.
Definition C16_rne_nearest := @T_rne_nearest.C16_rne_nearest.

Module T_rne_tie_even. Import GFmtSpec. Local Open Scope bool_scope. Local Open Scope Z_scope.
Import GFmt. Local Open Scope Z_scope.
Theorem C16_rne_tie_even :
  forall n d,
  0 < d -> 0 <= n -> 2 * (n mod d) = d -> Z.even (rne n d) = true.
Proof. exact (@GFmtSpec.rne_tie_even). Qed.
End T_rne_tie_even.
Definition C16_rne_tie_even := @T_rne_tie_even.C16_rne_tie_even.

Module T_sig_digits_nearest. Import GFmtSpec. Local Open Scope bool_scope. Local Open Scope Z_scope.
Import GFmt. Local Open Scope Z_scope.
Theorem C16_sig_digits_nearest :
  forall P n d,
  0 < P -> 0 < d -> 0 < n -> ilog_ok n d (ilog10 n d) = true ->
  let x0 := ilog10 n d in let s := x0 - P + 1 in
  let D0 := if 0 <=? s then rne n (d * 10 ^ s) else rne (n * 10 ^ (- s)) d in
  (if 0 <=? s then 2 * Z.abs (n - D0 * (d * 10 ^ s)) <= d * 10 ^ s else 2 * Z.abs (n * 10 ^ (- s) - D0 * d) <= d) /\
  10 ^ (P - 1) <= D0 <= 10 ^ P /\
  sig_digits P n d = (if D0 =? 10 ^ P then (10 ^ (P - 1), x0 + 1) else (D0, x0)).
Proof. exact (@GFmtSpec.sig_digits_nearest). Qed.
End T_sig_digits_nearest.
Definition C16_sig_digits_nearest := @T_sig_digits_nearest.C16_sig_digits_nearest.

Module T_ilog10_correct. Import ILog. Local Open Scope bool_scope. Local Open Scope Z_scope.
Import GFmt GFmtSpec. Local Open Scope Z_scope.
Theorem C16_ilog10_correct :
  forall n d,
  0 < n -> 0 < d -> -1200 <= Z.log2 n - Z.log2 d <= 1200 -> ilog_ok n d (ilog10 n d) = true.
Proof. exact (@ILog.ilog10_correct). Qed.
End T_ilog10_correct.
Definition C16_ilog10_correct := @T_ilog10_correct.C16_ilog10_correct.

Module T_dec64_in_range. Import ILog. Local Open Scope bool_scope. Local Open Scope Z_scope.
Import GFmt GFmtSpec. Local Open Scope Z_scope.
Theorem C16_dec64_in_range :
  forall bits,
  0 <= bits < 2 ^ 64 -> (bits mod 2 ^ 63) / 2 ^ 52 < 2047 ->
  let '(_, n, d) := dec64 bits in 0 < d /\ (0 < n -> -1200 <= Z.log2 n - Z.log2 d <= 1200).
Proof. exact (@ILog.dec64_in_range). Qed.
End T_dec64_in_range.
Definition C16_dec64_in_range := @T_dec64_in_range.C16_dec64_in_range.

Module T_sig_digits_nearest_closed. Import ILog. Local Open Scope bool_scope. Local Open Scope Z_scope.
Import GFmt GFmtSpec. Local Open Scope Z_scope.
Theorem C16_sig_digits_nearest_closed :
  forall P n d,
  0 < P -> 0 < d -> 0 < n -> -1200 <= Z.log2 n - Z.log2 d <= 1200 ->
  let x0 := ilog10 n d in let s := x0 - P + 1 in
  let D0 := if 0 <=? s then rne n (d * 10 ^ s) else rne (n * 10 ^ (- s)) d in
  (if 0 <=? s then 2 * Z.abs (n - D0 * (d * 10 ^ s)) <= d * 10 ^ s else 2 * Z.abs (n * 10 ^ (- s) - D0 * d) <= d) /\
  10 ^ (P - 1) <= D0 <= 10 ^ P /\
  sig_digits P n d = (if D0 =? 10 ^ P then (10 ^ (P - 1), x0 + 1) else (D0, x0)).
Proof. exact (@ILog.sig_digits_nearest_closed). Qed.
End T_sig_digits_nearest_closed.
Definition C16_sig_digits_nearest_closed := @T_sig_digits_nearest_closed.C16_sig_digits_nearest_closed.

Module T_tie_float_formats. Import Tie. Local Open Scope bool_scope. Local Open Scope Z_scope.
Local Open Scope Z_scope.
Theorem C16_tie_float_formats :
  Generated.gen_double_fmt = [115;110;112;114;105;110;116;102;40;40;115;41;44;32;40;108;41;44;32;34;37;46;49;53;108;103;34;44;32;40;118;41;41]%N /\
  Generated.gen_float_fmt = [115;110;112;114;105;110;116;102;40;40;115;41;44;32;40;108;41;44;32;34;37;103;34;44;32;40;118;41;41]%N.
Proof. exact (@Tie.tie_float_formats). Qed.
End T_tie_float_formats.
Definition C16_tie_float_formats := @T_tie_float_formats.C16_tie_float_formats.

Module T_dtostre_layout. Import DtostreLayout. Local Open Scope bool_scope. Local Open Scope Z_scope.
Import GFmt NumDecode NumSyntax GFmtSpec ILog RtFloat Dtostre DtostreSpec DtostreCases1 DtostreCases2 DtostreCases3. Local Open Scope Z_scope.
Local Open Scope Z_scope.
Theorem C16_dtostre_layout :
  forall P ds k neg,
  1 <= P <= 15 -> length ds = Z.to_nat P -> Forall isdig ds -> (exists c, In c ds /\ c <> 48) ->
  -400 <= k <= 400 -> layout ds k P neg = (g_text neg P ds (k - 1), false).
Proof. exact (@DtostreLayout.dtostre_layout). Qed.
End T_dtostre_layout.
Definition C16_dtostre_layout := @T_dtostre_layout.C16_dtostre_layout.

Module T_g_text_reads_back. Import DtostreLayout. Local Open Scope bool_scope. Local Open Scope Z_scope.
Import GFmt NumDecode NumSyntax GFmtSpec ILog RtFloat Dtostre DtostreSpec DtostreCases1 DtostreCases2 DtostreCases3. Local Open Scope Z_scope.
Local Open Scope Z_scope.
Theorem C16_g_text_reads_back :
  forall P neg ds X rest,
  1 <= P <= 17 -> length ds = Z.to_nat P -> Forall isdigZ ds -> 0 < decZ ds ->
  -370 <= X <= 370 -> delim rest ->
  exists N' D', strtod_exact (bzl (g_text neg P ds X) ++ rest) = Some (neg, N', D') /\ 0 < D' /\
                N' * valden (X - P + 1) = valnum (decZ ds) (X - P + 1) * D'.
Proof. exact (@DtostreLayout.g_text_reads_back). Qed.
End T_g_text_reads_back.
Definition C16_g_text_reads_back := @T_g_text_reads_back.C16_g_text_reads_back.

Module T_dtostre_reads_back. Import DtostreLayout. Local Open Scope bool_scope. Local Open Scope Z_scope.
Import GFmt NumDecode NumSyntax GFmtSpec ILog RtFloat Dtostre DtostreSpec DtostreCases1 DtostreCases2 DtostreCases3. Local Open Scope Z_scope.
Local Open Scope Z_scope.
Theorem C16_dtostre_reads_back :
  forall P ds k neg rest,
  1 <= P <= 15 -> length ds = Z.to_nat P -> Forall isdigZ ds -> 0 < decZ ds ->
  -369 <= k <= 371 -> delim rest ->
  snd (layout ds k P neg) = false /\
  exists N' D', strtod_exact (bzl (fst (layout ds k P neg)) ++ rest) = Some (neg, N', D') /\ 0 < D' /\
                N' * valden (k - P) = valnum (decZ ds) (k - P) * D'.
Proof. exact (@DtostreLayout.dtostre_reads_back). Qed.
End T_dtostre_reads_back.
Definition C16_dtostre_reads_back := @T_dtostre_reads_back.C16_dtostre_reads_back.

Module T_fmt_g_is_g_text. Import DtostreSpec. Local Open Scope bool_scope. Local Open Scope Z_scope.
Import GFmt Dtostre. Local Open Scope bool_scope. Local Open Scope Z_scope.
Local Open Scope Z_scope.
Theorem C16_fmt_g_is_g_text :
  forall P0 neg n d,
  n <> 0 ->
  fmt_g P0 neg n d = let P := if P0 =? 0 then 1 else P0 in let '(D, X) := sig_digits P n d in g_text neg P (digits_of (Z.to_nat P) D []) X.
Proof. exact (@DtostreSpec.fmt_g_is_g_text). Qed.
End T_fmt_g_is_g_text.
Definition C16_fmt_g_is_g_text := @T_fmt_g_is_g_text.C16_fmt_g_is_g_text.

Module T_fmt_g_length. Import FpLen. Local Open Scope bool_scope. Local Open Scope Z_scope.
Import GFmt BufModel. Local Open Scope Z_scope.
Local Open Scope Z_scope.
Theorem C16_fmt_g_length :
  forall P neg n d,
  1 <= P -> Z.of_nat (length (fmt_g P neg n d)) <= P + 7.
Proof. exact (@FpLen.fmt_g_length). Qed.
End T_fmt_g_length.
Definition C16_fmt_g_length := @T_fmt_g_length.C16_fmt_g_length.

Module T_result_double_whole. Import FpLen. Local Open Scope bool_scope. Local Open Scope Z_scope.
Import GFmt BufModel. Local Open Scope Z_scope.
Local Open Scope Z_scope.
Theorem C16_result_double_whole :
  forall bits,
  double_to_str bits 32 = (fmt_double 15 bits, true, Z.of_nat (length (fmt_double 15 bits)), false).
Proof. exact (@FpLen.result_double_whole). Qed.
End T_result_double_whole.
Definition C16_result_double_whole := @T_result_double_whole.C16_result_double_whole.

Module T_result_float_whole. Import FpLen. Local Open Scope bool_scope. Local Open Scope Z_scope.
Import GFmt BufModel. Local Open Scope Z_scope.
Local Open Scope Z_scope.
Theorem C16_result_float_whole :
  forall bits,
  float_to_str bits 32 = (fmt_float 6 bits, true, Z.of_nat (length (fmt_float 6 bits)), false).
Proof. exact (@FpLen.result_float_whole). Qed.
End T_result_float_whole.
Definition C16_result_float_whole := @T_result_float_whole.C16_result_float_whole.

Module T_tie_dtostre_buf. Import Tie. Local Open Scope bool_scope. Local Open Scope Z_scope.
Local Open Scope Z_scope.
Theorem C16_tie_dtostre_buf :
  Z.of_nat (length (fst (Dtostre.setb (repeat Dtostre.UNINIT 32) 0 0))) = 32 /\ 32 <= Generated.gen_dtostre_buf.
Proof. exact (@Tie.tie_dtostre_buf). Qed.
End T_tie_dtostre_buf.
Definition C16_tie_dtostre_buf := @T_tie_dtostre_buf.C16_tie_dtostre_buf.

Module T_dtostre_zero. Import DtostreLayout. Local Open Scope bool_scope. Local Open Scope Z_scope.
Import GFmt NumDecode NumSyntax GFmtSpec ILog RtFloat Dtostre DtostreSpec DtostreCases1 DtostreCases2 DtostreCases3. Local Open Scope Z_scope.
Local Open Scope Z_scope.
Theorem C16_dtostre_zero :
  forall P neg,
  1 <= P <= 15 -> layout (repeat 48 (Z.to_nat P)) 0 P neg = ((if neg then [45] else []) ++ [48], false).
Proof. exact (@DtostreLayout.dtostre_zero). Qed.
End T_dtostre_zero.
Definition C16_dtostre_zero := @T_dtostre_zero.C16_dtostre_zero.

