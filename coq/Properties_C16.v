(* C16 -- property theorems only: every statement is closed by `exact` on a lemma proved elsewhere.
   Statements are pinned by coq/statements/C16.json; ./check compares. *)
From Coq Require Import Bool List NArith ZArith Lia.
From M Require GFmtSpec.
From M Require ILog.
From M Require Tie.
From M Require GFmt.
From M Require GFmtSpec.
Import ListNotations.

Module T_rne_nearest. Import GFmtSpec. Local Open Scope bool_scope. Local Open Scope Z_scope.
Import GFmt. Local Open Scope Z_scope.
Theorem C16_rne_nearest :
  forall n d,
  0 < d -> 0 <= n -> 2 * Z.abs (n - rne n d * d) <= d.
Proof. exact (@GFmtSpec.rne_nearest). Qed.
End T_rne_nearest.
Definition C16_rne_nearest := @T_rne_nearest.C16_rne_nearest.

Module T_rne_tie_even. Import GFmtSpec. Local Open Scope bool_scope. Local Open Scope Z_scope.
Import GFmt. Local Open Scope Z_scope.
Theorem C16_rne_tie_even :
  forall n d,
  0 < d -> 0 <= n -> 2 * (n mod d) = d -> Z.even (rne n d) = true.
Proof. exact (@GFmtSpec.rne_tie_even). Qed.
End T_rne_tie_even.
Definition C16_rne_tie_even := @T_rne_tie_even.C16_rne_tie_even.

Module T_sig_digits_nearest. Import GFmtSpec. Local Open Scope bool_scope. Local Open Scope Z_scope.
Import GFmt. Local Open Scope Z_scope.
Theorem C16_sig_digits_nearest :
  forall P n d,
  0 < P -> 0 < d -> 0 < n -> ilog_ok n d (ilog10 n d) = true ->
  let x0 := ilog10 n d in let s := x0 - P + 1 in
  let D0 := if 0 <=? s then rne n (d * 10 ^ s) else rne (n * 10 ^ (- s)) d in
  (if 0 <=? s then 2 * Z.abs (n - D0 * (d * 10 ^ s)) <= d * 10 ^ s else 2 * Z.abs (n * 10 ^ (- s) - D0 * d) <= d) /\
  10 ^ (P - 1) <= D0 <= 10 ^ P /\
  sig_digits P n d = (if D0 =? 10 ^ P then (10 ^ (P - 1), x0 + 1) else (D0, x0)).
Proof. exact (@GFmtSpec.sig_digits_nearest). Qed.
End T_sig_digits_nearest.
Definition C16_sig_digits_nearest := @T_sig_digits_nearest.C16_sig_digits_nearest.

Module T_ilog10_correct. Import ILog. Local Open Scope bool_scope. Local Open Scope Z_scope.
Import GFmt GFmtSpec. Local Open Scope Z_scope.
Theorem C16_ilog10_correct :
  forall n d,
  0 < n -> 0 < d -> -1200 <= Z.log2 n - Z.log2 d <= 1200 -> ilog_ok n d (ilog10 n d) = true.
Proof. exact (@ILog.ilog10_correct). Qed.
End T_ilog10_correct.
Definition C16_ilog10_correct := @T_ilog10_correct.C16_ilog10_correct.

Module T_dec64_in_range. Import ILog. Local Open Scope bool_scope. Local Open Scope Z_scope.
Import GFmt GFmtSpec. Local Open Scope Z_scope.
Theorem C16_dec64_in_range :
  forall bits,
  0 <= bits < 2 ^ 64 -> (bits mod 2 ^ 63) / 2 ^ 52 < 2047 ->
  let '(_, n, d) := dec64 bits in 0 < d /\ (0 < n -> -1200 <= Z.log2 n - Z.log2 d <= 1200).
Proof. exact (@ILog.dec64_in_range). Qed.
End T_dec64_in_range.
Definition C16_dec64_in_range := @T_dec64_in_range.C16_dec64_in_range.

Module T_sig_digits_nearest_closed. Import ILog. Local Open Scope bool_scope. Local Open Scope Z_scope.
Import GFmt GFmtSpec. Local Open Scope Z_scope.
Theorem C16_sig_digits_nearest_closed :
  forall P n d,
  0 < P -> 0 < d -> 0 < n -> -1200 <= Z.log2 n - Z.log2 d <= 1200 ->
  let x0 := ilog10 n d in let s := x0 - P + 1 in
  let D0 := if 0 <=? s then rne n (d * 10 ^ s) else rne (n * 10 ^ (- s)) d in
  (if 0 <=? s then 2 * Z.abs (n - D0 * (d * 10 ^ s)) <= d * 10 ^ s else 2 * Z.abs (n * 10 ^ (- s) - D0 * d) <= d) /\
  10 ^ (P - 1) <= D0 <= 10 ^ P /\
  sig_digits P n d = (if D0 =? 10 ^ P then (10 ^ (P - 1), x0 + 1) else (D0, x0)).
Proof. exact (@ILog.sig_digits_nearest_closed). Qed.
End T_sig_digits_nearest_closed.
Definition C16_sig_digits_nearest_closed := @T_sig_digits_nearest_closed.C16_sig_digits_nearest_closed.

Module T_tie_float_formats. Import Tie. Local Open Scope bool_scope. Local Open Scope Z_scope.
Local Open Scope Z_scope.
Theorem C16_tie_float_formats :
  Generated.gen_double_fmt = [115;110;112;114;105;110;116;102;40;40;115;41;44;32;40;108;41;44;32;34;37;46;49;53;108;103;34;44;32;40;118;41;41]%N /\
  Generated.gen_float_fmt = [115;110;112;114;105;110;116;102;40;40;115;41;44;32;40;108;41;44;32;34;37;103;34;44;32;40;118;41;41]%N.
Proof. exact (@Tie.tie_float_formats). Qed.
End T_tie_float_formats.
Definition C16_tie_float_formats := @T_tie_float_formats.C16_tie_float_formats.

