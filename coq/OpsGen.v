(* Every relation on contexts that is a preorder and is kept by the primitive operations is kept by the composite ones
   (array results, array readers, expression entries).  Instantiated for K (Dispatch), Q and C (Framing2, InputInv), N (Undef113). *)
From Coq Require Import Bool List NArith ZArith Lia.
From M Require LexModel MatchModel FmtModel ExprModel.
From M Require Import ParserModel.
Import ListNotations.
Local Open Scope Z_scope.

Section Results.
Variable R : ctx -> ctx -> Prop.
Hypothesis R_refl : forall c, R c c.
Hypothesis R_trans : forall a b c, R a b -> R b c -> R a c.
Hypothesis R_result_int : forall c w v b s, R c (result_int c w v b s).
Hypothesis R_result_hdr : forall c n, R c (result_hdr c n).
Hypothesis R_result_data : forall c d, R c (result_data c d).

Lemma R_fold {A} (f:ctx -> A -> ctx) : (forall c v, R c (f c v)) -> forall l c, R c (fold_left f l c).
Proof. intros H l. induction l as [|v l IH]; intro c; [apply R_refl|]. cbn [fold_left]. eapply R_trans; [apply H|apply IH]. Qed.

Lemma R_result_array c size fmt vals : R c (result_array c size fmt vals).
Proof.
  unfold result_array. destruct (fmt =? 0).
  - apply R_fold. intros. apply R_result_int.
  - destruct (fmt =? Generated.gen_native_format).
    + eapply R_trans; [apply R_result_hdr|apply R_result_data].
    + destruct vals as [|v vals].
      * eapply R_trans; [apply R_result_hdr|apply R_result_data].
      * destruct (size =? 1).
        -- eapply R_trans; [apply R_result_hdr|apply R_result_data].
        -- eapply R_trans; [apply R_result_hdr|]. apply R_fold. intros. apply R_result_data.
Qed.

End Results.

Section Readers.
Variable R : ctx -> ctx -> Prop.
Hypothesis R_refl : forall c, R c c.
Hypothesis R_trans : forall a b c, R a b -> R b c -> R a c.
Hypothesis R_push170 : forall c, R c (error_push c (-170) None).
Hypothesis R_push104 : forall c, R c (error_push c (-104) None).
Hypothesis R_param_int : forall c w s m, R c (fst (fst (param_int c w s m))).
Hypothesis R_param_fp : forall c d m, R c (fst (fst (param_fp c d m))).

Lemma R_array_reader ty c m : R c (fst (fst (array_reader ty c m))).
Proof. unfold array_reader. repeat match goal with |- context [if ?b then _ else _] => destruct b end; auto. Qed.

Lemma R_param_array ty n : forall c m acc, R c (fst (fst (param_array n (array_reader ty) c m acc))).
Proof.
  induction n as [|n IH]; intros c m acc; [apply R_refl|]. cbn [param_array].
  pose proof (R_array_reader ty c m) as H. destruct (array_reader ty c m) as [[c1 ok] v]. cbn [fst] in H.
  destruct ok; [eapply R_trans; [exact H|apply IH]|exact H].
Qed.

Lemma R_expr_numlist c t idx : R c (fst (expr_numlist c t idx)).
Proof.
  unfold expr_numlist. destruct (LexModel.ty t); cbn [fst]; try apply R_push104.
  destruct (ExprModel.numlist_walk _ _ _ _ _) as [[[r isr] [fo fl]] [to tl_]]. cbn [fst].
  destruct r; [apply R_refl|apply R_push170|apply R_refl].
Qed.
Lemma R_expr_chanlist c t idx cap : R c (fst (expr_chanlist c t idx cap)).
Proof.
  unfold expr_chanlist. destruct (LexModel.ty t); cbn [fst]; try apply R_push104.
  destruct (ExprModel.chanlist_entry _ _ _) as [[[[[r isr] vf] vt] dims] nerr]. cbn [fst].
  destruct (0 <? nerr); [apply R_push170|apply R_refl].
Qed.
End Readers.
