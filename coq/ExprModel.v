(* Draft model of expression.c: numeric lists and channel lists (on the expression body, i.e. between the parentheses) *)
From Coq Require Import Bool List NArith ZArith Lia.
From M Require Import LexModel.
Import ListNotations.
Local Open Scope bool_scope.
Local Open Scope Z_scope.

Inductive eres := EOK | EERR | ENOMORE.
(* strtol(ptr,10) followed by the (int32_t) assignment; the text continues after the token *)
Definition isspace (c:N) := ((c =? 32) || ((9 <=? c) && (c <=? 13)))%N.
Fixpoint skipsp (l:bytes) : bytes := match l with c::r => if isspace c then skipsp r else l | [] => [] end.
Fixpoint digs (l:bytes) (acc:Z) (n:Z) : Z * Z := match l with c::r => if isdigit c then digs r (acc*10 + (Z.of_N c - 48)) (n+1) else (acc,n) | [] => (acc,n) end.
Definition wrap32 (v:Z) : Z := let m := v mod 2^32 in if m <? 2^31 then m else m - 2^32.
Definition to_int32 (l:bytes) : Z :=
  let l1 := skipsp l in
  let neg := (hd 0%N l1 =? 45)%N in
  let l2 := if neg || (hd 0%N l1 =? 43)%N then tl l1 else l1 in
  let '(v,nd) := digs l2 0 0 in
  if nd =? 0 then 0 else wrap32 (if neg then Z.max (-v) (-2^63) else Z.min v (2^63-1)).

(* numericRange on the remaining body: (result, isRange, from token start/len, to token start/len, rest) ; offsets relative to l *)
Definition numeric_range (l:bytes) : eres * bool * (Z*Z) * (Z*Z) * Z :=
  let d := lex_decimal l in
  if 0 <? ret d then
    let p1 := disp d in
    let c := lex_colon (drop p1 l) in
    if 0 <? ret c then
      let d2 := lex_decimal (drop (p1+1) l) in
      if 0 <? ret d2 then (EOK, true, (0, len (tok d)), (p1+1, len (tok d2)), p1 + 1 + disp d2)
      else (EERR, true, (0, len (tok d)), (0,0), p1 + 1)
    else (EOK, false, (0, len (tok d)), (0,0), p1)
  else (ENOMORE, false, (0,0), (0,0), 0).

(* SCPI_ExprNumericListEntry: walk to entry [index]; returns result, isRange, absolute offsets of the two tokens; error -170 pushed iff result = EERR *)
Fixpoint numlist_walk (fuel:nat) (body:bytes) (pos:Z) (i index:Z) : eres * bool * (Z*Z) * (Z*Z) :=
  match fuel with O => (EERR,false,(0,0),(0,0)) | S f =>
    let '(r, isr, (fo,fl), (to,tl_), used) := numeric_range (drop pos body) in
    match r with
    | EOK =>
      if i =? index then (EOK, isr, (pos+fo, fl), (pos+to, tl_))
      else
        let c := lex_comma (drop (pos+used) body) in
        if ret c =? 0 then ((if iseos (drop (pos+used) body) then ENOMORE else EERR), isr, (pos+fo, fl), (pos+to, tl_))
        else numlist_walk f body (pos+used+1) (i+1) index
    | _ => (r, isr, (pos+fo, fl), (pos+to, tl_))
    end
  end.
Definition numlist_entry_int (body:bytes) (index:Z) : eres * bool * Z * Z :=
  let '(r, isr, (fo,_), (to,_)) := numlist_walk (S (length body)) body 0 0 index in
  match r with
  | EOK => (EOK, isr, to_int32 (drop fo body), if isr then to_int32 (drop to body) else 0)
  | _ => (r, false, 0, 0)
  end.

(* channelSpec: values (at most cap stored), dimensions *)
Fixpoint channel_spec (fuel:nat) (l:bytes) (pos:Z) (i:Z) (cap:Z) (vals:list Z) : eres * list Z * Z * Z (* result, values, dims, new pos *) :=
  match fuel with O => (EERR, vals, 0, pos) | S f =>
    let d := lex_decimal (drop pos l) in
    if 0 <? ret d then
      let vals1 := if i <? cap then vals ++ [to_int32 (drop pos l)] else vals in
      let p1 := pos + disp d in
      let e := lex_specific 33%N (drop p1 l) in
      if 0 <? ret e then channel_spec f l (p1+1) (i+1) cap vals1
      else (EOK, vals1, i+1, p1)
    else ((if i =? 0 then ENOMORE else EERR), vals, 0, pos)
  end.
Definition channel_range (l:bytes) (pos:Z) (cap:Z) : eres * bool * list Z * list Z * Z * Z :=
  let '(r1, vf, d1, p1) := channel_spec (S (length l)) l pos 0 cap [] in
  match r1 with
  | EOK =>
    let c := lex_colon (drop p1 l) in
    if 0 <? ret c then
      let '(r2, vt, d2, p2) := channel_spec (S (length l)) l (p1+1) 0 cap [] in
      match r2 with
      | EOK => if d1 =? d2 then (EOK, true, vf, vt, d1, p2) else (EERR, true, vf, vt, 0, p2)
      | _ => (EERR, true, vf, vt, 0, p2)
      end
    else (EOK, false, vf, [], d1, p1)
  | ENOMORE => (EERR, false, vf, [], 0, p1)
  | EERR => (EERR, false, vf, [], 0, p1)
  end.
Fixpoint chanlist_walk (fuel:nat) (body:bytes) (pos:Z) (i index:Z) (cap:Z) : eres * bool * list Z * list Z * Z * Z :=
  match fuel with O => (EERR,false,[],[],0,pos) | S f =>
    let '(r, isr, vf, vt, dims, p) := channel_range body pos (if i =? index then cap else 0) in
    match r with
    | EOK =>
      if i =? index then (EOK, isr, vf, vt, dims, p)
      else
        let c := lex_comma (drop p body) in
        if ret c =? 0 then ((if iseos (drop p body) then ENOMORE else EERR), isr, vf, vt, dims, p)
        else chanlist_walk f body (p+1) (i+1) index cap
    | _ => (r, isr, vf, vt, dims, p)
    end
  end.
(* result, isRange, from-values, to-values, dimensions, number of -170 errors pushed *)
Definition chanlist_entry (body:bytes) (index cap:Z) : eres * bool * list Z * list Z * Z * Z :=
  let at_ := lex_specific 64%N body in
  if ret at_ =? 0 then (EERR, false, [], [], 0, 1) else
  let '(r, isr, vf, vt, dims, p) := chanlist_walk (S (length body)) body 1 0 index cap in
  match r with
  | EERR => (EERR, isr, vf, vt, dims, 1)
  | ENOMORE => if iseos (drop p body) then (ENOMORE, isr, vf, vt, dims, 0) else (EERR, isr, vf, vt, dims, 1)
  | EOK => (EOK, isr, vf, vt, dims, 0)
  end.

