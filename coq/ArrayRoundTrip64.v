(* The 64-bit twin of ArrayRoundTrip.v.
   C04/C05/C07 at reader level: a list of in-range unsigned decimal integer literals, with any white space around the
   commas, is read by the 64-bit unsigned array reader element by element to exactly the values written -- as many as the
   capacity allows, no error queued; hence an ASCII array result (canonical digits joined by commas) reads back unchanged. *)
From Coq Require Import Bool List NArith ZArith Lia.
From M Require Import LexModel LexBounds DecSpec MoreSpecs NumList SimpleSpecs ListWs ParserModel ParamList.
From M Require StrTo IntFmtProofs IntRoundTrip RtBlock RtInt.
Import ListNotations.
Local Open Scope Z_scope.

Definition uint_item64 (i:litem) : Prop := let '(w0, a, w1) := i in
  all isws w0 /\ all isws w1 /\ a <> [] /\ forallb (StrTo.isdig 10) a = true /\ all isdigit a /\ 0 <= StrTo.pval 10 a < 2 ^ 64.
Definition value_of64 (i:litem) : Z := let '(_, a, _) := i in StrTo.pval 10 a.
Lemma uint_item_ok64 i : uint_item64 i -> item_ok i.
Proof. destruct i as [[w0 a] w1]. intros (H0 & H1 & Hne & _ & Hd & _). repeat split; try assumption. now apply dec_int. Qed.

(* what follows the data region in the buffer does not continue a number (a terminator, the NUL, nothing) *)
Definition tail_ok64 (c:ctx) : Prop := 0 <= pd_off c /\ StrTo.stops 10 (dropm (mem c) (pd_off c + pd_len c)).

Lemma skipn_add64 {A} : forall b a (l:list A), skipn a (skipn b l) = skipn (b + a) l.
Proof. induction b as [|b IH]; intros a l; [reflexivity|]. destruct l; [now rewrite !skipn_nil|]. cbn [skipn Nat.add]. apply IH. Qed.
Lemma skipn_slice64 m off len L : 0 <= off -> 0 <= len -> slice m off len = L -> Z.of_nat (length L) = len ->
  skipn (Z.to_nat off) m = L ++ dropm m (off + len).
Proof.
  intros Ho Hl <- Hlen. unfold slice, dropm. rewrite Z2Nat.inj_add by lia.
  rewrite <- (firstn_skipn (Z.to_nat len) (skipn (Z.to_nat off) m)) at 1. f_equal. apply skipn_add64.
Qed.

Lemma ws_stops64 w rest : all isws w -> w <> [] -> StrTo.stops 10 (w ++ rest).
Proof. destruct w as [|c r]; [congruence|]. intros H _. unfold all in H. cbn [forallb] in H. apply andb_prop in H as [H _].
  cbn [app StrTo.stops]. unfold isws in H. apply orb_prop in H as [H|H]; apply N.eqb_eq in H; subst; reflexivity. Qed.

(* one element: the 64-bit unsigned reader on item k *)
Theorem read_uint_item64 items k c m i : Forall uint_item64 items -> nth_error items k = Some i -> at_item c items k -> tail_ok64 c ->
  exists c', param_int c 64 false m = (c', true, value_of64 i) /\ at_item c' items (S k) /\ tail_ok64 c' /\ c' = upd_in c (Z.of_nat (S k)) (item_off items (S k) - 1).
Proof.
  intros Hall Hn Hat (Hoff & Htail). destruct i as [[w0 a] w1].
  assert (Hi : uint_item64 (w0, a, w1)) by (rewrite Forall_forall in Hall; apply Hall; eapply nth_error_In; exact Hn).
  assert (Hok : Forall item_ok items) by (eapply Forall_impl; [|exact Hall]; apply uint_item_ok64).
  destruct (parameter_item items k w0 a w1 c m Hok Hn Hat) as (c' & Hp & Hat' & Ec').
  destruct Hi as (Hw0 & Hw1 & Hne & Hdig & _ & Hrange).
  destruct Hat as (Hreg & Hlen & Hic & Hpos).
  exists c'. split; [|split; [exact Hat'|split; [|exact Ec']]].
  - unfold param_int. rewrite Hp. cbn [is_number LexModel.ty]. unfold param_to_int. cbn [LexModel.ty LexModel.ptr].
    assert (Hmem : mem c' = mem c) by (rewrite Ec'; reflexivity). rewrite Hmem.
    (* the text at the token *)
    destruct (list_split items k _ Hn) as (pre & post & E & L & P & _ & T).
    pose proof (item_off_nonneg items k) as Hk.
    assert (Htxt : dropm (mem c) (pd_off c + item_off items k + Z.of_nat (length w0)) = a ++ (w1 ++ post ++ dropm (mem c) (pd_off c + pd_len c))).
    { unfold dropm at 1. replace (Z.to_nat (pd_off c + item_off items k + Z.of_nat (length w0))) with (Z.to_nat (pd_off c) + (length pre + length w0))%nat by lia.
      rewrite <- skipn_add64. rewrite (skipn_slice64 (mem c) (pd_off c) (pd_len c) (list_text items) Hoff ltac:(rewrite Hlen; lia) Hreg (eq_sym Hlen)).
      rewrite E. cbn [item_text]. rewrite <- !app_assoc. rewrite <- skipn_add64.
      rewrite skipn_app, Nat.sub_diag, skipn_all. cbn [skipn app]. rewrite skipn_app, Nat.sub_diag, skipn_all. reflexivity. }
    rewrite Htxt.
    assert (Hst : StrTo.stops 10 (w1 ++ post ++ dropm (mem c) (pd_off c + pd_len c))).
    { destruct w1 as [|x w1']; [|apply ws_stops64; [exact Hw1|discriminate]]. cbn [app].
      destruct P as [->|(p' & ->)]; [exact Htail|reflexivity]. }
    pose proof (StrTo.strto_dec [] [] a _ false eq_refl eq_refl Hne Hdig Hst) as Hs. cbn [app length] in Hs.
    unfold LexModel.bytes, LexModel.byte in *. rewrite Hs. cbn [Z.add].
    assert (Hu : 0 <? Z.of_nat (length a) = true) by (apply Z.ltb_lt; destruct a; [congruence|cbn [length]; lia]).
    change (Z.of_nat 0 + Z.of_nat 0 + Z.of_nat (length a)) with (Z.of_nat (length a)). rewrite Hu. f_equal. cbn [value_of64].
    apply StrTo.unsigned_exact; [now right|exact Hrange].
  - rewrite Ec'. unfold tail_ok64. cbn [pd_off pd_len mem upd_in]. split; assumption.
Qed.
Print Assumptions read_uint_item64.

(* the whole list through the array reader *)
Lemma item_off_len64 : forall items, items <> [] -> item_off items (length items) = Z.of_nat (length (list_text items)) + 1.
Proof.
  induction items as [|i r IH]; intro H; [congruence|]. destruct r as [|i2 r'].
  - cbn [length item_off list_text]. lia.
  - change (item_off (i :: i2 :: r') (length (i :: i2 :: r'))) with (Z.of_nat (length (item_text i)) + 1 + item_off (i2 :: r') (length (i2 :: r'))).
    rewrite IH by discriminate. rewrite list_text_cons, app_length. cbn [length]. lia.
Qed.
Lemma nth_error_skipn64 {A} : forall k (l:list A), skipn k l = match nth_error l k with Some x => x :: skipn (S k) l | None => [] end.
Proof. induction k as [|k IH]; intros [|x l]; cbn [skipn nth_error]; try reflexivity. apply IH. Qed.

Lemma read_uint_rest64 items : Forall uint_item64 items -> items <> [] ->
  forall n k c m acc, at_item c items k -> tail_ok64 c -> (k < length items)%nat \/ (k = length items /\ m = false) ->
  exists c' m', param_array n (array_reader 16) c m acc = (c', m', acc ++ map value_of64 (firstn n (skipn k items))) /\
                (n <> O -> m' = false) /\ (exists ic pos, c' = upd_in c ic pos) /\ at_item c' items (Nat.min (k + n) (length items)).
Proof.
  intros Hall Hne. induction n as [|n IH]; intros k c m acc Hat Htl Hk.
  - cbn [param_array firstn map]. rewrite app_nil_r. exists c, m. split; [reflexivity|]. split; [congruence|]. split.
    + exists (input_count c), (pd_pos c). destruct c; reflexivity.
    + replace (Nat.min (k + 0) (length items)) with k by (destruct Hk as [Hk|[Hk _]]; lia). exact Hat.
  - cbn [param_array]. change (array_reader 16 c m) with (param_int c 64 false m).
    destruct Hk as [Hk|[Hk ->]].
    + destruct (nth_error items k) as [i|] eqn:En; [|apply nth_error_None in En; lia].
      destruct (read_uint_item64 items k c m i Hall En Hat Htl) as (c1 & Hr & Hat1 & Htl1 & Ec1). rewrite Hr.
      destruct (IH (S k) c1 false (acc ++ [value_of64 i]) Hat1 Htl1) as (c' & m' & Hp & Hm & (ic & pos & Ec') & Hfin).
      { destruct (Nat.eq_dec (S k) (length items)); [right; auto|left; lia]. }
      exists c', m'. rewrite Hp. rewrite (nth_error_skipn64 k items), En. cbn [firstn map]. rewrite <- app_assoc. cbn [app].
      split; [reflexivity|]. split.
      * intros _. destruct n as [|n']; [|apply Hm; discriminate].
        cbn [param_array] in Hp. now injection Hp as _ <- _.
      * split; [exists ic, pos; rewrite Ec', Ec1; reflexivity|]. replace (k + S n)%nat with (S k + n)%nat by lia. exact Hfin.
    + (* past the last item: an absent optional parameter, quietly *)
      pose proof Hat as Hat0. destruct Hat as (Hreg & Hlen & Hic & Hpos).
      assert (Hkk : k <> O) by (destruct items; [congruence|subst k; discriminate]).
      assert (Hpp : pd_len c <= pd_pos c).
      { rewrite Hpos, Hlen. destruct k as [|k']; [congruence|]. rewrite Hk. rewrite item_off_len64 by exact Hne. lia. }
      unfold param_int, parameter. destruct (Z.leb_spec (pd_len c) (pd_pos c)); [|lia].
      exists c, false. rewrite Hk, skipn_all. replace (Nat.min (length items + S n) (length items)) with k by lia.
      destruct n; cbn [firstn map]; rewrite app_nil_r; (split; [reflexivity|]); (split; [reflexivity|]);
      (split; [exists (input_count c), (pd_pos c); destruct c; reflexivity|exact Hat0]).
Qed.

Theorem read_uint_array64 items n c m : Forall uint_item64 items -> items <> [] -> at_item c items 0 -> tail_ok64 c -> n <> O ->
  exists c', param_array n (array_reader 16) c m [] = (c', false, map value_of64 (firstn n items)) /\ (exists ic pos, c' = upd_in c ic pos) /\
             at_item c' items (Nat.min n (length items)).
Proof.
  intros Hall Hne Hat Htl Hn.
  destruct (read_uint_rest64 items Hall Hne n 0 c m [] Hat Htl) as (c' & m' & Hp & Hm & Hc & Hfin).
  { left. destruct items; [congruence|cbn [length]; lia]. }
  exists c'. rewrite Hp, (Hm Hn). split; [reflexivity|]. split; [exact Hc|exact Hfin].
Qed.
Print Assumptions read_uint_array64.

(* C07: what SCPI_ResultArrayUInt64 writes in ASCII format for non-zero values reads back element by element *)
Definition canon_item64 (u:Z) : litem := ([], bz (IntFmtProofs.canon_digits 10 u), []).
Lemma canon_item_ok64 u : 0 < u < 2 ^ 64 -> uint_item64 (canon_item64 u) /\ value_of64 (canon_item64 u) = u.
Proof.
  intro Hu. unfold canon_item64, uint_item64, value_of64.
  destruct (RtInt.canon_digits_value u ltac:(lia)) as (Hne & Hd & Hval).
  rewrite Hval. repeat split; try reflexivity; try assumption; try lia. apply RtInt.all_isdig. exact Hd.
Qed.

(* SCPI_ResultArrayUInt64 in ASCII format followed by SCPI_ParamArrayUInt64, at reader level: the items are the canonical
   digits of the values joined by commas *)
Theorem rt_uint_array64 vals n c m : vals <> [] -> Forall (fun u => 0 < u < 2 ^ 64) vals ->
  at_item c (map canon_item64 vals) 0 -> tail_ok64 c -> n <> O ->
  exists c', param_array n (array_reader 16) c m [] = (c', false, firstn n vals).
Proof.
  intros Hne Hr Hat Htl Hn.
  assert (Hall : Forall uint_item64 (map canon_item64 vals)).
  { apply Forall_forall. intros i Hi. apply in_map_iff in Hi as (u & <- & Hu). rewrite Forall_forall in Hr. apply canon_item_ok64. now apply Hr. }
  destruct (read_uint_array64 (map canon_item64 vals) n c m Hall ltac:(destruct vals; [congruence|discriminate]) Hat Htl Hn) as (c' & Hp & _ & _).
  exists c'. rewrite Hp. f_equal. rewrite firstn_map, map_map. clear - Hr.
  assert (G : forall l, Forall (fun u => 0 < u < 2 ^ 64) l -> map (fun x => value_of64 (canon_item64 x)) l = l).
  { induction 1 as [|u r Hu Hrr IH]; [reflexivity|]. cbn [map]. rewrite IH. f_equal. now apply canon_item_ok64. }
  apply G. clear G. revert n. induction Hr as [|u r Hu Hrr IH]; intros [|n]; cbn [firstn]; constructor; auto.
Qed.
Print Assumptions rt_uint_array64.


(* non-vacuity: 18446744073709551615 , 9223372036854775808 -- values a signed reader would saturate *)
Example ex64 :
  let text := bz (IntFmtProofs.canon_digits 10 18446744073709551615) ++ [44%N] ++ bz (IntFmtProofs.canon_digits 10 9223372036854775808) in
  let c := {| cmds := []; mem := text ++ [10%N]; cap := 64; first_output := true; output_count := 0; input_count := 0; cmd_error := false; arb_rem := 0;
     pd_off := 0; pd_len := Z.of_nat (length text); pd_pos := 0; cur := None; raw_off := 0; raw_len := 0; queue := []; qcap := 2; qma := false; trace := [] |} in
  snd (param_array 3 (array_reader 16) c true []) = [18446744073709551615; 9223372036854775808].
Proof. vm_compute. reflexivity. Qed.
