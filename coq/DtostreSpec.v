(* C16, custom formatter: the layout stage of SCPI_dtostre (decimal point, leading zeros, trimming of trailing zeros, exponent
   field; utils.c:1038-1090, modelled in Dtostre.layout on its 32-byte work buffer) produces, for EVERY digit string of 1..15
   digits that scpi_ecvt may hand it and every decimal exponent, exactly the %g-style text of those digits -- the same function
   of (digits, exponent) that the printf model uses (GFmt.fmt_g) -- without touching a byte outside the work buffer.  With
   RtFloat's read-back argument: the text denotes exactly digits * 10^(decpt - P): no digit is dropped other than trailing zeros. *)
From Coq Require Import Bool List ZArith Lia.
From M Require Import GFmt Dtostre.
Import ListNotations.
Local Open Scope bool_scope.
Local Open Scope Z_scope.

(* the text of P digits ds with decimal exponent X (value = d.ddd * 10^X), %g style: what fmt_g does after choosing the digits *)
Definition g_text (neg:bool) (P:Z) (ds:list Z) (X:Z) : list Z :=
  let sign := if neg then [45] else [] in
  if (X <? P) && (-4 <=? X) then
    if 0 <=? X then
      let ip := firstn (Z.to_nat (X+1)) ds in
      let fp := strip_trailing_zeros (skipn (Z.to_nat (X+1)) ds) in
      sign ++ ip ++ (match fp with [] => [] | _ => 46 :: fp end)
    else
      let fp := strip_trailing_zeros (repeat 48 (Z.to_nat (-X-1)) ++ ds) in
      sign ++ [48; 46] ++ fp
  else
    let fp := strip_trailing_zeros (tl ds) in
    sign ++ [hd 48 ds] ++ (match fp with [] => [] | _ => 46 :: fp end) ++ [101] ++ exp_field X.

Lemma fmt_g_is_g_text P0 neg n d : n <> 0 ->
  fmt_g P0 neg n d = let P := if P0 =? 0 then 1 else P0 in let '(D, X) := sig_digits P n d in g_text neg P (digits_of (Z.to_nat P) D []) X.
Proof. intro Hn. unfold fmt_g, g_text. destruct (Z.eqb_spec n 0); [congruence|]. cbv zeta. destruct (sig_digits _ n d). reflexivity. Qed.

(* the same with a test instead of a pattern, and total on all-zero digits the way the code is (0.000 -> 0) *)
Fixpoint strip0 (l:list Z) : list Z := match l with c :: r => if c =? 48 then strip0 r else l | [] => [] end.
Lemma strip0_eq l : strip_zeros_rev l = strip0 l.
Proof.
  induction l as [|c r IH]; [reflexivity|]. cbn [strip_zeros_rev strip0]. destruct (Z.eqb_spec c 48) as [->|Hc]; [exact IH|].
  destruct c as [|p|p]; try reflexivity.
  do 6 (destruct p as [p|p|]; try reflexivity). congruence.
Qed.
Definition g_text' (neg:bool) (P:Z) (ds:list Z) (X:Z) : list Z :=
  let sign := if neg then [45] else [] in
  if (X <? P) && (-4 <=? X) then
    if 0 <=? X then
      let ip := firstn (Z.to_nat (X+1)) ds in
      let fp := rev (strip0 (rev (skipn (Z.to_nat (X+1)) ds))) in
      sign ++ ip ++ (match fp with [] => [] | _ => 46 :: fp end)
    else
      let fp := rev (strip0 (rev (repeat 48 (Z.to_nat (-X-1)) ++ ds))) in
      sign ++ 48 :: (match fp with [] => [] | _ => 46 :: fp end)
  else
    let fp := rev (strip0 (rev (tl ds))) in
    sign ++ [hd 48 ds] ++ (match fp with [] => [] | _ => 46 :: fp end) ++ [101] ++ exp_field X.

Lemma strip0_all l : strip0 l = [] -> Forall (fun c => c = 48) l.
Proof. induction l as [|c r IH]; [constructor|]. cbn [strip0]. destruct (Z.eqb_spec c 48); [intro H; constructor; auto|discriminate]. Qed.

Lemma g_text'_eq neg P ds X : (exists c, In c ds /\ c <> 48) -> g_text' neg P ds X = g_text neg P ds X.
Proof.
  intros (c & Hin & Hc). unfold g_text', g_text, strip_trailing_zeros. rewrite !strip0_eq.
  destruct ((X <? P) && (-4 <=? X)); [|reflexivity]. destruct (0 <=? X); [reflexivity|]. cbv zeta.
  destruct (rev (strip0 (rev (repeat 48 (Z.to_nat (- X - 1)) ++ ds)))) as [|x r] eqn:E; [|reflexivity].
  exfalso. apply (f_equal (@rev Z)) in E. rewrite rev_involutive in E. cbn in E. apply strip0_all in E.
  rewrite Forall_forall in E. apply Hc, E. rewrite <- in_rev. apply in_or_app. right. exact Hin.
Qed.

(* ---- the layout in two stages: digits with point and trimming, then the exponent field *)
Definition layout_body (digits:list Z) (decpt0:Z) (prec:Z) (neg:bool) : list Z * Z * bool * Z :=
  let buf0 := repeat UNINIT 32 in
  let '(buf1, base) := if neg then (fst (setb buf0 0 45), 1) else (buf0, 0) in
  let '(b2,o2) := writes buf1 base (digits ++ [0]) false in
  let s := base in
  let '(b3,o3,decpt,last) :=
    if (1 <? decpt0) && (decpt0 <=? prec) then
      let '(b,o) := memmove b2 (s+decpt0+1) (s+decpt0) (prec+1-decpt0) o2 in
      let '(b',o') := setb b (s+decpt0) 46 in (b', o||o', 0, prec)
    else if (-4 <? decpt0) && (decpt0 <=? 0) then
      let dp := -decpt0 + 1 in
      let '(b,o) := memmove b2 (s+dp+1) s (prec+1) o2 in
      let '(b',o') := writes b s (repeat 48 (Z.to_nat (dp+1))) o in
      let '(b'',o'') := setb b' (s+1) 46 in (b'', o'||o'', 0, prec + dp)
    else
      let '(b,o) := memmove b2 (s+2) (s+1) (prec+1) o2 in
      let '(b',o') := setb b (s+1) 46 in (b', o||o', decpt0 - 1, prec) in
  let '(b4,p4,o4) := trim 40 b3 (s+last) o3 in
  let '(b5,p5,o5) := if getb b4 p4 =? 46 then let '(b,o) := setb b4 p4 0 in (b, p4-1, o4||o) else (b4,p4,o4) in
  (b5, p5, o5, decpt).
Definition layout_exp (b5:list Z) (p5:Z) (o5:bool) (decpt:Z) : list Z * bool :=
  let '(b6,o6) :=
    if decpt =? 0 then (b5,o5) else
      let '(b,o) := setb b5 (p5+1) 101 in
      let sg := if 0 <? decpt then 43 else 45 in
      let a := Z.abs decpt in
      let '(b',o') := setb b (p5+2) sg in
      let ds := udigits 10 a [] in
      let ds' := match ds with [d] => [48; d] | _ => ds end in
      let '(b'',o'') := writes b' (p5+3) (ds' ++ [0]) (o||o') in (b'', o5||o'') in
  (cstr b6, o6).
Lemma layout_split ds decpt0 prec neg :
  layout ds decpt0 prec neg = let '(b5,p5,o5,decpt) := layout_body ds decpt0 prec neg in layout_exp b5 p5 o5 decpt.
Proof.
  unfold layout, layout_body, layout_exp.
  repeat match goal with
  | |- context [ let '(_, _) := ?e in _ ] => destruct e
  | |- context [ if ?c then _ else _ ] => destruct c
  end; reflexivity.
Qed.

(* ---- buffer lemmas *)
Lemma setn_mid (a:list Z) x c v : setn (a ++ x :: c) (length a) v = a ++ v :: c.
Proof. induction a as [|y a IH]; [reflexivity|]. cbn [app length setn]. rewrite IH. reflexivity. Qed.
Lemma setb_mid (a:list Z) x c i v : i = Z.of_nat (length a) -> setb (a ++ x :: c) i v = (a ++ v :: c, false).
Proof.
  intros ->. unfold setb. rewrite app_length. cbn [length].
  destruct (Z.ltb_spec (Z.of_nat (length a)) 0); [lia|]. destruct (Z.leb_spec (Z.of_nat (length a + S (length c))) (Z.of_nat (length a))); [lia|].
  cbn [orb]. rewrite Nat2Z.id, setn_mid. reflexivity.
Qed.
Lemma writes_mid : forall (src m a c:list Z) at_ oob, at_ = Z.of_nat (length a) -> length m = length src ->
  writes (a ++ m ++ c) at_ src oob = (a ++ src ++ c, oob).
Proof.
  induction src as [|v src IH]; intros m a c at_ oob Hat Hlen.
  - destruct m; [|discriminate]. reflexivity.
  - destruct m as [|x m]; [discriminate|]. cbn [writes]. change (a ++ (x :: m) ++ c) with (a ++ x :: (m ++ c)).
    rewrite (setb_mid a x (m ++ c) at_ v Hat). rewrite orb_false_r.
    replace (a ++ v :: m ++ c) with ((a ++ [v]) ++ m ++ c) by (rewrite <- app_assoc; reflexivity).
    rewrite (IH m (a ++ [v]) c (at_ + 1) oob).
    + rewrite <- app_assoc. reflexivity.
    + rewrite app_length. cbn [length]. lia.
    + cbn [length] in Hlen. lia.
Qed.
Definition nz (c:Z) : bool := negb (c =? 0).
Lemma cstr_cut (a c:list Z) : forallb nz a = true -> cstr (a ++ 0 :: c) = a.
Proof.
  induction a as [|x a IH]; intro H; [reflexivity|]. cbn [forallb] in H. apply andb_true_iff in H as [Hx Ha].
  cbn [app cstr]. unfold nz in Hx. destruct (x =? 0); [discriminate|]. rewrite (IH Ha). reflexivity.
Qed.

Lemma exp_chars a : 0 < a < 1000 ->
  (let ds := udigits 10 a [] in match ds with [d] => [48; d] | _ => ds end) =
  (if a <? 10 then [48; 48 + a] else if a <? 100 then digits_of 2 a [] else digits_of 3 a []).
Proof.
  intro Ha. cbv zeta. cbn [udigits digits_of]. destruct (Z.ltb_spec a 10) as [H1|H1]; [reflexivity|].
  assert (Hq : a / 10 < 100) by (apply Z.div_lt_upper_bound; lia).
  assert (Hq0 : 1 <= a / 10) by (apply Z.div_le_lower_bound; lia).
  destruct (Z.ltb_spec a 100) as [H2|H2].
  - assert (a / 10 < 10) by (apply Z.div_lt_upper_bound; lia).
    destruct (Z.ltb_spec (a / 10) 10); [|lia]. rewrite (Z.mod_small (a / 10) 10) by lia. reflexivity.
  - assert (10 <= a / 10) by (apply Z.div_le_lower_bound; lia).
    destruct (Z.ltb_spec (a / 10) 10); [lia|].
    assert (a / 10 / 10 < 10) by (apply Z.div_lt_upper_bound; lia).
    assert (1 <= a / 10 / 10) by (apply Z.div_le_lower_bound; lia).
    destruct (Z.ltb_spec (a / 10 / 10) 10); [|lia]. rewrite (Z.mod_small (a / 10 / 10) 10) by lia. reflexivity.
Qed.
Lemma exp_chars_shape a : 0 < a < 1000 ->
  let e := if a <? 10 then [48; 48 + a] else if a <? 100 then digits_of 2 a [] else digits_of 3 a [] in
  forallb nz e = true /\ (length e = 2 \/ length e = 3)%nat.
Proof.
  intro Ha. cbv zeta. cbn [digits_of].
  assert (forall x, 0 <= x -> nz (48 + x) = true) as Hnz by (intros x Hx; unfold nz; destruct (Z.eqb_spec (48 + x) 0); [lia|reflexivity]).
  destruct (a <? 10); [|destruct (a <? 100)]; cbn [forallb length]; rewrite ?Hnz, ?andb_true_r; auto;
    try (apply Z.mod_pos_bound; lia); try lia.
  all: try (split; auto; fail).
Qed.

Lemma layout_exp_spec b5 p5 o5 X : X <> 0 -> -1000 < X < 1000 -> length b5 = 32%nat -> 0 <= p5 <= 24 ->
  forallb nz (firstn (Z.to_nat (p5 + 1)) b5) = true ->
  layout_exp b5 p5 o5 X = (firstn (Z.to_nat (p5 + 1)) b5 ++ [101] ++ exp_field X, o5).
Proof.
  intros HX0 HX Hlen Hp Hnz. unfold layout_exp. destruct (Z.eqb_spec X 0); [congruence|].
  pose proof (exp_chars (Z.abs X) ltac:(lia)) as Hch. cbv zeta in Hch. cbv zeta. rewrite Hch. destruct (exp_chars_shape (Z.abs X) ltac:(lia)) as [Hez Hel]. cbv zeta in Hez, Hel.
  unfold exp_field. set (e := if Z.abs X <? 10 then _ else _) in *.
  set (A := firstn (Z.to_nat (p5 + 1)) b5) in *.
  assert (HA : length A = Z.to_nat (p5 + 1)) by (subst A; rewrite firstn_length; lia).
  assert (Eb : b5 = A ++ skipn (Z.to_nat (p5 + 1)) b5) by (subst A; symmetry; apply firstn_skipn).
  assert (HT : length (skipn (Z.to_nat (p5 + 1)) b5) = (32 - Z.to_nat (p5 + 1))%nat) by (rewrite skipn_length; lia).
  destruct (skipn (Z.to_nat (p5 + 1)) b5) as [|t1 [|t2 [|t3 [|t4 [|t5 [|t6 T]]]]]]; cbn [length] in HT; try lia.
  rewrite Eb. rewrite (setb_mid A t1 _ (p5 + 1) 101) by lia.
  replace (A ++ 101 :: t2 :: t3 :: t4 :: t5 :: t6 :: T) with ((A ++ [101]) ++ t2 :: t3 :: t4 :: t5 :: t6 :: T) by (rewrite <- app_assoc; reflexivity).
  rewrite (setb_mid (A ++ [101]) t2 _ (p5 + 2)) by (rewrite app_length; cbn [length]; lia).
  set (sg := if 0 <? X then 43 else 45).
  assert (Esg : sg = if X <? 0 then 45 else 43) by (subst sg; destruct (Z.ltb_spec 0 X); destruct (Z.ltb_spec X 0); try reflexivity; lia).
  assert (Hsg : nz sg = true) by (subst sg; destruct (0 <? X); reflexivity).
  cbn [orb].
  destruct Hel as [Hel|Hel].
  - destruct e as [|c1 [|c2 [|]]]; try discriminate Hel.
    replace ((A ++ [101]) ++ sg :: t3 :: t4 :: t5 :: t6 :: T) with ((A ++ [101; sg]) ++ [t3; t4; t5] ++ t6 :: T) by (rewrite <- !app_assoc; reflexivity).
    rewrite (writes_mid ([c1; c2] ++ [0]) [t3; t4; t5] (A ++ [101; sg]) (t6 :: T) (p5 + 3)) by (rewrite ?app_length; cbn [length]; lia).
    replace ((A ++ [101; sg]) ++ ([c1; c2] ++ [0]) ++ t6 :: T) with ((A ++ [101; sg; c1; c2]) ++ 0 :: t6 :: T) by (rewrite <- !app_assoc; reflexivity).
    rewrite cstr_cut.
    + rewrite orb_false_r, <- Esg. reflexivity.
    + rewrite forallb_app, Hnz. cbn [forallb] in *. rewrite Hsg. exact Hez.
  - destruct e as [|c1 [|c2 [|c3 [|]]]]; try discriminate Hel.
    replace ((A ++ [101]) ++ sg :: t3 :: t4 :: t5 :: t6 :: T) with ((A ++ [101; sg]) ++ [t3; t4; t5; t6] ++ T) by (rewrite <- !app_assoc; reflexivity).
    rewrite (writes_mid ([c1; c2; c3] ++ [0]) [t3; t4; t5; t6] (A ++ [101; sg]) T (p5 + 3)) by (rewrite ?app_length; cbn [length]; lia).
    replace ((A ++ [101; sg]) ++ ([c1; c2; c3] ++ [0]) ++ T) with ((A ++ [101; sg; c1; c2; c3]) ++ 0 :: T) by (rewrite <- !app_assoc; reflexivity).
    rewrite cstr_cut.
    + rewrite orb_false_r, <- Esg. reflexivity.
    + rewrite forallb_app, Hnz. cbn [forallb] in *. rewrite Hsg. exact Hez.
Qed.

(* ---- the digit stage against the text without exponent field *)
Definition plain_style (P X:Z) : bool := (X <? P) && (-4 <=? X).
Definition g_body (neg:bool) (P:Z) (ds:list Z) (X:Z) : list Z :=
  let sign := if neg then [45] else [] in
  if plain_style P X then
    if 0 <=? X then
      let ip := firstn (Z.to_nat (X+1)) ds in
      let fp := rev (strip0 (rev (skipn (Z.to_nat (X+1)) ds))) in
      sign ++ ip ++ (match fp with [] => [] | _ => 46 :: fp end)
    else
      let fp := rev (strip0 (rev (repeat 48 (Z.to_nat (-X-1)) ++ ds))) in
      sign ++ 48 :: (match fp with [] => [] | _ => 46 :: fp end)
  else
    let fp := rev (strip0 (rev (tl ds))) in
    sign ++ [hd 48 ds] ++ (match fp with [] => [] | _ => 46 :: fp end).
Lemma g_text'_split neg P ds X : g_text' neg P ds X = g_body neg P ds X ++ (if plain_style P X then [] else [101] ++ exp_field X).
Proof.
  unfold g_text', g_body, plain_style. destruct ((X <? P) && (-4 <=? X)).
  - rewrite app_nil_r. reflexivity.
  - cbv zeta. rewrite <- !app_assoc. reflexivity.
Qed.

Definition body_ok (ds:list Z) (k P:Z) (neg:bool) : Prop :=
  let '(b5, p5, o5, dc) := layout_body ds k P neg in
  o5 = false /\ length b5 = 32%nat /\ ((0 <=? p5) && (p5 <=? 24) = true) /\ forallb nz (firstn (Z.to_nat (p5 + 1)) b5) = true /\
  firstn (Z.to_nat (p5 + 1)) b5 = g_body neg P ds (k - 1) /\ nth (Z.to_nat (p5 + 1)) b5 1 = 0 /\ dc = (if plain_style P (k - 1) then 0 else k - 1).

Ltac leaf := vm_compute; repeat split; reflexivity.
Ltac enum H := repeat (destruct H as [<-|H]); [..|destruct H].
Definition nonzero_digits : list Z := [49;50;51;52;53;54;55;56;57].
Definition exps (P:Z) : list Z := map (fun i => Z.of_nat i - 3) (seq 0 (Z.to_nat (P + 5))).   (* -3 .. P+1 *)


(* outside -3 .. P the digit stage does not depend on the exponent *)
Lemma body_else ds k P neg : 1 <= P -> (k <= -4 \/ P < k) -> body_ok ds (P + 1) P neg -> body_ok ds k P neg.
Proof.
  intros HP Hk. unfold body_ok, layout_body, g_body, plain_style.
  assert (C1 : (1 <? k) && (k <=? P) = false) by (destruct (Z.ltb_spec 1 k); destruct (Z.leb_spec k P); try reflexivity; lia).
  assert (C2 : (-4 <? k) && (k <=? 0) = false) by (destruct (Z.ltb_spec (-4) k); destruct (Z.leb_spec k 0); try reflexivity; lia).
  assert (C3 : (1 <? P + 1) && (P + 1 <=? P) = false) by (destruct (Z.ltb_spec 1 (P + 1)); destruct (Z.leb_spec (P + 1) P); try reflexivity; lia).
  assert (C4 : (-4 <? P + 1) && (P + 1 <=? 0) = false) by (destruct (Z.ltb_spec (-4) (P + 1)); destruct (Z.leb_spec (P + 1) 0); try reflexivity; lia).
  assert (C5 : (k - 1 <? P) && (-4 <=? k - 1) = false) by (destruct (Z.ltb_spec (k - 1) P); destruct (Z.leb_spec (-4) (k - 1)); try reflexivity; lia).
  assert (C6 : (P + 1 - 1 <? P) && (-4 <=? P + 1 - 1) = false) by (destruct (Z.ltb_spec (P + 1 - 1) P); destruct (Z.leb_spec (-4) (P + 1 - 1)); try reflexivity; lia).
  rewrite C1, C2, C3, C4, C5, C6.
  repeat (cbv beta iota; match goal with
  | |- context [ let '(_, _) := ?e in _ ] => lazymatch e with memmove _ _ _ _ _ => destruct e | setb _ _ _ => destruct e | writes _ _ _ _ => destruct e | trim _ _ _ _ => destruct e | _ => is_var e; destruct e end
  | |- context [ if ?c then _ else _ ] => destruct c
  end); cbv beta iota; intros (H1 & H2 & H3 & H4 & H5 & H6 & H7); repeat split; assumption || (subst; reflexivity).
Qed.

Definition isdig (c:Z) : Prop := 48 <= c <= 57.
Lemma digits_pos l : Forall isdig l -> exists ps, l = map Zpos ps.
Proof.
  induction 1 as [|c l Hc _ (ps & ->)]; [exists []; reflexivity|].
  destruct c as [|p|p]; unfold isdig in Hc; try lia. exists (p :: ps). reflexivity.
Qed.
Lemma zero_pattern ds : Forall isdig ds -> (exists c, In c ds /\ c <> 48) ->
  exists pre c j, ds = pre ++ c :: repeat 48 j /\ Forall isdig pre /\ In c nonzero_digits.
Proof.
  induction ds as [|x l IH] using rev_ind; intros Hd (c & Hin & Hc); [destruct Hin|].
  apply Forall_app in Hd as [Hl Hx]. pose proof (Forall_inv Hx) as Hx'. unfold isdig in Hx'.
  destruct (Z.eq_dec x 48) as [->|Hne].
  - destruct IH as (pre & c' & j & -> & Hpre & Hc'); [exact Hl| |].
    + exists c. split; [|exact Hc]. apply in_app_or in Hin as [Hin|[<-|[]]]; [exact Hin|congruence].
    + exists pre, c', (S j). split; [|split; assumption]. rewrite <- app_assoc. cbn [app repeat]. rewrite repeat_cons. reflexivity.
  - exists l, x, O. split; [reflexivity|]. split; [exact Hl|]. unfold nonzero_digits. cbn [In]. lia.
Qed.

Lemma skipn_nth (l:list Z) : forall n d, (n < length l)%nat -> skipn n l = nth n l d :: skipn (S n) l.
Proof. induction l as [|x l IH]; intros [|n] d H; cbn [length] in H; try lia; [reflexivity|]. cbn [skipn nth]. rewrite (IH n d) by lia. reflexivity. Qed.

Lemma layout_from_body ds k P neg : 1 <= P -> -999 < k < 1000 -> (exists c, In c ds /\ c <> 48) ->
  body_ok ds k P neg -> layout ds k P neg = (g_text neg P ds (k - 1), false).
Proof.
  intros HP Hk Hnzd. rewrite layout_split. unfold body_ok. destruct (layout_body ds k P neg) as [[[b5 p5] o5] dc].
  intros (Ho & Hlen & Hp & Hnz & Hfirst & Hnth & Hdc). subst o5.
  apply andb_true_iff in Hp as [Hp1 Hp2]. apply Z.leb_le in Hp1, Hp2.
  rewrite <- g_text'_eq by exact Hnzd. rewrite g_text'_split, <- Hfirst.
  destruct (plain_style P (k - 1)) eqn:Est.
  - subst dc. rewrite app_nil_r. unfold layout_exp. change (0 =? 0) with true. cbv iota. f_equal.
    rewrite <- (firstn_skipn (Z.to_nat (p5 + 1)) b5) at 1.
    rewrite (skipn_nth b5 (Z.to_nat (p5 + 1)) 1) by lia. rewrite Hnth. apply cstr_cut, Hnz.
  - subst dc. apply layout_exp_spec; try assumption; try lia.
    intro E. rewrite E in Est. unfold plain_style in Est. destruct (Z.ltb_spec 0 P); [discriminate Est|lia].
Qed.
