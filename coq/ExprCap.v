(* C19, storage clause: a channel-list query never yields more values than the announced capacity *)
From Coq Require Import Bool List NArith ZArith Lia.
From M Require Import LexModel ExprModel.
Import ListNotations.
Local Open Scope Z_scope.

Lemma channel_spec_cap fuel : forall l pos i cap vals, 0 <= i -> Z.of_nat (length vals) <= Z.min i (Z.max cap 0) ->
  let '(_, vs, _, _) := channel_spec fuel l pos i cap vals in Z.of_nat (length vs) <= Z.max cap 0.
Proof.
  induction fuel as [|f IH]; intros l pos i cap vals Hi Hl; cbn [channel_spec]; [lia|].
  destruct (0 <? ret (lex_decimal (drop pos l))); [|lia].
  set (vals1 := if i <? cap then vals ++ [to_int32 (drop pos l)] else vals).
  assert (H1 : Z.of_nat (length vals1) <= Z.min (i + 1) (Z.max cap 0)).
  { subst vals1. destruct (Z.ltb_spec i cap); [rewrite app_length; cbn [length]; lia|lia]. }
  destruct (0 <? ret (lex_specific 33%N (drop (pos + disp (lex_decimal (drop pos l))) l))).
  - apply IH; [lia|exact H1].
  - lia.
Qed.
Theorem channel_range_cap l pos cap :
  let '(_, _, vf, vt, _, _) := channel_range l pos cap in
  Z.of_nat (length vf) <= Z.max cap 0 /\ Z.of_nat (length vt) <= Z.max cap 0.
Proof.
  unfold channel_range.
  pose proof (channel_spec_cap (S (length l)) l pos 0 cap [] ltac:(lia) ltac:(cbn [length]; lia)) as H1.
  destruct (channel_spec (S (length l)) l pos 0 cap []) as [[[r1 vf] d1] p1].
  destruct r1; try (split; [exact H1|cbn [length]; lia]).
  destruct (0 <? ret (lex_colon (drop p1 l))); [|split; [exact H1|cbn [length]; lia]].
  pose proof (channel_spec_cap (S (length l)) l (p1 + 1) 0 cap [] ltac:(lia) ltac:(cbn [length]; lia)) as H2.
  destruct (channel_spec (S (length l)) l (p1 + 1) 0 cap []) as [[[r2 vt] d2] p2].
  destruct r2; [destruct (d1 =? d2)|..]; split; assumption.
Qed.
Lemma chanlist_walk_cap fuel : forall body pos i index cap,
  let '(_, _, vf, vt, _, _) := chanlist_walk fuel body pos i index cap in
  Z.of_nat (length vf) <= Z.max cap 0 /\ Z.of_nat (length vt) <= Z.max cap 0.
Proof.
  induction fuel as [|f IH]; intros body pos i index cap; cbn [chanlist_walk]; [cbn [length]; lia|].
  pose proof (channel_range_cap body pos (if i =? index then cap else 0)) as H.
  destruct (channel_range body pos (if i =? index then cap else 0)) as [[[[[r isr] vf] vt] dims] p].
  assert (H' : Z.of_nat (length vf) <= Z.max cap 0 /\ Z.of_nat (length vt) <= Z.max cap 0) by (destruct (i =? index); lia).
  destruct r; try exact H'.
  destruct (i =? index) eqn:E; [exact H'|].
  destruct (ret (lex_comma (drop p body)) =? 0); [exact H'|]. apply IH.
Qed.
(* SCPI_ExprChannelListEntry: whatever the expression body, index and capacity *)
Theorem chanlist_entry_cap body index cap :
  let '(_, _, vf, vt, _, _) := chanlist_entry body index cap in
  Z.of_nat (length vf) <= Z.max cap 0 /\ Z.of_nat (length vt) <= Z.max cap 0.
Proof.
  unfold chanlist_entry. destruct (ret (lex_specific 64%N body) =? 0); [cbn [length]; lia|].
  pose proof (chanlist_walk_cap (S (length body)) body 1 0 index cap) as H.
  destruct (chanlist_walk (S (length body)) body 1 0 index cap) as [[[[[r isr] vf] vt] dims] p].
  destruct r; [exact H|exact H|destruct (iseos (drop p body)); exact H].
Qed.
Print Assumptions chanlist_entry_cap.
