(* C07, integers: the digits the library emits are read back to the same value by the strtol-family model *)
From Coq Require Import Bool List NArith ZArith Lia.
From M Require Import FmtModel IntFmtProofs.
Import ListNotations.
Local Open Scope Z_scope.

(* the reader side (as in ParserModel.v: digval, digs) *)
Definition digval (c:Z) : Z :=
  if (48 <=? c) && (c <=? 57) then c - 48 else if (65 <=? c) && (c <=? 90) then c - 55 else if (97 <=? c) && (c <=? 122) then c - 87 else 99.
Fixpoint digs (base:Z) (l:list Z) (acc n:Z) : Z * Z :=
  match l with c::r => if digval c <? base then digs base r (acc*base + digval c) (n+1) else (acc,n) | [] => (acc,n) end.
Definition stops (b:Z) (rest:list Z) : Prop := match rest with c::_ => b <= digval c | [] => True end.

Lemma digval_digit_char d : 0 <= d < 16 -> digval (digit_char d) = d.
Proof. intros H. unfold digit_char, digval. destruct (Z.ltb_spec d 10).
  - destruct (Z.leb_spec 48 (48 + d)), (Z.leb_spec (48 + d) 57); cbn [andb]; lia.
  - destruct (Z.leb_spec 48 (55 + d)), (Z.leb_spec (55 + d) 57); cbn [andb]; try lia.
    destruct (Z.leb_spec 65 (55 + d)), (Z.leb_spec (55 + d) 90); cbn [andb]; lia. Qed.

Lemma digs_stop b rest acc n : stops b rest -> digs b rest acc n = (acc, n).
Proof. destruct rest as [|c r]; [reflexivity|]. cbn. intros H. destruct (Z.ltb_spec (digval c) b); [lia|reflexivity]. Qed.

(* reading k positional digits of u accumulates them by Horner's rule *)
Lemma digs_digits_fix : forall k b u rest acc n, 2 <= b <= 16 -> 0 <= u -> stops b rest ->
  digs b (digits_fix k b u ++ rest) acc n = (acc * b ^ Z.of_nat k + u mod b ^ Z.of_nat k, n + Z.of_nat k).
Proof.
  induction k as [|k IH]; intros b u rest acc n Hb Hu Hs.
  - cbn [digits_fix app]. rewrite digs_stop by exact Hs. change (Z.of_nat 0) with 0. rewrite Z.pow_0_r, Z.mod_1_r. f_equal; lia.
  - cbn [digits_fix app digs].
    assert (Hpk : 0 < b ^ Z.of_nat k) by (apply Z.pow_pos_nonneg; lia).
    set (d := (u / b ^ Z.of_nat k) mod b).
    assert (Hd : 0 <= d < b) by (apply Z.mod_pos_bound; lia).
    rewrite digval_digit_char by lia. destruct (Z.ltb_spec d b); [|lia].
    rewrite IH by assumption. f_equal; [|lia].
    rewrite Nat2Z.inj_succ, Z.pow_succ_r by lia.
    (* u mod b^(k+1) = d * b^k + u mod b^k *)
    assert (Hm : u mod (b * b ^ Z.of_nat k) = d * b ^ Z.of_nat k + u mod b ^ Z.of_nat k).
    { rewrite (Z.mul_comm b). rewrite Z.rem_mul_r by lia. unfold d. ring. }
    rewrite Hm. ring.
Qed.

(* the unsigned round trip: digits of u in base b, followed by anything that is not a digit of that base *)
Theorem rt_unsigned b u rest : (b = 2 \/ b = 8 \/ b = 10 \/ b = 16) -> 0 < u < 2^64 -> stops b rest ->
  digs b (canon_digits b u ++ rest) 0 0 = (u, Z.of_nat (length (canon_digits b u))).
Proof.
  intros Hb Hu Hs. unfold canon_digits.
  assert (Hb2 : 2 <= b <= 16) by (destruct Hb as [->|[->|[->| ->]]]; lia).
  assert (H64 : u < b ^ Z.of_nat 64).
  { apply Z.lt_le_trans with (2^64); [apply Hu|]. destruct Hb as [->|[->|[->| ->]]]; vm_compute; discriminate. }
  pose proof (top_spec 64 b u ltac:(lia) ltac:(lia) H64) as Ht. set (j := top 64 b u) in *.
  rewrite digs_digits_fix by (try assumption; lia). rewrite digits_fix_length. rewrite Z.mod_small by lia. f_equal; lia.
Qed.
(* zero *)
Lemma rt_zero b rest : 2 <= b -> stops b rest -> digs b (48 :: rest) 0 0 = (0, 1).
Proof. intros Hb Hs. cbn [digs]. change (digval 48) with 0. destruct (Z.ltb_spec 0 b); [|lia]. now rewrite digs_stop. Qed.
Print Assumptions rt_unsigned.
