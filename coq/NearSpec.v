(* C04: the decimal-to-binary rounding of the strtod/strtof model: right binary exponent, round to nearest even *)
From Coq Require Import Bool List NArith ZArith Lia Zify.
From M Require Import NumDecode GFmt GFmtSpec ILog.
Import ListNotations.
Local Open Scope Z_scope.

(* n/d >= 2^e, as the model tests it *)
Definition ge2 (n d e:Z) : bool := if 0 <=? e then d * 2 ^ e <=? n else d <=? n * 2 ^ (- e).
Lemma ge2_cross n d e : ge2 n d e = (d * 2 ^ pos_part e <=? n * 2 ^ neg_part e).
Proof.
  unfold ge2, pos_part, neg_part. destruct (Z.leb_spec 0 e).
  - rewrite (Z.max_l e 0) by lia. rewrite (Z.max_r (- e) 0) by lia. now rewrite Z.pow_0_r, Z.mul_1_r.
  - rewrite (Z.max_r e 0) by lia. rewrite (Z.max_l (- e) 0) by lia. now rewrite Z.pow_0_r, Z.mul_1_r.
Qed.
Definition bin_exp (n d:Z) : Z :=
  let e0 := Z.log2 n - Z.log2 d in if ge2 n d (e0 + 1) then e0 + 1 else if ge2 n d e0 then e0 else e0 - 1.
(* the selected exponent is floor(log2(n/d)): 2^e <= n/d < 2^(e+1) *)
Theorem bin_exp_correct n d : 0 < n -> 0 < d -> ge2 n d (bin_exp n d) = true /\ ge2 n d (bin_exp n d + 1) = false.
Proof.
  intros Hn Hd. unfold bin_exp. set (e0 := Z.log2 n - Z.log2 d).
  assert (Hlo : ge2 n d (e0 - 1) = true).
  { rewrite ge2_cross. apply Z.leb_le. pose proof (ratio_lo n d Hn Hd) as R. cbn zeta in R. fold e0 in R. lia. }
  assert (Hhi : ge2 n d (e0 + 1) = false).
  { rewrite ge2_cross. apply Z.leb_gt. pose proof (ratio_hi n d Hn Hd) as R. cbn zeta in R. fold e0 in R. lia. }
  rewrite Hhi. destruct (ge2 n d e0) eqn:E.
  - split; [exact E|exact Hhi].
  - split; [exact Hlo|]. now replace (e0 - 1 + 1) with e0 by lia.
Qed.

(* the model, re-expressed through bin_exp and rne *)
Definition rounded (p qmin:Z) (n d:Z) : Z * Z * Z * Z :=      (* m, q, num, den *)
  let q := Z.max (bin_exp n d - (p - 1)) qmin in
  let num := if 0 <=? q then n else n * 2 ^ (- q) in
  let den := if 0 <=? q then d * 2 ^ q else d in
  (rne num den, q, num, den).
Theorem round_nearest_even_char p qmin emax n d : n <> 0 ->
  round_nearest_even p qmin emax n d =
  let '(m, q, _, _) := rounded p qmin n d in
  let '(m1, q1) := if m =? 2 ^ p then (2 ^ (p - 1), q + 1) else (m, q) in
  if emax <? q1 + p then None else Some (m1, q1).
Proof.
  intro Hn. unfold round_nearest_even, rounded, bin_exp, ge2, rne. destruct (Z.eqb_spec n 0); [contradiction|]. reflexivity.
Qed.
(* the significand is the nearest integer to n / (d * 2^q), ties to even *)
Theorem rounded_nearest p qmin n d : 0 < n -> 0 < d ->
  let '(m, q, num, den) := rounded p qmin n d in
  0 < den /\ 0 <= num /\ 2 * Z.abs (num - m * den) <= den /\
  (if 0 <=? q then num = n /\ den = d * 2 ^ q else num = n * 2 ^ (- q) /\ den = d).
Proof.
  intros Hn Hd. unfold rounded. set (q := Z.max (bin_exp n d - (p - 1)) qmin).
  destruct (Z.leb_spec 0 q) as [Hq|Hq].
  - assert (0 < 2 ^ q) by (apply Z.pow_pos_nonneg; lia). assert (0 < d * 2 ^ q) by nia.
    split; [assumption|]. split; [lia|]. split; [apply rne_nearest; lia|auto].
  - assert (0 < 2 ^ (- q)) by (apply Z.pow_pos_nonneg; lia). assert (0 <= n * 2 ^ (- q)) by nia.
    split; [assumption|]. split; [assumption|]. split; [apply rne_nearest; lia|auto].
Qed.
Print Assumptions bin_exp_correct.
Print Assumptions round_nearest_even_char.
Print Assumptions rounded_nearest.

(* for a normal result (the exponent is not clamped at the subnormal boundary) the significand has exactly p bits,
   or is 2^p when the rounding carried *)
Theorem rounded_normal_range p qmin n d : 0 < p -> 0 < n -> 0 < d -> qmin <= bin_exp n d - (p - 1) ->
  let '(m, _, _, _) := rounded p qmin n d in 2 ^ (p - 1) <= m <= 2 ^ p.
Proof.
  intros Hp Hn Hd Hnorm. unfold rounded. rewrite Z.max_l by lia.
  destruct (bin_exp_correct n d Hn Hd) as [Hlo Hhi]. set (e := bin_exp n d) in *. set (q := e - (p - 1)).
  assert (Hpw : forall a b, 0 <= a -> 0 <= b -> 2 ^ (a + b) = 2 ^ a * 2 ^ b) by (intros; apply Z.pow_add_r; lia).
  assert (Hpos : forall a, 0 <= a -> 0 < 2 ^ a) by (intros; apply Z.pow_pos_nonneg; lia).
  pose proof (Hpos (p - 1) ltac:(lia)) as Hpp. pose proof (Hpos p ltac:(lia)) as HpP.
  unfold ge2 in Hlo, Hhi.
  destruct (Z.leb_spec 0 q) as [Hq|Hq].
  - (* q >= 0, hence e >= p - 1 >= 0 *)
    destruct (Z.leb_spec 0 e); [|lia]. destruct (Z.leb_spec 0 (e + 1)); [|lia].
    apply Z.leb_le in Hlo. apply Z.leb_gt in Hhi.
    replace e with (q + (p - 1)) in Hlo by (subst q; lia). replace (e + 1) with (q + p) in Hhi by (subst q; lia).
    rewrite Hpw in Hlo, Hhi by lia. pose proof (Hpos q Hq) as Hpq.
    set (den := d * 2 ^ q) in *. assert (Hden : 0 < den) by (subst den; nia).
    pose proof (rne_mono_floor n den Hden ltac:(lia)) as [R1 R2].
    assert (Q1 : 2 ^ (p - 1) <= n / den) by (apply Z.div_le_lower_bound; [lia|]; subst den; nia).
    assert (Q2 : n / den < 2 ^ p) by (apply Z.div_lt_upper_bound; [lia|]; subst den; nia).
    lia.
  - set (t := - q) in *. assert (Ht : 0 < t) by lia. pose proof (Hpos t ltac:(lia)) as Hpt.
    set (num := n * 2 ^ t) in *. assert (Hnum : 0 <= num) by (subst num; nia).
    pose proof (rne_mono_floor num d Hd Hnum) as [R1 R2].
    assert (B1 : d * 2 ^ (p - 1) <= num).
    { destruct (Z.leb_spec 0 e) as [He|He]; apply Z.leb_le in Hlo.
      - subst num. replace (p - 1) with (e + t) by (subst t q; lia). rewrite Hpw by lia. nia.
      - subst num. replace t with (- e + (p - 1)) by (subst t q; lia). rewrite Hpw by lia. nia. }
    assert (B2 : num < d * 2 ^ p).
    { destruct (Z.leb_spec 0 (e + 1)) as [He|He]; apply Z.leb_gt in Hhi.
      - subst num. replace p with (e + 1 + t) by (subst t q; lia). rewrite Hpw by lia. nia.
      - subst num. replace t with (- (e + 1) + p) by (subst t q; lia). rewrite Hpw by lia. nia. }
    assert (Q1 : 2 ^ (p - 1) <= num / d) by (apply Z.div_le_lower_bound; lia).
    assert (Q2 : num / d < 2 ^ p) by (apply Z.div_lt_upper_bound; lia).
    lia.
Qed.
Print Assumptions rounded_normal_range.
