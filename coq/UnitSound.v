(* C13, message units, soundness direction: whenever detect_unit reports a (compound or common) header, the unit is
   blanks, then a well-formed header, and it is delimited -- by ';', by a line terminator, or by the end of the input. *)
From Coq Require Import Bool List NArith ZArith Lia.
From M Require Import LexModel LexBounds DecSpec MoreSpecs NumList HdrSpec HdrSound.
Import ListNotations.
Local Open Scope Z_scope.

Lemma lex_ws_split l : exists pre, all isws pre /\ l = pre ++ drop (disp (lex_ws l)) l /\ disp (lex_ws l) = Z.of_nat (length pre).
Proof.
  destruct (skip_while_split isws l) as (pre & El & Hpre). exists pre.
  assert (Hd : disp (lex_ws l) = Z.of_nat (length pre)).
  { unfold lex_ws. cbn [disp mk]. rewrite El at 1. apply used_app. }
  split; [exact Hpre|]. split; [|exact Hd]. rewrite Hd. rewrite El at 2. rewrite drop_app_len. exact El.
Qed.

Definition delimited (l:bytes) (u:unitinfo) : Prop := u_term u = TERM_NONE -> drop (u_consumed u) l = [].

Lemma unit_header_kept l : ty (u_hdr (detect_unit l)) <> T_INVALID ->
  u_hdr (detect_unit l) = {| ty := ty (tok (lex_header (drop (disp (lex_ws l)) l))); ptr := disp (lex_ws l); len := len (tok (lex_header (drop (disp (lex_ws l)) l))) |}
  /\ delimited l (detect_unit l).
Proof.
  unfold detect_unit, delimited.
  set (w0 := disp (lex_ws l)). set (h := lex_header (drop w0 l)).
  set (p1 := w0 + disp h). set (w1 := disp (lex_ws (drop p1 l))).
  assert (G : forall p3 (data:token) (n:Z),
    let nl := lex_newline (drop p3 l) in let sc := lex_semicolon (drop p3 l) in
    let res := if ret nl =? 0 then ret sc else ret nl in
    let tm := if negb (ret nl =? 0) then TERM_NL else if negb (ret sc =? 0) then TERM_SEMICOLON else TERM_NONE in
    let u := if negb (iseos (drop (p3 + res) l)) && (res =? 0)
             then {| u_hdr := {| ty := T_INVALID; ptr := w0; len := 1 |}; u_data := {| ty := T_UNKNOWN; ptr := 0; len := 0 |}; u_n := n; u_term := tm; u_consumed := p3 + res + 1 |}
             else {| u_hdr := {| ty := ty (tok h); ptr := w0; len := len (tok h) |}; u_data := data; u_n := n; u_term := tm; u_consumed := p3 + res |} in
    ty (u_hdr u) <> T_INVALID ->
    u_hdr u = {| ty := ty (tok h); ptr := w0; len := len (tok h) |} /\ (u_term u = TERM_NONE -> drop (u_consumed u) l = [])).
  { intros p3 data n. cbn zeta.
    match goal with |- context [if ?c then _ else _] => match c with negb _ && _ => destruct c eqn:C end end;
    cbn [u_hdr u_term u_consumed ty]; [congruence|]. intros _. split; [reflexivity|].
    destruct (ret (lex_newline (drop p3 l)) =? 0) eqn:En; cbn [negb]; [|discriminate].
    destruct (ret (lex_semicolon (drop p3 l)) =? 0) eqn:Es; cbn [negb]; [|discriminate]. intros _.
    apply Z.eqb_eq in Es. rewrite Es in *. cbn [Z.eqb] in C. rewrite andb_true_r in C. apply negb_false_iff in C.
    destruct (drop (p3 + 0) l); [reflexivity|discriminate]. }
  destruct (0 <? w1); apply G.
Qed.

Definition is_header_type (t:ttype) : Prop := t = T_COMPOUND_HDR \/ t = T_COMPOUND_QUERY_HDR \/ t = T_COMMON_HDR \/ t = T_COMMON_QUERY_HDR.

(* compound headers *)
Theorem unit_sound_compound l (q:bool) : ty (u_hdr (detect_unit l)) = (if q then T_COMPOUND_QUERY_HDR else T_COMPOUND_HDR) ->
  exists ws0 lead m1 ms rest, all isws ws0 /\ Mnem m1 /\ Forall Mnem ms /\
    l = ws0 ++ header_text lead m1 ms ++ (if q then 63%N :: rest else rest) /\
    (q = false -> hstop rest /\ starts (ischr 63%N) rest = false) /\
    ptr (u_hdr (detect_unit l)) = Z.of_nat (length ws0) /\
    len (u_hdr (detect_unit l)) = Z.of_nat (length (header_text lead m1 ms)) + (if q then 1 else 0) /\
    delimited l (detect_unit l).
Proof.
  intros Hty. destruct (unit_header_kept l) as [Eh Hd]; [rewrite Hty; destruct q; discriminate|].
  rewrite Eh in Hty. cbn [ty] in Hty.
  destruct (lex_ws_split l) as (ws0 & Hws & El & Ew).
  destruct (compound_sound (drop (disp (lex_ws l)) l) q Hty) as (lead & m1 & ms & rest & Hm1 & Hms & Ed & Hq & Hp & Hl & _).
  exists ws0, lead, m1, ms, rest.
  split; [exact Hws|]. split; [exact Hm1|]. split; [exact Hms|].
  split; [rewrite El at 1; rewrite Ed; reflexivity|]. split; [exact Hq|].
  split; [rewrite Eh; exact Ew|]. split; [rewrite Eh; exact Hl|exact Hd].
Qed.
Print Assumptions unit_sound_compound.

(* common headers *)
Theorem unit_sound_common l (q:bool) : ty (u_hdr (detect_unit l)) = (if q then T_COMMON_QUERY_HDR else T_COMMON_HDR) ->
  exists ws0 m rest, all isws ws0 /\ Mnem m /\
    l = ws0 ++ 42%N :: m ++ (if q then 63%N :: rest else rest) /\
    (q = false -> mstop rest /\ starts (ischr 63%N) rest = false) /\
    ptr (u_hdr (detect_unit l)) = Z.of_nat (length ws0) /\
    len (u_hdr (detect_unit l)) = 1 + Z.of_nat (length m) + (if q then 1 else 0) /\
    delimited l (detect_unit l).
Proof.
  intros Hty. destruct (unit_header_kept l) as [Eh Hd]; [rewrite Hty; destruct q; discriminate|].
  rewrite Eh in Hty. cbn [ty] in Hty.
  destruct (lex_ws_split l) as (ws0 & Hws & El & Ew).
  destruct (common_sound (drop (disp (lex_ws l)) l) q Hty) as (m & rest & Hm & Ed & Hq & Hp & Hl & _).
  exists ws0, m, rest.
  split; [exact Hws|]. split; [exact Hm|].
  split; [rewrite El at 1; rewrite Ed; reflexivity|]. split; [exact Hq|].
  split; [rewrite Eh; exact Ew|]. split; [rewrite Eh; exact Hl|exact Hd].
Qed.
Print Assumptions unit_sound_common.
