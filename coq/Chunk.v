(* C08, reduction: what SCPI_Input keeps between calls is the unprocessed bytes and nothing else;
   a chunk that completes no message only accumulates; hence splitting before the first completed message is invisible *)
From Coq Require Import Bool List NArith ZArith Lia.
From M Require LexModel MatchModel FmtModel.
From M Require Import ParserModel.
Import ListNotations.
Local Open Scope Z_scope.

(* SCPI_Input without the ghost event that records its return value *)
Definition input_core (c:ctx) (data:bytes) (descs:Z -> bytes) : ctx * bool :=
  let position := Z.of_nat (length (mem c)) in
  let len := Z.of_nat (length data) in
  if len =? 0 then let '(c1, res) := scpi_parse c position descs in (upd_mem c1 [], res)
  else if (cap c - position - 1) <? len then (error_push (upd_mem c []) (-363) None, false)
  else let c1 := upd_mem c (mem c ++ data) in input_loop (S (S (length (mem c1)))) c1 0 true descs.
Lemma scpi_input_core c data d : scpi_input c data d = let '(c', r) := input_core c data d in ev c' (EvR r).
Proof.
  unfold scpi_input, input_core. destruct (Z.of_nat (length data) =? 0).
  - destruct (scpi_parse c _ d) as [c1 res]. reflexivity.
  - destruct (_ <? _); [reflexivity|]. destruct (input_loop _ _ 0 true d) as [c2 res]. reflexivity.
Qed.

(* 1. only the pending bytes matter: a call with pending bytes b and new data x is the call with nothing pending and data b ++ x *)
Theorem pending_is_prefix c x d : x <> [] ->
  input_core c x d = input_core (upd_mem c []) (mem c ++ x) d.
Proof.
  intro Hx. unfold input_core. cbn [mem upd_mem cap length app].
  assert (Hl : Z.of_nat (length x) <> 0) by (destruct x; [congruence|cbn [length]; lia]).
  destruct (Z.eqb_spec (Z.of_nat (length x)) 0); [contradiction|].
  assert (Hl2 : Z.of_nat (length (mem c ++ x)) <> 0) by (rewrite app_length; lia).
  destruct (Z.eqb_spec (Z.of_nat (length (mem c ++ x))) 0); [contradiction|].
  rewrite app_length, Nat2Z.inj_add. cbn [Z.of_nat].
  replace (cap c - 0 - 1 <? Z.of_nat (length (mem c)) + Z.of_nat (length x)) with (cap c - Z.of_nat (length (mem c)) - 1 <? Z.of_nat (length x))
    by (destruct (Z.ltb_spec (cap c - Z.of_nat (length (mem c)) - 1) (Z.of_nat (length x))), (Z.ltb_spec (cap c - 0 - 1) (Z.of_nat (length (mem c)) + Z.of_nat (length x))); lia || reflexivity).
  destruct (_ <? _); reflexivity.
Qed.

(* 2. the scan of a buffer in which no unit ends with a line terminator executes nothing *)
Fixpoint scan_quiet (fuel:nat) (m:bytes) (tot:Z) : bool :=
  match fuel with O => true | S f =>
    let u := LexModel.detect_unit (dropm m tot) in
    let tot1 := tot + LexModel.u_consumed u in
    match LexModel.u_term u with
    | LexModel.TERM_NL => false
    | _ => if (match LexModel.ty (LexModel.u_hdr u) with LexModel.T_UNKNOWN => true | _ => false end)
              && (match LexModel.u_term u with LexModel.TERM_NONE => true | _ => false end) then true
           else if Z.of_nat (length m) <=? tot1 then true else scan_quiet f m tot1
    end
  end.
Lemma quiet_loop fuel : forall c tot result d, scan_quiet fuel (mem c) tot = true -> input_loop fuel c tot result d = (c, result).
Proof.
  induction fuel as [|f IH]; intros c tot result d H; [reflexivity|]. cbn [scan_quiet input_loop] in *.
  destruct (LexModel.u_term (LexModel.detect_unit (dropm (mem c) tot))); try discriminate;
  (destruct (_ && _); [reflexivity|]; destruct (_ <=? _); [reflexivity|]; apply IH, H).
Qed.
Theorem quiet_chunk_accumulates c x d : x <> [] -> Z.of_nat (length x) <= cap c - Z.of_nat (length (mem c)) - 1 ->
  scan_quiet (S (S (length (mem c ++ x)))) (mem c ++ x) 0 = true ->
  input_core c x d = (upd_mem c (mem c ++ x), true).
Proof.
  intros Hx Hfit Hq. unfold input_core.
  assert (Hl : Z.of_nat (length x) <> 0) by (destruct x; [congruence|cbn [length]; lia]).
  destruct (Z.eqb_spec (Z.of_nat (length x)) 0); [contradiction|].
  destruct (Z.ltb_spec (cap c - Z.of_nat (length (mem c)) - 1) (Z.of_nat (length x))); [lia|].
  apply quiet_loop. cbn [mem upd_mem]. exact Hq.
Qed.

(* 3. C08 for a split before the first completed message: feeding x then y is feeding x ++ y *)
Theorem split_before_message c x y d : x <> [] -> y <> [] ->
  Z.of_nat (length x) + Z.of_nat (length y) <= cap c - Z.of_nat (length (mem c)) - 1 ->
  scan_quiet (S (S (length (mem c ++ x)))) (mem c ++ x) 0 = true ->
  input_core (fst (input_core c x d)) y d = input_core c (x ++ y) d.
Proof.
  intros Hx Hy Hfit Hq. rewrite (quiet_chunk_accumulates c x d Hx ltac:(lia) Hq). cbn [fst].
  rewrite (pending_is_prefix (upd_mem c (mem c ++ x)) y d Hy). cbn [mem upd_mem].
  rewrite (pending_is_prefix c (x ++ y) d) by (destruct x; [congruence|discriminate]).
  rewrite app_assoc. reflexivity.
Qed.
Print Assumptions split_before_message.

(* any number of chunks before the first completed message *)
Fixpoint feed (c:ctx) (chunks:list bytes) (d:Z -> bytes) : ctx := match chunks with [] => c | x :: r => feed (fst (input_core c x d)) r d end.
Fixpoint quiet_prefixes (m:bytes) (chunks:list bytes) : Prop :=
  match chunks with [] => True | x :: r => x <> [] /\ scan_quiet (S (S (length (m ++ x)))) (m ++ x) 0 = true /\ quiet_prefixes (m ++ x) r end.
Theorem chunks_before_message : forall chunks c y d, quiet_prefixes (mem c) chunks -> y <> [] ->
  Z.of_nat (length (concat chunks)) + Z.of_nat (length y) <= cap c - Z.of_nat (length (mem c)) - 1 ->
  input_core (feed c chunks d) y d = input_core c (concat chunks ++ y) d.
Proof.
  induction chunks as [|x r IH]; intros c y d Hq Hy Hfit; [reflexivity|].
  cbn [quiet_prefixes] in Hq. destruct Hq as (Hx & Hqx & Hqr). cbn [feed concat] in *. rewrite app_length in Hfit.
  rewrite (quiet_chunk_accumulates c x d Hx ltac:(lia) Hqx). cbn [fst].
  rewrite IH; [|exact Hqr|exact Hy|cbn [mem upd_mem cap]; rewrite app_length; lia].
  rewrite (pending_is_prefix (upd_mem c (mem c ++ x)) (concat r ++ y) d) by (destruct (concat r); [cbn; exact Hy|discriminate]).
  rewrite (pending_is_prefix c ((x ++ concat r) ++ y) d) by (destruct x; [congruence|discriminate]).
  cbn [mem upd_mem]. rewrite <- !app_assoc. reflexivity.
Qed.
Print Assumptions chunks_before_message.

(* observation 9: a line terminator inside a quoted string makes the prefix look like a finished message:
   the bytes are D D space quote a NL; the scan reports a terminated unit *)
Example quoted_newline_not_quiet :
  scan_quiet 12 [68;68;32;34;97;10]%N 0 = false.
Proof. vm_compute. reflexivity. Qed.

(* the two remaining clauses of the input function, by unfolding: a zero-length call runs SCPI_Parse on exactly the pending
   bytes and empties the buffer; a chunk that does not fit discards the pending bytes, queues -363 and reports failure *)
Theorem flush_executes_pending c d :
  input_core c [] d = (upd_mem (fst (scpi_parse c (Z.of_nat (length (mem c))) d)) [], snd (scpi_parse c (Z.of_nat (length (mem c))) d)).
Proof. unfold input_core. cbn [length Z.of_nat Z.eqb]. destruct (scpi_parse c (Z.of_nat (length (mem c))) d) as [c1 res]. reflexivity. Qed.
Theorem overrun_discards c x d : x <> [] -> cap c - Z.of_nat (length (mem c)) - 1 < Z.of_nat (length x) ->
  input_core c x d = (error_push (upd_mem c []) (-363) None, false).
Proof.
  intros Hx Hbig. unfold input_core.
  assert (Hl : Z.of_nat (length x) <> 0) by (destruct x; [congruence|cbn [length]; lia]).
  destruct (Z.eqb_spec (Z.of_nat (length x)) 0); [contradiction|].
  destruct (Z.ltb_spec (cap c - Z.of_nat (length (mem c)) - 1) (Z.of_nat (length x))); [reflexivity|lia].
Qed.
Print Assumptions flush_executes_pending.

(* ---------- reduction of the partition statement to single splits ---------- *)
(* If, for a class P of (context, pending stream) pairs that is kept by feeding a prefix, cutting the stream once is
   invisible, then every partition into non-empty chunks behaves like one chunk.  (The class "no proper prefix completes a
   message" satisfies the hypothesis: split_before_message; the general class is where the recorded finding lives.) *)
Section Partition.
Variable d : Z -> bytes.
Variable P : ctx -> bytes -> Prop.
Hypothesis split_invisible : forall c x y, P c (x ++ y) -> x <> [] -> y <> [] ->
  fst (input_core (fst (input_core c x d)) y d) = fst (input_core c (x ++ y) d) /\ P (fst (input_core c x d)) y.
Theorem partition_reduction : forall chunks c, chunks <> [] -> Forall (fun x => x <> []) chunks -> P c (concat chunks) ->
  feed c chunks d = fst (input_core c (concat chunks) d).
Proof.
  induction chunks as [|x r IH]; intros c Hne Hall HP; [congruence|]. inversion Hall as [|? ? Hx Hr]; subst.
  cbn [feed concat]. destruct r as [|y r'].
  - cbn [feed concat]. now rewrite app_nil_r.
  - assert (Hc : concat (y :: r') <> []) by (inversion Hr as [|? ? Hy _]; subst; cbn [concat]; destruct y; [congruence|discriminate]).
    destruct (split_invisible c x (concat (y :: r')) HP Hx Hc) as [E HP'].
    rewrite (IH (fst (input_core c x d)) ltac:(discriminate) Hr HP'). exact E.
Qed.
End Partition.
Print Assumptions partition_reduction.

(* instance: a stream none of whose proper prefixes completes a message (one message arriving in pieces, whatever it
   contains) -- every partition, byte-at-a-time included, behaves like the delivery in one call *)
Definition quiet_class (c:ctx) (s:bytes) : Prop :=
  Z.of_nat (length s) <= cap c - Z.of_nat (length (mem c)) - 1 /\
  forall p q, s = p ++ q -> p <> [] -> q <> [] -> scan_quiet (S (S (length (mem c ++ p)))) (mem c ++ p) 0 = true.
Lemma quiet_split d c x y : quiet_class c (x ++ y) -> x <> [] -> y <> [] ->
  fst (input_core (fst (input_core c x d)) y d) = fst (input_core c (x ++ y) d) /\ quiet_class (fst (input_core c x d)) y.
Proof.
  intros [Hfit Hq] Hx Hy. rewrite app_length, Nat2Z.inj_add in Hfit.
  pose proof (Hq x y eq_refl Hx Hy) as Hqx.
  split.
  - now rewrite (split_before_message c x y d Hx Hy Hfit Hqx).
  - rewrite (quiet_chunk_accumulates c x d Hx ltac:(lia) Hqx). cbn [fst]. unfold quiet_class. cbn [mem cap upd_mem].
    split; [rewrite app_length; lia|]. intros p q E Hp Hq'. rewrite <- app_assoc. apply (Hq (x ++ p) q).
    + rewrite E, app_assoc. reflexivity.
    + destruct x; [congruence|discriminate].
    + exact Hq'.
Qed.
Theorem partition_one_message d chunks c : chunks <> [] -> Forall (fun x => x <> []) chunks -> quiet_class c (concat chunks) ->
  feed c chunks d = fst (input_core c (concat chunks) d).
Proof. intros. apply (partition_reduction d quiet_class (quiet_split d)); assumption. Qed.
Print Assumptions partition_one_message.

(* a buffer without CR and LF never looks like a finished message, so a message that contains neither (no line terminator
   inside strings or blocks) and ends with its terminator is in the class above *)
Definition no_nl (m:bytes) : Prop := forall b, In b m -> b <> 10%N /\ b <> 13%N.
Lemma newline_none l : (match l with b :: _ => b <> 10%N /\ b <> 13%N | [] => True end) -> LexModel.ret (LexModel.lex_newline l) = 0.
Proof.
  destruct l as [|b r]; [reflexivity|]. intros [H10 H13]. unfold LexModel.lex_newline. cbn [LexModel.skip_opt].
  unfold LexModel.ischr. apply N.eqb_neq in H10, H13. rewrite H13. cbn [LexModel.skip_opt]. rewrite H10.
  unfold LexModel.used. rewrite Z.sub_diag. reflexivity.
Qed.
Lemma in_skipn {A} (x:A) : forall n l, In x (skipn n l) -> In x l.
Proof. induction n as [|n IH]; intros [|y l]; cbn [skipn]; auto. intro H. right. now apply IH. Qed.
Lemma unit_term_no_nl l : no_nl l -> LexModel.u_term (LexModel.detect_unit l) <> LexModel.TERM_NL.
Proof.
  intros Hn. unfold LexModel.detect_unit.
  assert (G : forall p, LexModel.ret (LexModel.lex_newline (LexModel.drop p l)) = 0).
  { intro p. apply newline_none. unfold LexModel.drop. unfold LexModel.bytes, LexModel.byte in *.
    assert (Hs : forall b, In b (skipn (Z.to_nat p) l) -> b <> 10%N /\ b <> 13%N) by (intros b Hb; apply Hn; eapply in_skipn; exact Hb).
    destruct (skipn (Z.to_nat p) l) as [|b r]; [exact I|]. apply Hs. now left. }
  destruct (0 <? LexModel.disp (LexModel.lex_ws (LexModel.drop (LexModel.disp (LexModel.lex_ws l) + LexModel.disp (LexModel.lex_header (LexModel.drop (LexModel.disp (LexModel.lex_ws l)) l))) l)));
  rewrite !G; cbn [Z.eqb negb];
  match goal with |- context [if ?c then _ else _] => match c with negb (LexModel.iseos _) && _ => destruct c end end;
  cbn [LexModel.u_term]; destruct (negb (LexModel.ret (LexModel.lex_semicolon _) =? 0)); discriminate.
Qed.
Lemma no_nl_quiet fuel : forall m tot, no_nl m -> scan_quiet fuel m tot = true.
Proof.
  induction fuel as [|f IH]; intros m tot Hn; [reflexivity|]. cbn [scan_quiet].
  assert (Hd : no_nl (dropm m tot)) by (intros b Hb; apply Hn; unfold dropm in Hb; eapply in_skipn; exact Hb).
  pose proof (unit_term_no_nl _ Hd) as Ht.
  destruct (LexModel.u_term (LexModel.detect_unit (dropm m tot))); try congruence;
  (destruct (_ && _); [reflexivity|]; destruct (_ <=? _); [reflexivity|]; now apply IH).
Qed.
Theorem message_in_pieces c msg t : mem c = [] -> no_nl msg -> Z.of_nat (length msg) + 1 <= cap c - 1 -> quiet_class c (msg ++ [t]).
Proof.
  intros Hm Hn Hfit. unfold quiet_class. rewrite Hm. cbn [length app]. split; [rewrite app_length; cbn [length]; lia|].
  intros p q E Hp Hq. apply no_nl_quiet. intros b Hb.
  (* p is a prefix of msg because q is not empty *)
  assert (Hpre : exists q', msg = p ++ q').
  { destruct (exists_last Hq) as (q' & tl & ->). rewrite app_assoc in E. apply app_inj_tail in E as [E _]. now exists q'. }
  destruct Hpre as (q' & ->). apply Hn. apply in_or_app. now left.
Qed.
Print Assumptions message_in_pieces.

(* C08 for one message arriving in pieces: whatever the message contains (as long as CR and LF occur only as its last byte)
   and however it is cut -- byte at a time included -- the context after the last piece is the one after a single call *)
Theorem one_message_any_partition d c msg t chunks : mem c = [] -> no_nl msg -> Z.of_nat (length msg) + 1 <= cap c - 1 ->
  chunks <> [] -> Forall (fun x => x <> []) chunks -> concat chunks = msg ++ [t] ->
  feed c chunks d = fst (input_core c (msg ++ [t]) d).
Proof.
  intros Hm Hn Hfit Hne Hall Hc. rewrite <- Hc. apply partition_one_message; try assumption. rewrite Hc. now apply message_in_pieces.
Qed.
Print Assumptions one_message_any_partition.
