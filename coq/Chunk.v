(* C08, reduction: what SCPI_Input keeps between calls is the unprocessed bytes and nothing else;
   a chunk that completes no message only accumulates; hence splitting before the first completed message is invisible *)
From Coq Require Import Bool List NArith ZArith Lia.
From M Require LexModel MatchModel FmtModel.
From M Require Import ParserModel.
Import ListNotations.
Local Open Scope Z_scope.

(* SCPI_Input without the ghost event that records its return value *)
Definition input_core (c:ctx) (data:bytes) (descs:Z -> bytes) : ctx * bool :=
  let position := Z.of_nat (length (mem c)) in
  let len := Z.of_nat (length data) in
  if len =? 0 then let '(c1, res) := scpi_parse c position descs in (upd_mem c1 [], res)
  else if (cap c - position - 1) <? len then (error_push (upd_mem c []) (-363) None, false)
  else let c1 := upd_mem c (mem c ++ data) in input_loop (S (S (length (mem c1)))) c1 0 true descs.
Lemma scpi_input_core c data d : scpi_input c data d = let '(c', r) := input_core c data d in ev c' (EvR r).
Proof.
  unfold scpi_input, input_core. destruct (Z.of_nat (length data) =? 0).
  - destruct (scpi_parse c _ d) as [c1 res]. reflexivity.
  - destruct (_ <? _); [reflexivity|]. destruct (input_loop _ _ 0 true d) as [c2 res]. reflexivity.
Qed.

(* 1. only the pending bytes matter: a call with pending bytes b and new data x is the call with nothing pending and data b ++ x *)
Theorem pending_is_prefix c x d : x <> [] ->
  input_core c x d = input_core (upd_mem c []) (mem c ++ x) d.
Proof.
  intro Hx. unfold input_core. cbn [mem upd_mem cap length app].
  assert (Hl : Z.of_nat (length x) <> 0) by (destruct x; [congruence|cbn [length]; lia]).
  destruct (Z.eqb_spec (Z.of_nat (length x)) 0); [contradiction|].
  assert (Hl2 : Z.of_nat (length (mem c ++ x)) <> 0) by (rewrite app_length; lia).
  destruct (Z.eqb_spec (Z.of_nat (length (mem c ++ x))) 0); [contradiction|].
  rewrite app_length, Nat2Z.inj_add. cbn [Z.of_nat].
  replace (cap c - 0 - 1 <? Z.of_nat (length (mem c)) + Z.of_nat (length x)) with (cap c - Z.of_nat (length (mem c)) - 1 <? Z.of_nat (length x))
    by (destruct (Z.ltb_spec (cap c - Z.of_nat (length (mem c)) - 1) (Z.of_nat (length x))), (Z.ltb_spec (cap c - 0 - 1) (Z.of_nat (length (mem c)) + Z.of_nat (length x))); lia || reflexivity).
  destruct (_ <? _); reflexivity.
Qed.

(* 2. the scan of a buffer in which no unit ends with a line terminator executes nothing *)
Fixpoint scan_quiet (fuel:nat) (m:bytes) (tot:Z) : bool :=
  match fuel with O => true | S f =>
    let u := LexModel.detect_unit (dropm m tot) in
    let tot1 := tot + LexModel.u_consumed u in
    match LexModel.u_term u with
    | LexModel.TERM_NL => false
    | _ => if (match LexModel.ty (LexModel.u_hdr u) with LexModel.T_UNKNOWN => true | _ => false end)
              && (match LexModel.u_term u with LexModel.TERM_NONE => true | _ => false end) then true
           else if Z.of_nat (length m) <=? tot1 then true else scan_quiet f m tot1
    end
  end.
Lemma quiet_loop fuel : forall c tot result d, scan_quiet fuel (mem c) tot = true -> input_loop fuel c tot result d = (c, result).
Proof.
  induction fuel as [|f IH]; intros c tot result d H; [reflexivity|]. cbn [scan_quiet input_loop] in *.
  destruct (LexModel.u_term (LexModel.detect_unit (dropm (mem c) tot))); try discriminate;
  (destruct (_ && _); [reflexivity|]; destruct (_ <=? _); [reflexivity|]; apply IH, H).
Qed.
Theorem quiet_chunk_accumulates c x d : x <> [] -> Z.of_nat (length x) <= cap c - Z.of_nat (length (mem c)) - 1 ->
  scan_quiet (S (S (length (mem c ++ x)))) (mem c ++ x) 0 = true ->
  input_core c x d = (upd_mem c (mem c ++ x), true).
Proof.
  intros Hx Hfit Hq. unfold input_core.
  assert (Hl : Z.of_nat (length x) <> 0) by (destruct x; [congruence|cbn [length]; lia]).
  destruct (Z.eqb_spec (Z.of_nat (length x)) 0); [contradiction|].
  destruct (Z.ltb_spec (cap c - Z.of_nat (length (mem c)) - 1) (Z.of_nat (length x))); [lia|].
  apply quiet_loop. cbn [mem upd_mem]. exact Hq.
Qed.

(* 3. C08 for a split before the first completed message: feeding x then y is feeding x ++ y *)
Theorem split_before_message c x y d : x <> [] -> y <> [] ->
  Z.of_nat (length x) + Z.of_nat (length y) <= cap c - Z.of_nat (length (mem c)) - 1 ->
  scan_quiet (S (S (length (mem c ++ x)))) (mem c ++ x) 0 = true ->
  input_core (fst (input_core c x d)) y d = input_core c (x ++ y) d.
Proof.
  intros Hx Hy Hfit Hq. rewrite (quiet_chunk_accumulates c x d Hx ltac:(lia) Hq). cbn [fst].
  rewrite (pending_is_prefix (upd_mem c (mem c ++ x)) y d Hy). cbn [mem upd_mem].
  rewrite (pending_is_prefix c (x ++ y) d) by (destruct x; [congruence|discriminate]).
  rewrite app_assoc. reflexivity.
Qed.
Print Assumptions split_before_message.

(* any number of chunks before the first completed message *)
Fixpoint feed (c:ctx) (chunks:list bytes) (d:Z -> bytes) : ctx := match chunks with [] => c | x :: r => feed (fst (input_core c x d)) r d end.
Fixpoint quiet_prefixes (m:bytes) (chunks:list bytes) : Prop :=
  match chunks with [] => True | x :: r => x <> [] /\ scan_quiet (S (S (length (m ++ x)))) (m ++ x) 0 = true /\ quiet_prefixes (m ++ x) r end.
Theorem chunks_before_message : forall chunks c y d, quiet_prefixes (mem c) chunks -> y <> [] ->
  Z.of_nat (length (concat chunks)) + Z.of_nat (length y) <= cap c - Z.of_nat (length (mem c)) - 1 ->
  input_core (feed c chunks d) y d = input_core c (concat chunks ++ y) d.
Proof.
  induction chunks as [|x r IH]; intros c y d Hq Hy Hfit; [reflexivity|].
  cbn [quiet_prefixes] in Hq. destruct Hq as (Hx & Hqx & Hqr). cbn [feed concat] in *. rewrite app_length in Hfit.
  rewrite (quiet_chunk_accumulates c x d Hx ltac:(lia) Hqx). cbn [fst].
  rewrite IH; [|exact Hqr|exact Hy|cbn [mem upd_mem cap]; rewrite app_length; lia].
  rewrite (pending_is_prefix (upd_mem c (mem c ++ x)) (concat r ++ y) d) by (destruct (concat r); [cbn; exact Hy|discriminate]).
  rewrite (pending_is_prefix c ((x ++ concat r) ++ y) d) by (destruct x; [congruence|discriminate]).
  cbn [mem upd_mem]. rewrite <- !app_assoc. reflexivity.
Qed.
Print Assumptions chunks_before_message.

(* observation 9: a line terminator inside a quoted string makes the prefix look like a finished message:
   the bytes are D D space quote a NL; the scan reports a terminated unit *)
Example quoted_newline_not_quiet :
  scan_quiet 12 [68;68;32;34;97;10]%N 0 = false.
Proof. vm_compute. reflexivity. Qed.
