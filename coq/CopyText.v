(* C15, quoted-text copy (SCPI_ParamCopyText): every byte is stored at an index below the stated buffer length, the
   terminating NUL is stored only when a byte remains for it, and the reported length is the number of bytes stored. *)
From Coq Require Import Bool List NArith ZArith Lia.
From M Require LexModel.
From M Require Import ParserModel.
Import ListNotations.
Local Open Scope Z_scope.

(* the loop stores byte number ito at index ito; ito stays below the read index, which stays below buflen while it runs *)
Lemma copy_loop_bounded fuel : forall src q ifrom ito plen buflen out,
  ito < ifrom -> Z.of_nat (length out) = ito ->
  let '(out', ito') := copy_loop fuel src q ifrom ito plen buflen out in
  Z.of_nat (length out') = ito' /\ ito <= ito' /\ (ito' = ito \/ ito' <= buflen).
Proof.
  induction fuel as [|f IH]; intros src q ifrom ito plen buflen out Hlt Hlen; cbn [copy_loop].
  - repeat split; auto; lia.
  - destruct (plen - 1 <=? ifrom); [repeat split; auto; lia|].
    destruct (Z.leb_spec buflen ifrom); [repeat split; auto; lia|].
    set (ifrom' := if (getm src ifrom =? q)%N then ifrom + 2 else ifrom + 1).
    assert (Hlt' : ito + 1 < ifrom') by (unfold ifrom'; destruct (getm src ifrom =? q)%N; lia).
    assert (Hlen' : Z.of_nat (length (out ++ [getm src ifrom])) = ito + 1) by (rewrite app_length; cbn [length]; lia).
    specialize (IH src q ifrom' (ito + 1) plen buflen (out ++ [getm src ifrom]) Hlt' Hlen').
    destruct (copy_loop f src q ifrom' (ito + 1) plen buflen (out ++ [getm src ifrom])) as [out' ito'].
    destruct IH as (A & B & C). split; [exact A|]. split; [lia|]. right. destruct C as [C|C]; lia.
Qed.

Theorem param_text_bounded c buflen m :
  let '(c1, ok, out, nul) := param_text c buflen m in
  Z.of_nat (length out) <= Z.max 0 buflen /\ (nul = true -> Z.of_nat (length out) < buflen).
Proof.
  unfold param_text. destruct (parameter c m) as [[c1 ok] t]. destruct ok; [|cbn; lia].
  destruct (is_quote (LexModel.ty t)); [|cbn; lia].
  pose proof (copy_loop_bounded (S (Z.to_nat (LexModel.len t))) (dropm (mem c1) (LexModel.ptr t))
               (match LexModel.ty t with LexModel.T_SQUOTE => 39%N | _ => 34%N end) 1 0 (LexModel.len t) buflen [] ltac:(lia) eq_refl) as H.
  destruct (copy_loop _ _ _ 1 0 _ buflen []) as [out ito]. destruct H as (A & B & C).
  split; [lia|]. intro Hn. apply Z.ltb_lt in Hn. lia.
Qed.
Print Assumptions param_text_bounded.

(* a zero-length buffer receives nothing, not even the terminator *)
Corollary param_text_len0 c m : let '(c1, ok, out, nul) := param_text c 0 m in out = [] /\ nul = false.
Proof.
  pose proof (param_text_bounded c 0 m) as H. destruct (param_text c 0 m) as [[[c1 ok] out] nul]. destruct H as [H1 H2].
  split; [destruct out; [reflexivity|cbn [length] in H1; lia]|]. destruct nul; [specialize (H2 eq_refl); lia|reflexivity].
Qed.
