(* C19 at handler level: an expression entry function applied to a parameter reports ERROR exactly when it queues an error
   (-170 for a malformed list, -104 for a parameter that is no expression), and never hands back more values per entry than
   the capacity the handler announced. *)
From Coq Require Import Bool List NArith ZArith Lia.
From M Require LexModel ExprModel.
From M Require Import ParserModel.
Import ListNotations.
Local Open Scope Z_scope.

Lemma chanlist_errors body idx cap :
  let '(r, _, _, _, _, nerr) := ExprModel.chanlist_entry body idx cap in
  (r = ExprModel.EERR -> nerr = 1) /\ (r <> ExprModel.EERR -> nerr = 0).
Proof.
  unfold ExprModel.chanlist_entry. destruct (LexModel.ret _ =? 0); [split; [reflexivity|congruence]|].
  destruct (ExprModel.chanlist_walk _ _ _ _ _ _) as [[[[[r isr] vf] vt] dims] p].
  destruct r; [split; [discriminate|reflexivity]|split; [reflexivity|congruence]|].
  destruct (LexModel.iseos _); [split; [discriminate|reflexivity]|split; [reflexivity|congruence]].
Qed.

Theorem chan_entry_error c t idx cap : LexModel.ty t = LexModel.T_EXPR ->
  let '(c1, rep) := expr_chanlist c t idx cap in
  (hd 0 rep = 1 -> c1 = error_push c (-170) None) /\ (hd 0 rep <> 1 -> c1 = c).
Proof.
  intro Ht. unfold expr_chanlist. rewrite Ht.
  pose proof (chanlist_errors (slice (mem c) (LexModel.ptr t + 1) (LexModel.len t - 2)) idx cap) as H.
  destruct (ExprModel.chanlist_entry _ idx cap) as [[[[[r isr] vf] vt] dims] nerr]. destruct H as [H1 H2].
  destruct r; cbn [eres_code hd].
  - rewrite (H2 ltac:(discriminate)). cbn. split; [discriminate|reflexivity].
  - rewrite (H1 eq_refl). cbn. split; reflexivity || congruence.
  - rewrite (H2 ltac:(discriminate)). cbn. split; [discriminate|reflexivity].
Qed.
Theorem num_entry_error c t idx : LexModel.ty t = LexModel.T_EXPR ->
  let '(c1, rep) := expr_numlist c t idx in
  (hd 0 rep = 1 -> c1 = error_push c (-170) None) /\ (hd 0 rep <> 1 -> c1 = c).
Proof.
  intro Ht. unfold expr_numlist. rewrite Ht.
  destruct (ExprModel.numlist_walk _ _ _ _ _) as [[[r isr] [fo fl]] [to tl_]].
  destruct r; cbn [eres_code hd]; split; try discriminate; try reflexivity; congruence.
Qed.
Theorem not_an_expression c t idx cap : LexModel.ty t <> LexModel.T_EXPR ->
  expr_chanlist c t idx cap = (error_push c (-104) None, [1]) /\ expr_numlist c t idx = (error_push c (-104) None, [1]).
Proof. intro H. unfold expr_chanlist, expr_numlist. destruct (LexModel.ty t); try congruence; split; reflexivity. Qed.

(* the report carries: code, range flag, dimensions, then at most min(cap, dims) values per end of the range *)
Theorem chan_entry_capacity c t idx cap : 0 <= cap ->
  let '(_, rep) := expr_chanlist c t idx cap in Z.of_nat (length rep) <= 3 + 2 * cap.
Proof.
  intro Hc. unfold expr_chanlist. destruct (LexModel.ty t); cbn [length]; try lia.
  destruct (ExprModel.chanlist_entry _ idx cap) as [[[[[r isr] vf] vt] dims] nerr].
  destruct r; cbn [length]; try lia. rewrite !app_length. cbn [length].
  pose proof (firstn_le_length (Z.to_nat (Z.min cap dims)) vf). pose proof (firstn_le_length (Z.to_nat (Z.min cap dims)) vt).
  assert (forall l:list Z, (length (firstn (Z.to_nat (Z.min cap dims)) l) <= Z.to_nat cap)%nat).
  { intro l. rewrite firstn_length. lia. }
  pose proof (H1 vf). pose proof (H1 vt). destruct isr; cbn [length]; lia.
Qed.
Print Assumptions chan_entry_error.
Print Assumptions chan_entry_capacity.
