(* C02 -- property theorems only: every statement is closed by `exact` on a lemma proved elsewhere.
   Statements are pinned by coq/statements/C02.json; ./check compares. *)
From Coq Require Import Bool List NArith ZArith Lia.
From M Require Dispatch.
From M Require Undefined.
From M Require Undef113.
From M Require EndToEnd.
From M Require ArrayRoundTrip.
From M Require DecSpec.
From M Require Dispatch.
From M Require Framing2.
From M Require HdrSpec.
From M Require LexBounds.
From M Require LexModel.
From M Require ListWs.
From M Require MoreSpecs.
From M Require NumList.
From M Require ParamList.
From M Require ParserModel.
From M Require SimpleSpecs.
From M Require Undefined.
From M Require UnitFull.
From M Require UnitSpec.
Import ListNotations.

Module T_dispatch_closed. Import Dispatch. Local Open Scope bool_scope. Local Open Scope Z_scope.
Import ParserModel Framing2. Local Open Scope Z_scope.
Theorem C02_dispatch_closed :
  forall c len d,
  0 <= len <= Z.of_nat (length (mem c)) ->
  hdrs (trace (fst (scpi_parse c len d))) = rev (map mkH (spec_units (S (Z.to_nat len)) (mem c) (cmds c) 0 len None)) ++ hdrs (trace c).
Proof. exact (@Dispatch.dispatch_closed). Qed.
End T_dispatch_closed.
Definition C02_dispatch_closed := @T_dispatch_closed.C02_dispatch_closed.

Module T_compose_spec. Import Dispatch. Local Open Scope bool_scope. Local Open Scope Z_scope.
Import ParserModel Framing2. Local Open Scope Z_scope.
Theorem C02_compose_spec :
  forall m pptr plen cptr clen,
  0 <= pptr -> 0 <= plen -> pptr + plen <= cptr -> 0 < clen -> cptr + clen <= Z.of_nat (length m) ->
  let '(m1, hp, hl) := compose m (Some (pptr, plen)) cptr clen in
  slice m1 hp hl = effective (Some (slice m pptr plen)) (slice m cptr clen) /\
  length m1 = length m /\ skipn (Z.to_nat (cptr + clen)) m1 = skipn (Z.to_nat (cptr + clen)) m /\
  pptr <= hp /\ hp + hl = cptr + clen /\ 0 < hl.
Proof. exact (@Dispatch.compose_spec). Qed.
End T_compose_spec.
Definition C02_compose_spec := @T_compose_spec.C02_compose_spec.

Module T_first_match_spec. Import Dispatch. Local Open Scope bool_scope. Local Open Scope Z_scope.
Import ParserModel Framing2. Local Open Scope Z_scope.
Theorem C02_first_match_spec :
  forall table hdr,
  match first_match table hdr with
  | Some e => exists l1 l2, table = l1 ++ e :: l2 /\ accepts e hdr = true /\ forallb (fun e' => negb (accepts e' hdr)) l1 = true
  | None => forallb (fun e' => negb (accepts e' hdr)) table = true
  end.
Proof. exact (@Dispatch.first_match_spec). Qed.
End T_first_match_spec.
Definition C02_first_match_spec := @T_first_match_spec.C02_first_match_spec.

Module T_undefined_header. Import Undefined. Local Open Scope bool_scope. Local Open Scope Z_scope.
Import ParserModel Framing2 Dispatch. Local Open Scope Z_scope.
Theorem C02_undefined_header :
  forall c off len prev result d,
  let u := LexModel.detect_unit (slice (mem c) off len) in let h := LexModel.u_hdr u in
  LexModel.ty h <> LexModel.T_INVALID -> 0 < LexModel.len h ->
  let '(m1, hp, hl) := compose (mem c) prev (off + LexModel.ptr h) (LexModel.len h) in
  first_match (cmds c) (slice m1 hp hl) = None ->
  loop_body c off len prev result d =
    (error_push (upd_mem c m1) (-113) (Some (dropm m1 off, trim_crlf m1 off (Z.to_nat (LexModel.u_consumed u)))),
     Some (hp, hl), false, LexModel.u_consumed u).
Proof. exact (@Undefined.undefined_header). Qed.
End T_undefined_header.
Definition C02_undefined_header := @T_undefined_header.C02_undefined_header.

Module T_undefined_header_quiet. Import Undefined. Local Open Scope bool_scope. Local Open Scope Z_scope.
Import ParserModel Framing2 Dispatch. Local Open Scope Z_scope.
Theorem C02_undefined_header_quiet :
  forall c m1 info,
  K (upd_mem c m1) (error_push (upd_mem c m1) (-113) info).
Proof. exact (@Undefined.undefined_header_quiet). Qed.
End T_undefined_header_quiet.
Definition C02_undefined_header_quiet := @T_undefined_header_quiet.C02_undefined_header_quiet.

Module T_undefined_text_as_written. Import Undefined. Local Open Scope bool_scope. Local Open Scope Z_scope.
Import ParserModel Framing2 Dispatch. Local Open Scope Z_scope.
Theorem C02_undefined_text_as_written :
  forall c off r,
  let info := Some (dropm (mem c) off, trim_crlf (mem c) off r) in
  Z.of_nat (length (queue c)) <> qcap c -> trim_crlf (mem c) off r <> 0 ->
  queue (error_push c (-113) info) = queue c ++ [(-113, Some (cstr (Z.to_nat (trim_crlf (mem c) off r)) (dropm (mem c) off)))].
Proof. exact (@Undefined.undefined_text_as_written). Qed.
End T_undefined_text_as_written.
Definition C02_undefined_text_as_written := @T_undefined_text_as_written.C02_undefined_text_as_written.

Module T_units_accounted. Import Undef113. Local Open Scope bool_scope. Local Open Scope Z_scope.
Import ParserModel Framing2 Dispatch Undefined. Local Open Scope Z_scope.
Theorem C02_units_accounted :
  forall c len d,
  0 <= len <= Z.of_nat (length (mem c)) -> table_no113 c ->
  let c' := fst (scpi_parse c len d) in
  (n113 (trace c') + length (hdrs (trace c')) = n113 (trace c) + length (hdrs (trace c)) + nvalid (S (Z.to_nat len)) (slice (mem c) 0 len))%nat.
Proof. exact (@Undef113.units_accounted). Qed.
End T_units_accounted.
Definition C02_units_accounted := @T_units_accounted.C02_units_accounted.

Module T_undefined_count. Import Undef113. Local Open Scope bool_scope. Local Open Scope Z_scope.
Import ParserModel Framing2 Dispatch Undefined. Local Open Scope Z_scope.
Theorem C02_undefined_count :
  forall c len d,
  0 <= len <= Z.of_nat (length (mem c)) -> table_no113 c ->
  let c' := fst (scpi_parse c len d) in
  (n113 (trace c') + length (spec_units (S (Z.to_nat len)) (mem c) (cmds c) 0 len None) = n113 (trace c) + nvalid (S (Z.to_nat len)) (slice (mem c) 0 len))%nat.
Proof. exact (@Undef113.undefined_count). Qed.
End T_undefined_count.
Definition C02_undefined_count := @T_undefined_count.C02_undefined_count.

Module T_message_reads_array. Import EndToEnd. Local Open Scope bool_scope. Local Open Scope Z_scope.
Import LexModel LexBounds DecSpec MoreSpecs NumList SimpleSpecs ListWs HdrSpec UnitSpec UnitFull ParserModel ParamList ArrayRoundTrip. Local Open Scope Z_scope.
Local Open Scope Z_scope.
Theorem C02_message_reads_array :
  forall c d lead m1 ms (q:bool) ws1 items hdr l pat tag cap m,
  Mnem m1 -> Forall Mnem ms -> ws1 <> [] -> all isws ws1 -> Forall uint_item items -> items <> [] -> first_tight items ->
  hdr = header_text lead m1 ms ++ (if q then [63%N] else []) ->
  l = hdr ++ ws1 ++ list_text items ++ [10%N] ->
  mem c = l -> find_cmd c hdr = Some (pat, tag, [PARR 14 cap m]) -> (length items <= Z.to_nat cap)%nat ->
  exists c', scpi_parse c (Z.of_nat (length l)) d = (c', true) /\
    trace c' = EvP 14 true (map value_of items) :: EvH tag hdr :: trace c /\ queue c' = queue c /\ mem c' = mem c.
Proof. exact (@EndToEnd.message_reads_array). Qed.
End T_message_reads_array.
Definition C02_message_reads_array := @T_message_reads_array.C02_message_reads_array.

