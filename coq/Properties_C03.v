(* C03 -- property theorems only: every statement is closed by `exact` on a lemma proved elsewhere.
   Statements are pinned by coq/statements/C03.json; ./check compares. *)
From Coq Require Import Bool List NArith ZArith Lia.
From M Require MatchLang.
From M Require MatchAbs.
From M Require MatchConc.
From M Require MatchAbs.
From M Require MatchConc.
From M Require MatchModel.
Import ListNotations.

Module T_match_language. Import MatchLang. Local Open Scope bool_scope. Local Open Scope Z_scope.
Import MatchModel MatchConc MatchAbs. 
Theorem C03_match_language :
  forall it its q lead seg ss hq dflt,
  okname (nm it) -> wf its -> okseg seg -> Forall okseg ss -> seg <> [] -> get seg 0 <> 42%N ->
  (q = false -> hq = false) -> unambiguous it its ->
  matchCommand (render it its q) (hdr lead seg ss hq) None dflt =
  Res ((negb q || hq) && in_language it its (seg :: ss)) None.
Proof. exact (@MatchLang.match_language). Qed.
End T_match_language.
Definition C03_match_language := @T_match_language.C03_match_language.

Definition C03_greedy_accepts := @MatchAbs.greedy_accepts.

Module T_match_top. Import MatchConc. Local Open Scope bool_scope. Local Open Scope Z_scope.
Import MatchModel. Local Open Scope bool_scope. Local Open Scope Z_scope.
Theorem C03_match_top :
  forall it its q lead seg ss hq dflt,
  okname (nm it) -> wf its -> okseg seg -> Forall okseg ss -> seg <> [] -> get seg 0 <> 42%N ->
  (q = false -> hq = false) ->
  matchCommand (render it its q) (hdr lead seg ss hq) None dflt =
  Res ((negb q || hq) && greedy (it :: its) (seg :: ss)) None.
Proof. exact (@MatchConc.match_top). Qed.
End T_match_top.
Definition C03_match_top := @T_match_top.C03_match_top.

