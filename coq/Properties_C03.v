(* C03 -- property theorems only: every statement is closed by `exact` on a lemma proved elsewhere.
   Statements are pinned by coq/statements/C03.json; ./check compares. *)
From Coq Require Import Bool List NArith ZArith Lia.
From M Require MatchLang.
From M Require MatchAbs.
From M Require MatchConc.
From M Require MatchNumsSpec.
From M Require MatchNums.
From M Require Tie.
From M Require MatchAbs.
From M Require MatchConc.
From M Require MatchModel.
From M Require MatchNums.
Import ListNotations.

Module T_match_language. Import MatchLang. Local Open Scope bool_scope. Local Open Scope Z_scope.
Import MatchModel MatchConc MatchAbs. 
Theorem C03_match_language :
  forall it its q lead seg ss hq dflt,
  okname (nm it) -> wf its -> okseg seg -> Forall okseg ss -> seg <> [] -> get seg 0 <> 42%N ->
  (q = false -> hq = false) -> unambiguous it its ->
  matchCommand (render it its q) (hdr lead seg ss hq) None dflt =
  Res ((negb q || hq) && in_language it its (seg :: ss)) None.
Proof. exact (@MatchLang.match_language). Qed.
End T_match_language.
Definition C03_match_language := @T_match_language.C03_match_language.

Definition C03_greedy_accepts := @MatchAbs.greedy_accepts.

Module T_match_top. Import MatchConc. Local Open Scope bool_scope. Local Open Scope Z_scope.
Import MatchModel. Local Open Scope bool_scope. Local Open Scope Z_scope.
Theorem C03_match_top :
  forall it its q lead seg ss hq dflt,
  okname (nm it) -> wf its -> okseg seg -> Forall okseg ss -> seg <> [] -> get seg 0 <> 42%N ->
  (q = false -> hq = false) ->
  matchCommand (render it its q) (hdr lead seg ss hq) None dflt =
  Res ((negb q || hq) && greedy (it :: its) (seg :: ss)) None.
Proof. exact (@MatchConc.match_top). Qed.
End T_match_top.
Definition C03_match_top := @T_match_top.C03_match_top.

Module T_seg_ok_spec. Import MatchNumsSpec. Local Open Scope bool_scope. Local Open Scope Z_scope.
Import MatchModel MatchConc MatchNums. Local Open Scope bool_scope. Local Open Scope Z_scope.
Local Open Scope Z_scope.
Theorem C03_seg_ok_spec :
  forall it s,
  okname (nm it) ->
  seg_ok it s = form_ok it (zlen (nm it)) s || form_ok it (shortlen it) s.
Proof. exact (@MatchNumsSpec.seg_ok_spec). Qed.
End T_seg_ok_spec.
Definition C03_seg_ok_spec := @T_seg_ok_spec.C03_seg_ok_spec.

Module T_sval_spec. Import MatchNumsSpec. Local Open Scope bool_scope. Local Open Scope Z_scope.
Import MatchModel MatchConc MatchNums. Local Open Scope bool_scope. Local Open Scope Z_scope.
Local Open Scope Z_scope.
Theorem C03_sval_spec :
  forall it s,
  okname (nm it) -> num it = true -> okseg2 s ->
  sval it s = if fo it (zlen (nm it)) s then suffix_at (zlen (nm it)) s
              else if fo it (shortlen it) s then suffix_at (shortlen it) s else None.
Proof. exact (@MatchNumsSpec.sval_spec). Qed.
End T_sval_spec.
Definition C03_sval_spec := @T_sval_spec.C03_sval_spec.

Module T_match_top_nums. Import MatchNums. Local Open Scope bool_scope. Local Open Scope Z_scope.
Import MatchModel MatchConc. Local Open Scope bool_scope. Local Open Scope Z_scope.
Local Open Scope Z_scope.
Theorem C03_match_top_nums :
  forall it its q lead seg ss hq dflt nums,
  okname (nm it) -> wf its -> okseg2 seg -> Forall okseg2 ss -> seg <> [] ->
  (q = false -> hq = false) ->
  spec_ok (matchCommand (render it its q) (hdr lead seg ss hq) nums dflt)
          ((negb q || hq) && greedy (it :: its) (seg :: ss))
          (greedyN (it :: its) (seg :: ss) nums 0 dflt).
Proof. exact (@MatchNums.match_top_nums). Qed.
End T_match_top_nums.
Definition C03_match_top_nums := @T_match_top_nums.C03_match_top_nums.

Module T_accepts_reads. Import MatchNumsSpec. Local Open Scope bool_scope. Local Open Scope Z_scope.
Import MatchModel MatchConc MatchNums. Local Open Scope bool_scope. Local Open Scope Z_scope.
Local Open Scope Z_scope.
Theorem C03_accepts_reads :
  forall its,
  forall ss, MatchAbs.accepts bytes (map MatchLang.abs_item its) ss = true <-> exists ch, reads its ss ch = true.
Proof. exact (@MatchNumsSpec.accepts_reads). Qed.
End T_accepts_reads.
Definition C03_accepts_reads := @T_accepts_reads.C03_accepts_reads.

Module T_greedyN_reads. Import MatchNumsSpec. Local Open Scope bool_scope. Local Open Scope Z_scope.
Import MatchModel MatchConc MatchNums. Local Open Scope bool_scope. Local Open Scope Z_scope.
Local Open Scope Z_scope.
Theorem C03_greedyN_reads :
  forall its,
  forall ss ch nums nidx dflt,
  MatchAbs.unamb bytes (map MatchLang.abs_item its) -> reads its ss ch = true ->
  greedyN its ss nums nidx dflt = store (suffixes its ss ch) nums nidx dflt.
Proof. exact (@MatchNumsSpec.greedyN_reads). Qed.
End T_greedyN_reads.
Definition C03_greedyN_reads := @T_greedyN_reads.C03_greedyN_reads.

Module T_match_numbers. Import MatchNumsSpec. Local Open Scope bool_scope. Local Open Scope Z_scope.
Import MatchModel MatchConc MatchNums. Local Open Scope bool_scope. Local Open Scope Z_scope.
Local Open Scope Z_scope.
Theorem C03_match_numbers :
  forall it its q lead seg ss hq dflt a ch,
  okname (nm it) -> wf its -> okseg2 seg -> Forall okseg2 ss -> seg <> [] ->
  (q = false -> hq = false) -> MatchLang.unambiguous it its ->
  (negb q || hq) = true -> reads (it :: its) (seg :: ss) ch = true ->
  matchCommand (render it its q) (hdr lead seg ss hq) (Some a) dflt =
  Res true (store (suffixes (it :: its) (seg :: ss) ch) (Some a) 0 dflt).
Proof. exact (@MatchNumsSpec.match_numbers). Qed.
End T_match_numbers.
Definition C03_match_numbers := @T_match_numbers.C03_match_numbers.

Module T_tie_ctype. Import Tie. Local Open Scope bool_scope. Local Open Scope Z_scope.
Local Open Scope Z_scope.
Theorem C03_tie_ctype :
  same_class MatchModel.islower Generated.gen_cc_islower = true /\ same_class MatchModel.isupper Generated.gen_cc_isupper = true /\
  same_class MatchModel.isdigit Generated.gen_cc_isdigit = true /\ same_class MatchModel.isspace Generated.gen_cc_isspace = true /\
  same_class ParserModel.isspace Generated.gen_cc_isspace = true /\
  map MatchModel.tolower bytes256 = Generated.gen_tolower.
Proof. exact (@Tie.tie_ctype). Qed.
End T_tie_ctype.
Definition C03_tie_ctype := @T_tie_ctype.C03_tie_ctype.

