(* C13: program headers, soundness direction: whatever lex_header reports as a compound or common header is
   :?mnemonic(:mnemonic)*\??  resp.  *mnemonic\??  and is followed by something that cannot continue it *)
From Coq Require Import Bool List NArith ZArith Lia.
From M Require Import LexModel LexBounds DecSpec MoreSpecs HdrSpec.
Import ListNotations.
Local Open Scope Z_scope.

Lemma skip_while_halts p l : starts p (skip_while p l) = false.
Proof. induction l as [|c r IH]; [reflexivity|]. cbn [skip_while]. destruct (p c) eqn:E; [exact IH|]. cbn [starts]. exact E. Qed.

Lemma skip_mnemonic_inv l l' res : skip_mnemonic l = (l', res) ->
  (res = 0 /\ l' = l) \/
  (exists m, Mnem m /\ l = m ++ l' /\ mstop l' /\ (l' = [] -> res = - Z.of_nat (length m)) /\ (l' <> [] -> res = Z.of_nat (length m))).
Proof.
  unfold skip_mnemonic. destruct l as [|c r]; cbn [starts tl].
  - intros H. injection H as <- <-. left. split; reflexivity.
  - destruct (isalpha c) eqn:Hc.
    + intros H. injection H as <- <-. right.
      destruct (skip_while_split ismnem r) as (pre & Hr & Hpre).
      exists (c :: pre). split; [exists c, pre; auto|]. split; [cbn [app]; now rewrite <- Hr|].
      split; [apply skip_while_halts|].
      assert (Hu : used (c :: r) (skip_while ismnem r) = Z.of_nat (length (c :: pre))).
      { rewrite Hr at 1. change (c :: pre ++ skip_while ismnem r) with ((c :: pre) ++ skip_while ismnem r). apply used_app. }
      rewrite Hu. split; intros E; [rewrite E; reflexivity|destruct (skip_while ismnem r); [congruence|reflexivity]].
    + intros H. injection H as <- <-. left. unfold used. split; [|reflexivity].
      replace (Z.of_nat (length (c :: r)) - Z.of_nat (length (c :: r))) with 0 by lia. reflexivity.
Qed.

Lemma compound_loop_inv : forall fuel l l2, compound_loop fuel l = (l2, SK_OK) -> (length l <= fuel)%nat -> mstop l ->
  exists ms, Forall Mnem ms /\ l = tail_text ms ++ l2 /\ hstop l2.
Proof.
  induction fuel as [|f IH]; intros l l2 H Hlen Hst.
  - cbn [compound_loop] in H. injection H as <-. destruct l; [|cbn [length] in Hlen; lia]. exists []. repeat split; constructor.
  - cbn [compound_loop] in H. destruct (starts (ischr 58%N) l) eqn:Hc.
    + destruct l as [|c t]; [discriminate|]. cbn [starts] in Hc. unfold ischr in Hc. apply N.eqb_eq in Hc. subst c. cbn [tl] in H.
      destruct (skip_mnemonic t) as [l' res] eqn:Es.
      destruct (skip_mnemonic_inv t l' res Es) as [[-> ->]|(m & Hm & Et & Hst' & Hneg & Hpos)].
      * cbn in H. discriminate.
      * pose proof (mnem_len_pos m Hm) as Hl.
        destruct l' as [|x xs].
        -- rewrite (Hneg eq_refl) in H. destruct (Z.leb_spec (- Z.of_nat (length m)) (-1)); [|lia]. injection H as <-.
           exists [m]. split; [repeat constructor; exact Hm|]. split; [cbn [tail_text app]; now rewrite Et, !app_nil_r|]. split; reflexivity.
        -- rewrite (Hpos ltac:(discriminate)) in H. destruct (Z.leb_spec (Z.of_nat (length m)) (-1)); [lia|].
           destruct (Z.eqb_spec (Z.of_nat (length m)) 0); [lia|].
           destruct (IH (x :: xs) l2 H) as (ms & Hms & El & Hh); [|exact Hst'|].
           { rewrite Et in Hlen. cbn [length] in Hlen. rewrite app_length in Hlen. cbn [length] in *. lia. }
           exists (m :: ms). split; [constructor; assumption|]. split; [|exact Hh].
           cbn [tail_text app]. rewrite Et, El, <- app_assoc. reflexivity.
    + injection H as <-. exists []. split; [constructor|]. split; [reflexivity|]. split; assumption.
Qed.

Lemma skip_compound_inv l l2 : skip_compound_header l = (l2, SK_OK) ->
  exists lead m1 ms, Mnem m1 /\ Forall Mnem ms /\ l = header_text lead m1 ms ++ l2 /\ hstop l2.
Proof.
  unfold skip_compound_header. intros H.
  set (lead := starts (ischr 58%N) l) in *.
  assert (El : l = (if lead then [58%N] else []) ++ skip_opt (ischr 58%N) l).
  { unfold lead. destruct l as [|c r]; [reflexivity|]. cbn [starts skip_opt]. destruct (ischr 58%N c) eqn:E; [|reflexivity].
    unfold ischr in E. apply N.eqb_eq in E. now subst c. }
  destruct (skip_mnemonic (skip_opt (ischr 58%N) l)) as [l1 res] eqn:Es.
  destruct (skip_mnemonic_inv _ l1 res Es) as [[-> ->]|(m & Hm & Et & Hst & Hneg & Hpos)].
  - cbn in H. destruct lead; discriminate.
  - pose proof (mnem_len_pos m Hm) as Hl. destruct l1 as [|x xs].
    + rewrite (Hneg eq_refl) in H. destruct (Z.leb_spec 1 (- Z.of_nat (length m))); [lia|].
      destruct (Z.leb_spec (- Z.of_nat (length m)) (-1)); [|lia]. injection H as <-.
      exists lead, m, []. split; [exact Hm|]. split; [constructor|]. split; [|split; reflexivity].
      unfold header_text. cbn [tail_text]. rewrite El at 1. rewrite Et, !app_nil_r. reflexivity.
    + rewrite (Hpos ltac:(discriminate)) in H. destruct (Z.leb_spec 1 (Z.of_nat (length m))); [|lia].
      destruct (compound_loop_inv (length (x :: xs)) (x :: xs) l2 H (le_n (length (x :: xs))) Hst) as (ms & Hms & E2 & Hh).
      exists lead, m, ms. split; [exact Hm|]. split; [exact Hms|]. split; [|exact Hh].
      unfold header_text. rewrite El at 1. rewrite Et, E2, <- !app_assoc. reflexivity.
Qed.

Lemma used_app_l (t rest:bytes) : used (t ++ rest) rest = Z.of_nat (length t).
Proof. apply used_app. Qed.

Theorem compound_sound l : let r := lex_header l in
  forall q:bool, ty (tok r) = (if q then T_COMPOUND_QUERY_HDR else T_COMPOUND_HDR) ->
  exists lead m1 ms rest, Mnem m1 /\ Forall Mnem ms /\
    l = header_text lead m1 ms ++ (if q then 63%N :: rest else rest) /\
    (q = false -> hstop rest /\ starts (ischr 63%N) rest = false) /\
    ptr (tok r) = 0 /\ len (tok r) = Z.of_nat (length (header_text lead m1 ms)) + (if q then 1 else 0) /\ disp r = len (tok r).
Proof.
  cbn zeta. intros q. unfold lex_header.
  destruct (skip_common_header l) as [l1 r1] eqn:E1. destruct r1.
  - (* not a common header *)
    destruct (skip_compound_header l) as [l2 r2] eqn:E2. destruct r2.
    + cbn [tok ty mk]. destruct q; discriminate.
    + destruct (skip_compound_inv l l2 E2) as (lead & m1 & ms & Hm1 & Hms & El & Hh).
      destruct (starts (ischr 63%N) l2) eqn:Hq; cbn [tok ty mk ptr len disp]; intros Hty; destruct q; try discriminate.
      * destruct l2 as [|c rest]; [discriminate|]. cbn [starts] in Hq. unfold ischr in Hq. apply N.eqb_eq in Hq. subst c. cbn [tl].
        exists lead, m1, ms, rest. split; [exact Hm1|]. split; [exact Hms|]. split; [exact El|]. split; [discriminate|].
        split; [reflexivity|]. rewrite El.
        unfold used. rewrite app_length. cbn [length]. unfold bytes, byte in *. split; lia.
      * exists lead, m1, ms, l2. split; [exact Hm1|]. split; [exact Hms|]. split; [exact El|]. split; [intros _; split; assumption|].
        split; [reflexivity|]. rewrite El. unfold used. rewrite app_length. unfold bytes, byte in *. split; lia.
    + cbn [tok ty mk]. destruct q; discriminate.
  - destruct (starts (ischr 63%N) l1); cbn [tok ty mk]; destruct q; discriminate.
  - cbn [tok ty mk]. destruct q; discriminate.
Qed.
Print Assumptions compound_sound.

Theorem common_sound l : let r := lex_header l in
  forall q:bool, ty (tok r) = (if q then T_COMMON_QUERY_HDR else T_COMMON_HDR) ->
  exists m rest, Mnem m /\
    l = 42%N :: m ++ (if q then 63%N :: rest else rest) /\
    (q = false -> mstop rest /\ starts (ischr 63%N) rest = false) /\
    ptr (tok r) = 0 /\ len (tok r) = 1 + Z.of_nat (length m) + (if q then 1 else 0) /\ disp r = len (tok r).
Proof.
  cbn zeta. intros q. unfold lex_header.
  destruct (skip_common_header l) as [l1 r1] eqn:E1. destruct r1.
  - destruct (skip_compound_header l) as [l2 r2]. destruct r2; [|destruct (starts (ischr 63%N) l2)|]; cbn [tok ty mk]; destruct q; discriminate.
  - unfold skip_common_header in E1. destruct (starts (ischr 42%N) l) eqn:Hs; [|discriminate].
    destruct l as [|c t]; [discriminate|]. cbn [starts] in Hs. unfold ischr in Hs. apply N.eqb_eq in Hs. subst c. cbn [tl] in E1.
    destruct (skip_mnemonic t) as [l' res] eqn:Es.
    destruct (skip_mnemonic_inv t l' res Es) as [[-> ->]|(m & Hm & Et & Hst & Hneg & Hpos)].
    + cbn [Z.eqb andb] in E1. destruct (iseos t); cbn in E1; discriminate.
    + assert (l1 = l') by (destruct ((res =? 0) && iseos l'); [discriminate|]; destruct (res <=? -1); [now injection E1|]; destruct (1 <=? res); [now injection E1|discriminate]).
      subst l1. clear E1.
      destruct (starts (ischr 63%N) l') eqn:Hq; cbn [tok ty mk ptr len disp]; intros Hty; destruct q; try discriminate.
      * destruct l' as [|c rest]; [discriminate|]. cbn [starts] in Hq. unfold ischr in Hq. apply N.eqb_eq in Hq. subst c. cbn [tl].
        exists m, rest. split; [exact Hm|]. split; [now rewrite Et|]. split; [discriminate|]. split; [reflexivity|].
        rewrite Et. unfold used. cbn [length]. rewrite app_length. cbn [length]. unfold bytes, byte in *. split; lia.
      * exists m, l'. split; [exact Hm|]. split; [now rewrite Et|]. split; [intros _; split; assumption|]. split; [reflexivity|].
        rewrite Et. unfold used. cbn [length]. rewrite app_length. unfold bytes, byte in *. split; lia.
  - cbn [tok ty mk]. destruct q; discriminate.
Qed.
Print Assumptions common_sound.
