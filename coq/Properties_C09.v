(* C09 -- property theorems only: every statement is closed by `exact` on a lemma proved elsewhere.
   Statements are pinned by coq/statements/C09.json; ./check compares. *)
From Coq Require Import Bool List NArith ZArith Lia.
From M Require Isolation.
From M Require MultiMsg.
From M Require EmptyMsg.
From M Require Chunk.
From M Require Framing2.
From M Require Fuel.
From M Require Isolation.
From M Require ParserModel.
Import ListNotations.

Module T_message_isolated. Import Isolation. Local Open Scope bool_scope. Local Open Scope Z_scope.
Import ParserModel Framing2. Local Open Scope Z_scope.
Theorem C09_message_isolated :
  forall c c' len d,
  cmds c = cmds c' -> mem c = mem c' -> cap c = cap c' -> queue c = queue c' -> qcap c = qcap c' -> qma c = qma c' -> trace c = trace c' ->
  let '(c1, res) := scpi_parse c len d in let '(c1', res') := scpi_parse c' len d in E c1 c1' /\ res = res'.
Proof. exact (@Isolation.message_isolated). Qed.
End T_message_isolated.
Definition C09_message_isolated := @T_message_isolated.C09_message_isolated.

Module T_input_isolated. Import Isolation. Local Open Scope bool_scope. Local Open Scope Z_scope.
Import ParserModel Framing2. Local Open Scope Z_scope.
Theorem C09_input_isolated :
  forall c c' data d,
  E c c' -> E (scpi_input c data d) (scpi_input c' data d).
Proof. exact (@Isolation.input_isolated). Qed.
End T_input_isolated.
Definition C09_input_isolated := @T_input_isolated.C09_input_isolated.

Module T_inputs_isolated. Import Isolation. Local Open Scope bool_scope. Local Open Scope Z_scope.
Import ParserModel Framing2. Local Open Scope Z_scope.
Theorem C09_inputs_isolated :
  forall d chunks,
  forall c c', E c c' ->
  E (fold_left (fun x data => scpi_input x data d) chunks c) (fold_left (fun x data => scpi_input x data d) chunks c').
Proof. exact (@Isolation.inputs_isolated). Qed.
End T_inputs_isolated.
Definition C09_inputs_isolated := @T_inputs_isolated.C09_inputs_isolated.

Module T_parse_is_local_any. Import MultiMsg. Local Open Scope bool_scope. Local Open Scope Z_scope.
Import ParserModel Chunk Fuel. Local Open Scope Z_scope.
Theorem C09_parse_is_local_any :
  forall d c a0 rest y,
  mem c = a0 ++ 10%N :: rest -> no_nl a0 ->
  scpi_parse (upd_mem c (mem c ++ y)) (Z.of_nat (length a0) + 1) d =
  (let '(c1, r) := scpi_parse c (Z.of_nat (length a0) + 1) d in (upd_mem c1 (mem c1 ++ y), r)).
Proof. exact (@MultiMsg.parse_is_local_any). Qed.
End T_parse_is_local_any.
Definition C09_parse_is_local_any := @T_parse_is_local_any.C09_parse_is_local_any.

Module T_empty_message_silent. Import EmptyMsg. Local Open Scope bool_scope. Local Open Scope Z_scope.
Import ParserModel Chunk Isolation. Local Open Scope Z_scope.
Theorem C09_empty_message_silent :
  forall c t d,
  mem c = [] -> (t = 10%N \/ t = 13%N) -> 2 <= cap c -> first_output c = true ->
  E c (fst (input_core c [t] d)) /\ snd (input_core c [t] d) = true.
Proof. exact (@EmptyMsg.empty_message_silent). Qed.
End T_empty_message_silent.
Definition C09_empty_message_silent := @T_empty_message_silent.C09_empty_message_silent.

Module T_parse_is_local_t. Import MultiMsg. Local Open Scope bool_scope. Local Open Scope Z_scope.
Import ParserModel Chunk Fuel. Local Open Scope Z_scope.
Theorem C09_parse_is_local_t :
  forall d tm c a0 rest y,
  tm = 10%N \/ tm = 13%N -> mem c = a0 ++ tm :: rest -> no_nl a0 ->
  scpi_parse (upd_mem c (mem c ++ y)) (Z.of_nat (length a0) + 1) d =
  (let '(c1, r) := scpi_parse c (Z.of_nat (length a0) + 1) d in (upd_mem c1 (mem c1 ++ y), r)).
Proof. exact (@MultiMsg.parse_is_local_t). Qed.
End T_parse_is_local_t.
Definition C09_parse_is_local_t := @T_parse_is_local_t.C09_parse_is_local_t.

