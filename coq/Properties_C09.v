(* C09 -- property theorems only: every statement is closed by `exact` on a lemma proved elsewhere.
   Statements are pinned by coq/statements/C09.json; ./check compares. *)
From Coq Require Import Bool List NArith ZArith Lia.
From M Require Isolation.
From M Require Framing2.
From M Require ParserModel.
Import ListNotations.

Module T_message_isolated. Import Isolation. Local Open Scope bool_scope. Local Open Scope Z_scope.
Import ParserModel Framing2. Local Open Scope Z_scope.
Theorem C09_message_isolated :
  forall c c' len d,
  cmds c = cmds c' -> mem c = mem c' -> cap c = cap c' -> queue c = queue c' -> qcap c = qcap c' -> qma c = qma c' -> trace c = trace c' ->
  let '(c1, res) := scpi_parse c len d in let '(c1', res') := scpi_parse c' len d in E c1 c1' /\ res = res'.
Proof. exact (@Isolation.message_isolated). Qed.
End T_message_isolated.
Definition C09_message_isolated := @T_message_isolated.C09_message_isolated.

Module T_input_isolated. Import Isolation. Local Open Scope bool_scope. Local Open Scope Z_scope.
Import ParserModel Framing2. Local Open Scope Z_scope.
Theorem C09_input_isolated :
  forall c c' data d,
  E c c' -> E (scpi_input c data d) (scpi_input c' data d).
Proof. exact (@Isolation.input_isolated). Qed.
End T_input_isolated.
Definition C09_input_isolated := @T_input_isolated.C09_input_isolated.

Module T_inputs_isolated. Import Isolation. Local Open Scope bool_scope. Local Open Scope Z_scope.
Import ParserModel Framing2. Local Open Scope Z_scope.
Theorem C09_inputs_isolated :
  forall d chunks,
  forall c c', E c c' ->
  E (fold_left (fun x data => scpi_input x data d) chunks c) (fold_left (fun x data => scpi_input x data d) chunks c').
Proof. exact (@Isolation.inputs_isolated). Qed.
End T_inputs_isolated.
Definition C09_inputs_isolated := @T_inputs_isolated.C09_inputs_isolated.

