(* C11 / C12, the command layer over the register model (executable part; theorems in CmdLayer.v): every IEEE 488.2 /
   SCPI status command of ieee488.c and minimal.c as the register operations its C body performs, in order, plus the number
   it reports.  Bodies modelled (name = C function): SCPI_CoreCls, SCPI_CoreEse(Q), SCPI_CoreEsrQ, SCPI_CoreOpc,
   SCPI_CoreSre(Q), SCPI_CoreStbQ, SCPI_StatusOperation{Event,Condition,Enable}Q, SCPI_StatusOperationEnable, the same for
   Questionable, SCPI_StatusPreset (which, in this code base, writes 0 to the questionable event register only),
   SCPI_SystemErrorNextQ (its pop), SCPI_SystemErrorCountQ.  The parameter is the int32 already decoded. *)
From Coq Require Import Bool List NArith ZArith.
From M Require Import RegModel.
From M Require FmtModel.
Import ListNotations.
Local Open Scope N_scope.

Inductive cmd :=
| KCls | KEse (v:N) | KEseQ | KEsrQ | KOpc | KSre (v:N) | KSreQ | KStbQ
| KOperEvQ | KOperCondQ | KOperEnQ | KOperEn (v:N)
| KQuesEvQ | KQuesCondQ | KQuesEnQ | KQuesEn (v:N)
| KPreset | KErrNextQ | KErrCountQ.

(* the effect of the command body: new state and the error / SRQ callbacks it issues *)
Definition cmd_do (s:st) (c:cmd) : st * list ev :=
  match c with
  | KCls => cls s
  | KEse v => wr s ESE v | KSre v => wr s SRE v | KOperEn v => wr s OPERE v | KQuesEn v => wr s QUESE v
  | KEsrQ => wr s ESR 0 | KOperEvQ => wr s OPER 0 | KQuesEvQ => wr s QUES 0
  | KOpc => wr s ESR (N.lor (rg s ESR) 1)
  | KPreset => wr s QUES 0
  | KErrNextQ => pop s
  | KEseQ | KSreQ | KStbQ | KOperCondQ | KOperEnQ | KQuesCondQ | KQuesEnQ | KErrCountQ => (s, [])
  end.
(* the number the command reports (queries), read before the body's writes; SYST:ERR? reports a text, not modelled here *)
Definition cmd_resp (s:st) (c:cmd) : option N :=
  match c with
  | KEseQ => Some (rg s ESE) | KEsrQ => Some (rg s ESR) | KSreQ => Some (rg s SRE) | KStbQ => Some (rg s STB)
  | KOperEvQ => Some (rg s OPER) | KOperCondQ => Some (rg s OPERC) | KOperEnQ => Some (rg s OPERE)
  | KQuesEvQ => Some (rg s QUES) | KQuesCondQ => Some (rg s QUESC) | KQuesEnQ => Some (rg s QUESE)
  | KErrCountQ => Some (Z.to_N (qlen s))
  | _ => None
  end.
(* SCPI_RegSetBits / SCPI_RegClearBits on any register *)
Definition reg_bits (s:st) (r:reg) (setb:bool) (b:N) : st * list ev :=
  wr s r (if setb then N.lor (rg s r) b else N.ldiff (rg s r) b).
(* the response message of a numeric query: SCPI_ResultInt32 formats the register with the signed decimal formatter into its
   33-byte stack buffer (FmtModel.int2str, the subject of int2str_exact), the message ends in CR LF *)
Definition cmd_text (s:st) (c:cmd) : option (list Z) :=
  match cmd_resp s c with
  | Some n => Some (fst (fst (FmtModel.int2str 32 (Z.of_N n) 33 10 true)) ++ [13; 10]%Z)
  | None => None
  end.
Definition run_cmd (s:st) (c:cmd) : st * option N := (fst (cmd_do s c), cmd_resp s c).
