(* C01.2: a unit scan consumes at least one byte of a non-empty input and never more than the input *)
From Coq Require Import Bool List NArith ZArith Lia.
From M Require Import LexModel LexBounds.
Import ListNotations.
Local Open Scope Z_scope.

Lemma drop_length n l : 0 <= n <= Z.of_nat (length l) -> Z.of_nat (length (drop n l)) = Z.of_nat (length l) - n.
Proof. intros H. unfold drop. rewrite skipn_length. lia. Qed.

Lemma ppd_disp l : 0 <= disp (parse_program_data l) <= Z.of_nat (length l).
Proof.
  unfold parse_program_data.
  pose proof (ws_inside l) as (Hw0 & _). set (w0 := lex_ws l) in *. set (l0 := drop (disp w0) l).
  assert (Hl0 : Z.of_nat (length l0) = Z.of_nat (length l) - disp w0) by (apply drop_length; exact Hw0).
  (* generic: finishing after a recogniser r on l0 *)
  assert (Fin : forall r, 0 <= disp r <= Z.of_nat (length l0) ->
            let w1 := lex_ws (drop (disp r) l0) in 0 <= disp w0 + disp r + disp w1 <= Z.of_nat (length l)).
  { intros r Hr w1. pose proof (ws_inside (drop (disp r) l0)) as (Hw1 & _). fold w1 in Hw1.
    rewrite drop_length in Hw1 by exact Hr. lia. }
  pose proof (nondecimal_inside l0) as (H1 & _). destruct (negb (ret (lex_nondecimal l0) =? 0)); [cbn [disp]; apply Fin; exact H1|].
  pose proof (chardata_inside l0) as (H2 & _). destruct (negb (ret (lex_chardata l0) =? 0)); [cbn [disp]; apply Fin; exact H2|].
  pose proof (decimal_inside l0) as (H3 & _ & Hlen3 & Hpl3).
  destruct (negb (ret (lex_decimal l0) =? 0)).
  - set (r3 := lex_decimal l0) in *. set (lw := drop (disp r3) l0).
    assert (Hlw : Z.of_nat (length lw) = Z.of_nat (length l0) - disp r3) by (apply drop_length; exact H3).
    pose proof (ws_inside lw) as (Hw & _). set (w := lex_ws lw) in *.
    pose proof (suffix_inside (drop (disp w) lw)) as (Hs & _).
    rewrite drop_length in Hs by exact Hw.
    destruct (0 <? ret (lex_suffix (drop (disp w) lw))) eqn:Esf.
    + (* merged token: its length is decimal len + ws + suffix ret; need the relation ret = disp for these recognisers *)
      cbn [disp tok len ptr ty].
      (* for lex_decimal and lex_suffix, ret = disp = len *)
      assert (Hd : len (tok r3) = disp r3) by (subst r3; unfold lex_decimal; destruct (skip_mantisa l0); reflexivity).
      assert (Hsf : ret (lex_suffix (drop (disp w) lw)) = disp (lex_suffix (drop (disp w) lw))).
      { unfold lex_suffix. match goal with |- context [if ?c then _ else _] => destruct c end; reflexivity. }
      set (n := len (tok r3) + disp w + ret (lex_suffix (drop (disp w) lw))).
      assert (Hn : 0 <= n <= Z.of_nat (length l0)) by (subst n; lia).
      pose proof (ws_inside (drop n l0)) as (Hw1 & _). rewrite drop_length in Hw1 by exact Hn. lia.
    + cbn [disp]. pose proof (ws_inside (drop (disp r3 + disp w) l0)) as (Hw1 & _).
      rewrite drop_length in Hw1 by lia. lia.
  - pose proof (string_inside l0) as (H4 & _). destruct (negb (ret (lex_string l0) =? 0)); [cbn [disp]; apply Fin; exact H4|].
    pose proof (block_inside l0) as (H5 & _). destruct (negb (ret (lex_block l0) =? 0)); [cbn [disp]; apply Fin; exact H5|].
    set (r5 := lex_block l0) in *.
    pose proof (expr_inside (drop (disp r5) l0)) as (H6 & _). rewrite drop_length in H6 by exact H5.
    cbn [disp]. set (r6 := lex_expr (drop (disp r5) l0)) in *.
    pose proof (ws_inside (drop (disp r5 + disp r6) l0)) as (Hw1 & _). rewrite drop_length in Hw1 by lia. lia.
Qed.

Lemma all_data_disp fuel l pos tlen count : 0 <= pos <= Z.of_nat (length l) ->
  pos <= ad_disp (all_data_loop fuel l pos tlen count) <= Z.of_nat (length l).
Proof.
  revert pos tlen count; induction fuel as [|f IH]; intros pos tlen count Hp; cbn [all_data_loop]; [cbn; lia|].
  pose proof (ppd_disp (drop pos l)) as Hr. rewrite drop_length in Hr by exact Hp.
  set (r := parse_program_data (drop pos l)) in *.
  destruct (ty (tok r)); try (cbn [ad_disp]; lia);
  (pose proof (chr_inside T_COMMA 44%N (drop (pos + disp r) l)) as (Hc & _); fold lex_comma in Hc;
   rewrite drop_length in Hc by lia;
   destruct (Z.eqb_spec (ret (lex_comma (drop (pos + disp r) l))) 0) as [E|E]; [cbn [ad_disp]; lia|];
   assert (Hd1 : disp (lex_comma (drop (pos + disp r) l)) = 1)
     by (revert E; unfold lex_comma, lex_chr; destruct (starts _ _); cbn; [reflexivity|congruence]);
   specialize (IH (pos + disp r + 1) (tlen + ret r + 1) (count + 1) ltac:(lia)); lia).
Qed.

Lemma detect_progress l : 0 <= u_consumed (detect_unit l) <= Z.of_nat (length l) /\
                          (l <> [] -> 1 <= u_consumed (detect_unit l)).
Proof.
  unfold detect_unit.
  pose proof (ws_inside l) as (Hw0 & _). set (w0 := disp (lex_ws l)) in *.
  pose proof (header_inside (drop w0 l)) as (Hh & _). rewrite drop_length in Hh by exact Hw0. set (h := lex_header (drop w0 l)) in *.
  set (p1 := w0 + disp h).
  pose proof (ws_inside (drop p1 l)) as (Hw1 & _). rewrite drop_length in Hw1 by (subst p1; lia). set (w1 := disp (lex_ws (drop p1 l))) in *.
  set (p2 := p1 + w1).
  assert (Hp2 : 0 <= p2 <= Z.of_nat (length l)) by (subst p2 p1; lia).
  set (dnp := if 0 <? w1 then _ else _).
  assert (Hp3 : p2 <= snd dnp <= Z.of_nat (length l)).
  { subst dnp. destruct (0 <? w1); cbn [snd]; [|lia].
    unfold parse_all_data. pose proof (all_data_disp (S (length (drop p2 l))) (drop p2 l) 0 0 0) as Ha.
    rewrite drop_length in Ha by exact Hp2. specialize (Ha ltac:(lia)). lia. }
  destruct dnp as [[data n] p3]; cbn [snd] in Hp3.
  pose proof (newline_inside (drop p3 l)) as (Hnl & _). rewrite drop_length in Hnl by lia.
  pose proof (chr_inside T_SEMICOLON 59%N (drop p3 l)) as (Hsc & _). fold lex_semicolon in Hsc. rewrite drop_length in Hsc by lia.
  assert (Rnl : ret (lex_newline (drop p3 l)) = disp (lex_newline (drop p3 l))).
  { unfold lex_newline. match goal with |- context [if ?c then _ else _] => destruct c end; reflexivity. }
  assert (Rsc : ret (lex_semicolon (drop p3 l)) = disp (lex_semicolon (drop p3 l))).
  { unfold lex_semicolon, lex_chr. destruct (starts _ _); reflexivity. }
  set (res := if ret (lex_newline (drop p3 l)) =? 0 then ret (lex_semicolon (drop p3 l)) else ret (lex_newline (drop p3 l))).
  assert (Hres : 0 <= res /\ p3 + res <= Z.of_nat (length l)).
  { subst res. destruct (ret (lex_newline (drop p3 l)) =? 0); lia. }
  set (p4 := p3 + res).
  destruct (iseos (drop p4 l)) eqn:Eeos.
  - (* reached the end: consumed = p4 = length l *)
    cbn [negb andb u_consumed].
    assert (Hend : p4 = Z.of_nat (length l)).
    { unfold iseos in Eeos. destruct (drop p4 l) eqn:Ed; [|discriminate].
      assert (Hlen : Z.of_nat (length (drop p4 l)) = Z.of_nat (length l) - p4) by (apply drop_length; subst p4; lia).
      rewrite Ed in Hlen. cbn in Hlen. lia. }
    split; [lia|]. intros Hne. destruct l; [congruence|]. cbn [length] in *. lia.
  - cbn [negb andb].
    assert (Hlt : p4 < Z.of_nat (length l)).
    { unfold iseos in Eeos. destruct (drop p4 l) eqn:Ed; [discriminate|].
      assert (Hlen : Z.of_nat (length (drop p4 l)) = Z.of_nat (length l) - p4) by (apply drop_length; subst p4; lia).
      rewrite Ed in Hlen. cbn [length] in Hlen. lia. }
    destruct (Z.eqb_spec res 0) as [E|E]; cbn [u_consumed]; subst p4; split; try lia; intros _; lia.
Qed.
Print Assumptions detect_progress.
