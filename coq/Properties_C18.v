(* C18 -- property theorems only: every statement is closed by `exact` on a lemma proved elsewhere.
   Statements are pinned by coq/statements/C18.json; ./check compares. *)
From Coq Require Import Bool List NArith ZArith Lia.
From M Require ErrSpec.
From M Require Tie.
From M Require FmtModel.
Import ListNotations.

Module T_quoted_part. Import ErrSpec. Local Open Scope bool_scope. Local Open Scope Z_scope.
Import FmtModel. Local Open Scope Z_scope.
Theorem C18_quoted_part :
  forall desc info,
  nonul desc -> (forall t, info = Some t -> nonul t) ->
  parts_loop 0 ((desc, Z.of_nat (length desc)) :: match info with Some t => [(t, Z.of_nat (length t))] | None => [] end) 255 [] =
  esc (take_fit 255 (whole desc info)).
Proof. exact (@ErrSpec.quoted_part). Qed.
End T_quoted_part.
Definition C18_quoted_part := @T_quoted_part.C18_quoted_part.

Module T_quoted_bounded. Import ErrSpec. Local Open Scope bool_scope. Local Open Scope Z_scope.
Import FmtModel. Local Open Scope Z_scope.
Theorem C18_quoted_bounded :
  forall desc info,
  Z.of_nat (length (esc (take_fit 255 (whole desc info)))) <= 255.
Proof. exact (@ErrSpec.quoted_bounded). Qed.
End T_quoted_bounded.
Definition C18_quoted_bounded := @T_quoted_bounded.C18_quoted_bounded.

Module T_quoted_prefix. Import ErrSpec. Local Open Scope bool_scope. Local Open Scope Z_scope.
Import FmtModel. Local Open Scope Z_scope.
Theorem C18_quoted_prefix :
  forall desc info,
  exists rest, whole desc info = take_fit 255 (whole desc info) ++ rest.
Proof. exact (@ErrSpec.quoted_prefix). Qed.
End T_quoted_prefix.
Definition C18_quoted_prefix := @T_quoted_prefix.C18_quoted_prefix.

Module T_quoted_maximal. Import ErrSpec. Local Open Scope bool_scope. Local Open Scope Z_scope.
Import FmtModel. Local Open Scope Z_scope.
Theorem C18_quoted_maximal :
  forall desc info c rest,
  whole desc info = take_fit 255 (whole desc info) ++ c :: rest ->
  255 < Z.of_nat (length (esc (take_fit 255 (whole desc info)))) + cost c.
Proof. exact (@ErrSpec.quoted_maximal). Qed.
End T_quoted_maximal.
Definition C18_quoted_maximal := @T_quoted_maximal.C18_quoted_maximal.

Module T_tie_desc_max. Import Tie. Local Open Scope bool_scope. Local Open Scope Z_scope.
Local Open Scope Z_scope.
Theorem C18_tie_desc_max :
  Generated.gen_desc_max = 255.
Proof. exact (@Tie.tie_desc_max). Qed.
End T_tie_desc_max.
Definition C18_tie_desc_max := @T_tie_desc_max.C18_tie_desc_max.

Module T_tie_config. Import Tie. Local Open Scope bool_scope. Local Open Scope Z_scope.
Local Open Scope Z_scope.
Theorem C18_tie_config :
  Generated.gen_config = [1; 1; 0; 1] /\ Generated.gen_desc_parts = 2.
Proof. exact (@Tie.tie_config). Qed.
End T_tie_config.
Definition C18_tie_config := @T_tie_config.C18_tie_config.

