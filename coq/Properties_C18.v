(* C18 -- property theorems only: every statement is closed by `exact` on a lemma proved elsewhere.
   Statements are pinned by coq/statements/C18.json; ./check compares. *)
From Coq Require Import Bool List NArith ZArith Lia.
From M Require ErrSpec.
From M Require Tie.
From M Require SystErr.
From M Require ErrSpec.
From M Require FifoProof.
From M Require FmtModel.
From M Require HeapProof.
From M Require QStatic.
Import ListNotations.

Module T_quoted_part. Import ErrSpec. Local Open Scope bool_scope. Local Open Scope Z_scope.
Import FmtModel. Local Open Scope Z_scope.
Theorem C18_quoted_part :
  forall desc info,
  nonul desc -> (forall t, info = Some t -> nonul t) ->
  parts_loop 0 ((desc, Z.of_nat (length desc)) :: match info with Some t => [(t, Z.of_nat (length t))] | None => [] end) 255 [] =
  esc (take_fit 255 (whole desc info)).
Proof. exact (@ErrSpec.quoted_part). Qed.
End T_quoted_part.
Definition C18_quoted_part := @T_quoted_part.C18_quoted_part.

Module T_quoted_bounded. Import ErrSpec. Local Open Scope bool_scope. Local Open Scope Z_scope.
Import FmtModel. Local Open Scope Z_scope.
Theorem C18_quoted_bounded :
  forall desc info,
  Z.of_nat (length (esc (take_fit 255 (whole desc info)))) <= 255.
Proof. exact (@ErrSpec.quoted_bounded). Qed.
End T_quoted_bounded.
Definition C18_quoted_bounded := @T_quoted_bounded.C18_quoted_bounded.

Module T_quoted_prefix. Import ErrSpec. Local Open Scope bool_scope. Local Open Scope Z_scope.
Import FmtModel. Local Open Scope Z_scope.
Theorem C18_quoted_prefix :
  forall desc info,
  exists rest, whole desc info = take_fit 255 (whole desc info) ++ rest.
Proof. exact (@ErrSpec.quoted_prefix). Qed.
End T_quoted_prefix.
Definition C18_quoted_prefix := @T_quoted_prefix.C18_quoted_prefix.

Module T_quoted_maximal. Import ErrSpec. Local Open Scope bool_scope. Local Open Scope Z_scope.
Import FmtModel. Local Open Scope Z_scope.
Theorem C18_quoted_maximal :
  forall desc info c rest,
  whole desc info = take_fit 255 (whole desc info) ++ c :: rest ->
  255 < Z.of_nat (length (esc (take_fit 255 (whole desc info)))) + cost c.
Proof. exact (@ErrSpec.quoted_maximal). Qed.
End T_quoted_maximal.
Definition C18_quoted_maximal := @T_quoted_maximal.C18_quoted_maximal.

Module T_tie_desc_max. Import Tie. Local Open Scope bool_scope. Local Open Scope Z_scope.
Local Open Scope Z_scope.
Theorem C18_tie_desc_max :
  Generated.gen_desc_max = 255.
Proof. exact (@Tie.tie_desc_max). Qed.
End T_tie_desc_max.
Definition C18_tie_desc_max := @T_tie_desc_max.C18_tie_desc_max.

Module T_tie_config. Import Tie. Local Open Scope bool_scope. Local Open Scope Z_scope.
Local Open Scope Z_scope.
Theorem C18_tie_config :
  Generated.gen_config = [1; 1; 0; 1] /\ Generated.gen_desc_parts = 2.
Proof. exact (@Tie.tie_config). Qed.
End T_tie_config.
Definition C18_tie_config := @T_tie_config.C18_tie_config.

Module T_systerr_response. Import SystErr. Local Open Scope bool_scope. Local Open Scope Z_scope.
Import FifoProof HeapProof QStatic FmtModel ErrSpec. Local Open Scope Z_scope.
Theorem C18_systerr_response :
  forall s,
  ErrQueue.QInv s ->
  let '(_, (code, text)) := ErrQueue.spec_pop (ErrQueue.absq s) in
  nonul (Glue.descz code) -> (forall t, text = Some t -> nonul t) -> Generated.gen_desc_max = 255 ->
  snd (Glue.eq_systerr s) =
  fst (fst (int2str 32 code 33 10 true)) ++ [44; 34] ++ esc (take_fit 255 (whole (Glue.descz code) text)) ++ [34].
Proof. exact (@SystErr.systerr_response). Qed.
End T_systerr_response.
Definition C18_systerr_response := @T_systerr_response.C18_systerr_response.

Module T_systerr_static. Import SystErr. Local Open Scope bool_scope. Local Open Scope Z_scope.
Import FifoProof HeapProof QStatic FmtModel ErrSpec. Local Open Scope Z_scope.
Theorem C18_systerr_static :
  forall s st es,
  QH s st es ->
  let '(s', out) := Glue.hq_systerr s in
  match es with
  | [] => out = result_error 0 (Glue.descz 0) None Generated.gen_desc_max /\ QH s' st []
  | (c, tx) :: r => out = result_error c (Glue.descz c) tx Generated.gen_desc_max /\ exists st', QH s' st' r
  end.
Proof. exact (@SystErr.systerr_static). Qed.
End T_systerr_static.
Definition C18_systerr_static := @T_systerr_static.C18_systerr_static.

