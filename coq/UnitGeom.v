(* the header of a recognised unit lies inside the bytes the unit consumed *)
From Coq Require Import Bool List NArith ZArith Lia.
From M Require Import LexModel LexBounds UnitProgress.
Import ListNotations.
Local Open Scope Z_scope.

Lemma header_len_disp l : len (tok (lex_header l)) = disp (lex_header l).
Proof.
  unfold lex_header. destruct (skip_common_header l) as [l1 r1]. destruct (skip_compound_header l) as [l2 r2].
  destruct r1; [destruct r2; [reflexivity|destruct (starts _ l2); reflexivity|reflexivity]|destruct (starts _ l1); reflexivity|reflexivity].
Qed.

Lemma header_inside_unit l : let u := detect_unit l in
  ty (u_hdr u) <> T_INVALID ->
  0 <= ptr (u_hdr u) /\ 0 <= len (u_hdr u) /\ ptr (u_hdr u) + len (u_hdr u) <= u_consumed u.
Proof.
  cbn zeta. unfold detect_unit.
  pose proof (ws_inside l) as (Hw0 & _). set (w0 := disp (lex_ws l)) in *.
  pose proof (header_inside (drop w0 l)) as (Hh & _ & Hhl & _). rewrite drop_length in Hh by exact Hw0.
  pose proof (header_len_disp (drop w0 l)) as Hld. set (h := lex_header (drop w0 l)) in *.
  set (p1 := w0 + disp h).
  pose proof (ws_inside (drop p1 l)) as (Hw1 & _). rewrite drop_length in Hw1 by (subst p1; lia). set (w1 := disp (lex_ws (drop p1 l))) in *.
  set (p2 := p1 + w1).
  assert (Hp2 : 0 <= p2 <= Z.of_nat (length l)) by (subst p2 p1; lia).
  set (dnp := if 0 <? w1 then _ else _).
  assert (Hp3 : p2 <= snd dnp <= Z.of_nat (length l)).
  { subst dnp. destruct (0 <? w1); cbn [snd]; [|lia].
    unfold parse_all_data. pose proof (all_data_disp (S (length (drop p2 l))) (drop p2 l) 0 0 0) as Ha.
    rewrite drop_length in Ha by exact Hp2. specialize (Ha ltac:(lia)). lia. }
  destruct dnp as [[data n] p3]; cbn [snd] in Hp3.
  pose proof (newline_inside (drop p3 l)) as (Hnl & _). rewrite drop_length in Hnl by lia.
  pose proof (chr_inside T_SEMICOLON 59%N (drop p3 l)) as (Hsc & _). fold lex_semicolon in Hsc. rewrite drop_length in Hsc by lia.
  assert (Rnl : ret (lex_newline (drop p3 l)) = disp (lex_newline (drop p3 l))).
  { unfold lex_newline. match goal with |- context [if ?c then _ else _] => destruct c end; reflexivity. }
  assert (Rsc : ret (lex_semicolon (drop p3 l)) = disp (lex_semicolon (drop p3 l))).
  { unfold lex_semicolon, lex_chr. destruct (starts _ _); reflexivity. }
  set (res := if ret (lex_newline (drop p3 l)) =? 0 then ret (lex_semicolon (drop p3 l)) else ret (lex_newline (drop p3 l))).
  assert (Hres : 0 <= res) by (subst res; destruct (ret (lex_newline (drop p3 l)) =? 0); lia).
  destruct (negb (iseos (drop (p3 + res) l)) && (res =? 0)); cbn [u_hdr u_consumed ty ptr len].
  - intro H. congruence.
  - intros _. subst p2 p1. lia.
Qed.
Print Assumptions header_inside_unit.
