(* C06 with streamed blocks: a block written as header + data pieces counts as one item, like SCPI_ResultArbitraryBlock *)
From Coq Require Import Bool List NArith ZArith Lia.
From M Require LexModel MatchModel FmtModel BufModel Generated.
From M Require Import ParserModel Framing2.
Import ListNotations.
Local Open Scope Z_scope.

(* the data pieces of one streamed block: all non-empty, so that the announced length is reached exactly at the last one *)
Definition pieces_ok (ds:list bytes) : Prop := ds <> [] /\ Forall (fun d => d <> []) ds.
Definition total (ds:list bytes) : Z := Z.of_nat (length (concat ds)).
Definition stream_ops (ds:list bytes) : list op := RHDR (total ds) :: map RDATA ds.

(* writing the pieces after the header: the item is completed by the last piece and only then *)
Lemma data_pieces : forall ds c d, Forall (fun x => x <> []) ds -> arb_rem c = total ds -> ds <> [] ->
  let c' := fst (run_script (map RDATA ds) c d) in
  snd (run_script (map RDATA ds) c d) = true /\
  first_output c' = first_output c /\ output_count c' = output_count c + 1 /\ W c' = W c ++ concat ds /\ Fl c' = Fl c /\ cmds c' = cmds c.
Proof.
  induction ds as [|x r IH]; intros c d Hne Harb Hnn; [congruence|]. inversion Hne as [|? ? Hx Hr]; subst.
  cbn [map]. rewrite run_script_cons. cbn [step]. unfold result_data.
  assert (Hlx : 0 < Z.of_nat (length x)) by (destruct x; [congruence|cbn [length]; lia]).
  unfold total in Harb. cbn [concat] in Harb. rewrite app_length in Harb.
  destruct (Z.ltb_spec (arb_rem c) (Z.of_nat (length x))) as [Hlt|Hge]; [lia|].
  set (rem := arb_rem c - Z.of_nat (length x)).
  destruct r as [|y r'].
  - (* last piece *)
    cbn [concat app length] in Harb. assert (Hrem : rem = 0) by (subst rem; lia). rewrite Hrem. cbn [Z.eqb map].
    set (c1 := upd_out c (first_output c) (output_count c + 1) 0).
    destruct (W_write c1 x) as (A1 & A2 & A3 & A4 & A5). cbn [run_script fst snd concat]. rewrite app_nil_r.
    rewrite A1, A2, A4, A5. repeat split. destruct x; reflexivity.
  - (* a piece in the middle: the remainder stays positive *)
    assert (Hpos : 0 < Z.of_nat (length (concat (y :: r')))).
    { inversion Hr as [|? ? Hy _]; subst. cbn [concat]. rewrite app_length. destruct y; [congruence|cbn [length]; lia]. }
    assert (Hrem : rem <> 0) by (subst rem; lia). destruct (Z.eqb_spec rem 0); [contradiction|].
    set (c1 := upd_out c (first_output c) (output_count c) rem).
    destruct (W_write c1 x) as (A1 & A2 & A3 & A4 & A5).
    specialize (IH (write c1 x) d Hr ltac:(rewrite A3; unfold total; subst c1 rem; cbn [arb_rem upd_out]; lia) ltac:(discriminate)).
    cbn zeta in IH. destruct IH as (B0 & B1 & B2 & B3 & B4 & B5).
    cbn [concat]. split; [exact B0|]. rewrite B1, B2, B3, B4, B5, A1, A2, A4, A5. repeat split; try reflexivity.
    + now rewrite app_assoc.
    + destruct x; reflexivity.
Qed.

Lemma run_script_app s1 : forall s2 c d,
  run_script (s1 ++ s2) c d = let '(c1, ok) := run_script s1 c d in if ok then run_script s2 c1 d else (c1, false).
Proof.
  induction s1 as [|o r IH]; intros s2 c d; [cbn [app run_script]; reflexivity|].
  cbn [app]. rewrite !run_script_cons. destruct (step o c d) as [c1 go]. destruct go; [apply IH|reflexivity].
Qed.

(* header + pieces = one item *)
Lemma stream_step ds c d : pieces_ok ds ->
  let c' := fst (run_script (stream_ops ds) c d) in
  snd (run_script (stream_ops ds) c d) = true /\ Step c c' (Some (block_header (total ds) ++ concat ds)) /\ cmds c' = cmds c.
Proof.
  intros [Hne Hall]. unfold stream_ops. rewrite run_script_cons. cbn [step].
  set (n := total ds). unfold result_hdr.
  destruct (W_delimiter c) as (B1 & B2 & B3 & B4 & B5).
  destruct (W_write (delimiter c) (block_header n)) as (C1 & C2 & C3 & C4 & C5).
  set (c1 := write (delimiter c) (block_header n)) in *.
  set (c2 := upd_out c1 (first_output c1) (output_count c1) n).
  pose proof (data_pieces ds c2 d Hall eq_refl Hne) as H. cbn zeta in H. destruct H as (D0 & D1 & D2 & D3 & D4 & D5).
  split; [exact D0|]. split.
  - unfold Step. rewrite D1, D2, D3, D4. unfold W, Fl in *. cbn [trace first_output output_count upd_out c2].
    repeat split; try congruence. rewrite C4, B4, <- !app_assoc. reflexivity.
  - rewrite D5. cbn [cmds upd_out c2]. pose proof (C_write (delimiter c) (block_header n)) as K1. pose proof (C_delimiter c) as K2. unfold C in *. fold c1 in K1. congruence.
Qed.

(* ---------- array results: ASCII = one item per element, binary = one block, whichever way it is written ---------- *)
Definition host := arr_host.
Definition swapped := arr_swapped.
Definition payload (size fmt:Z) (vals:list Z) : bytes :=
  if fmt =? Generated.gen_native_format then flat_map (host size) vals else flat_map (fun v => host size (swapped size v)) vals.
Definition arr_items (size fmt:Z) (vals:list Z) : list bytes :=
  if fmt =? 0 then map (fun v => int_body (if size =? 8 then 64 else 32) v 10 false) vals
  else [block_header (Z.of_nat (length vals) * size) ++ payload size fmt vals].
Definition size_ok (size:Z) : Prop := size = 1 \/ size = 2 \/ size = 4 \/ size = 8.

Lemma le_bytes_length n : forall v, length (BufModel.le_bytes n v) = n.
Proof. induction n as [|n IH]; intro v; [reflexivity|]. cbn [BufModel.le_bytes length]. now rewrite IH. Qed.
Lemma host_length size v : 0 <= size -> Z.of_nat (length (arr_host size v)) = size.
Proof. intro H. unfold arr_host, bz. rewrite map_length. destruct native_le; [|unfold BufModel.be_bytes; rewrite rev_length]; rewrite le_bytes_length; lia. Qed.
Lemma flat_len (h:Z -> bytes) size vals : (forall v, Z.of_nat (length (h v)) = size) -> Z.of_nat (length (flat_map h vals)) = Z.of_nat (length vals) * size.
Proof.
  intro H. induction vals as [|v r IH]; [reflexivity|]. cbn [flat_map length]. rewrite app_length, Nat2Z.inj_add, IH, H.
  rewrite Nat2Z.inj_succ. lia.
Qed.

Definition Steps (c c':ctx) (items:list bytes) : Prop :=
  first_output c' = first_output c /\ output_count c' = output_count c + Z.of_nat (length items) /\
  W c' = W c ++ render (first_output c) (output_count c) items /\ Fl c' = Fl c.
Lemma Steps_one c c' b : Step c c' (Some b) -> Steps c c' [b].
Proof. intros (A1 & A2 & A3 & A4). unfold Steps. cbn [length render]. rewrite A1, A2, A3, A4, app_nil_r. repeat split; reflexivity. Qed.

(* ASCII: one item per element *)
Lemma ascii_steps w vals : forall c,
  Steps c (fold_left (fun c v => result_int c w v 10 false) vals c) (map (fun v => int_body w v 10 false) vals).
Proof.
  induction vals as [|v r IH]; intro c.
  - unfold Steps. cbn. rewrite app_nil_r, Z.add_0_r. auto.
  - cbn [fold_left map]. destruct (Step_result_int c w v 10 false) as (A1 & A2 & A3 & A4).
    destruct (IH (result_int c w v 10 false)) as (B1 & B2 & B3 & B4). unfold Steps.
    rewrite B1, B2, B3, B4, A1, A2, A3, A4. cbn [length render]. rewrite <- !app_assoc, Nat2Z.inj_succ. repeat split; try reflexivity; lia.
Qed.

(* header + one data call per piece, written with fold_left instead of a script *)
Lemma fold_data ds : forall c d, fst (run_script (map RDATA ds) c d) = fold_left (fun c x => result_data c x) ds c.
Proof. induction ds as [|x r IH]; intros c d; [reflexivity|]. cbn [map fold_left]. rewrite run_script_cons. cbn [step]. apply IH. Qed.
Lemma fold_left_map {A B C} (f:A -> B -> A) (g:C -> B) l : forall a, fold_left f (map g l) a = fold_left (fun a v => f a (g v)) l a.
Proof. induction l as [|x r IH]; intro a; [reflexivity|]. cbn [map fold_left]. apply IH. Qed.

Theorem array_steps c size fmt vals : size_ok size -> Steps c (result_array c size fmt vals) (arr_items size fmt vals).
Proof.
  intros Hs. assert (H0 : 0 <= size) by (destruct Hs as [->|[->|[->| ->]]]; lia).
  unfold result_array, arr_items. destruct (fmt =? 0); [apply ascii_steps|].
  unfold payload, host, swapped.
  destruct (fmt =? Generated.gen_native_format).
  - (* host byte order: one block call *)
    apply Steps_one. pose proof (Step_block c (flat_map (arr_host size) vals)) as H.
    rewrite (flat_len (arr_host size) size vals (fun v => host_length size v H0)) in H. exact H.
  - destruct vals as [|v0 r].
    + (* empty array: header for 0 bytes and a zero-length data call *)
      apply Steps_one. cbn [flat_map length]. change (Z.of_nat 0 * size) with 0. exact (Step_block c []).
    + destruct (Z.eqb_spec size 1) as [E1|N1].
      * (* bytes need no swapping: one data call *)
        apply Steps_one. subst size.
        assert (E : flat_map (fun v => arr_host 1 (arr_swapped 1 v)) (v0 :: r) = flat_map (arr_host 1) (v0 :: r)) by reflexivity. rewrite E.
        pose proof (Step_block c (flat_map (arr_host 1) (v0 :: r))) as H.
        rewrite (flat_len (arr_host 1) 1 (v0 :: r) (fun v => host_length 1 v ltac:(lia))) in H. exact H.
      * (* one data call per element *)
        apply Steps_one.
        set (ds := map (fun v => arr_host size (arr_swapped size v)) (v0 :: r)).
        assert (Hp : pieces_ok ds).
        { split; [discriminate|]. unfold ds. apply Forall_forall. intros x Hx. apply in_map_iff in Hx as (v & <- & _).
          intro E. apply (f_equal (@length N)) in E. pose proof (host_length size (arr_swapped size v) H0) as Hl. rewrite E in Hl. cbn in Hl.
          destruct Hs as [->|[->|[->| ->]]]; lia. }
        assert (Ht : total ds = Z.of_nat (length (v0 :: r)) * size).
        { unfold total, ds. rewrite <- flat_map_concat_map. apply (flat_len (fun v => arr_host size (arr_swapped size v)) size (v0 :: r)). intro v. now apply host_length. }
        destruct (stream_step ds c (fun _ => []) Hp) as (_ & H & _).
        unfold stream_ops in H. rewrite run_script_cons in H. cbn [step] in H. rewrite fold_data in H.
        rewrite Ht in H.
        assert (Ef : fold_left (fun c x => result_data c x) ds (result_hdr c (Z.of_nat (length (v0 :: r)) * size)) =
                     fold_left (fun c v => result_data c (arr_host size (arr_swapped size v))) (v0 :: r) (result_hdr c (Z.of_nat (length (v0 :: r)) * size)))
          by (unfold ds; apply fold_left_map).
        rewrite Ef in H.
        assert (Ec : concat ds = flat_map (fun v => arr_host size (arr_swapped size v)) (v0 :: r)) by (unfold ds; now rewrite <- flat_map_concat_map).
        rewrite Ec in H. exact H.
Qed.
Print Assumptions array_steps.


(* scripts made of simple operations and well-formed streamed blocks *)
Inductive atom := Op (o:op) | Stream (ds:list bytes) | Arr (size fmt:Z) (vals:list Z).
Definition atom_ok (a:atom) : Prop := match a with Op o => simple_op o = true | Stream ds => pieces_ok ds | Arr size _ _ => size_ok size end.
Definition flat (a:atom) : list op := match a with Op o => [o] | Stream ds => stream_ops ds | Arr size fmt vals => [RARR size fmt vals] end.
Definition atom_items (a:atom) (c:ctx) (d:Z -> bytes) : list bytes :=
  match a with Op o => (match op_body o c d with Some b => [b] | None => [] end) | Stream ds => [block_header (total ds) ++ concat ds]
  | Arr size fmt vals => arr_items size fmt vals end.
Fixpoint aitems (l:list atom) (c:ctx) (d:Z -> bytes) : list bytes :=
  match l with [] => [] | a :: r => atom_items a c d ++ (let '(c', ok) := run_script (flat a) c d in if ok then aitems r c' d else []) end.

Lemma items_single o c d : items_run [o] c d = match op_body o c d with Some b => [b] | None => [] end.
Proof. cbn [items_run]. destruct (step o c d) as [? []]; now rewrite app_nil_r. Qed.
Lemma atom_step a c d : atom_ok a ->
  let c' := fst (run_script (flat a) c d) in
  first_output c' = first_output c /\ output_count c' = output_count c + Z.of_nat (length (atom_items a c d)) /\
  W c' = W c ++ render (first_output c) (output_count c) (atom_items a c d) /\ Fl c' = Fl c.
Proof.
  intro Ha. destruct a as [o|ds|size fmt vals]; cbn [flat atom_items atom_ok] in *.
  - pose proof (script_framing [o] ltac:(cbn; now rewrite Ha) c d) as H. cbn zeta in H. rewrite items_single in H. exact H.
  - destruct (stream_step ds c d Ha) as (_ & (A1 & A2 & A3 & A4) & _). cbn [length render]. rewrite A1, A2, A3, A4, app_nil_r.
    repeat split; reflexivity.
  - rewrite run_script_cons. cbn [step fst]. exact (array_steps c size fmt vals Ha).
Qed.

Theorem script_framing_streamed l : Forall atom_ok l -> forall c d,
  let c' := fst (run_script (flat_map flat l) c d) in let its := aitems l c d in
  first_output c' = first_output c /\ output_count c' = output_count c + Z.of_nat (length its) /\
  W c' = W c ++ render (first_output c) (output_count c) its /\ Fl c' = Fl c.
Proof.
  induction 1 as [|a r Ha Hr IH]; intros c d.
  - cbn. rewrite app_nil_r, Z.add_0_r. auto.
  - cbn [flat_map aitems]. cbn zeta. rewrite run_script_app.
    pose proof (atom_step a c d Ha) as H. cbn zeta in H. destruct (run_script (flat a) c d) as [c1 ok]. cbn [fst] in H. destruct H as (A1 & A2 & A3 & A4).
    destruct ok.
    + specialize (IH c1 d). cbn zeta in IH. destruct IH as (B1 & B2 & B3 & B4).
      rewrite B1, B2, B3, B4, A1, A2, A3, A4, render_app, app_length, <- app_assoc. repeat split; try reflexivity; lia.
    + cbn [fst]. rewrite app_nil_r. auto.
Qed.
Print Assumptions script_framing_streamed.

(* C17 block_stream, the refusal clause: a data call longer than what remains writes nothing and queues -310 *)
Lemma data_overrun c dd : arb_rem c < Z.of_nat (length dd) -> result_data c dd = error_push c (-310) None.
Proof. intro H. unfold result_data. destruct (Z.ltb_spec (arb_rem c) (Z.of_nat (length dd))); [reflexivity|lia]. Qed.

(* why the pieces must add up: a handler that abandons a block (2 of 5 announced bytes) glues the next response to it *)
Definition ub_cmds : list (bytes * Z * list op) := [([65;63]%N, 1, [RHDR 5; RDATA [97;98]%N]); ([66;63]%N, 2, [RI32 2])].
Definition ub_ctx : ctx :=
  {| cmds := ub_cmds; mem := [65;63;59;66;63;10]%N; cap := 256; first_output := true; output_count := 0; input_count := 0; cmd_error := false; arb_rem := 0;
     pd_off := 0; pd_len := 0; pd_pos := 0; cur := None; raw_off := 0; raw_len := 0; queue := []; qcap := 4; qma := false; trace := [] |}.
Example unfinished_block_glues : W (fst (scpi_parse ub_ctx 6 desc_of)) = [35;49;53;97;98;50;13;10]%N.
Proof. vm_compute. reflexivity. Qed.

(* the array as an atom of a script (Framing3): RARR alone *)
Example array_example :
  let c0 := {| cmds := []; mem := []; cap := 16; first_output := true; output_count := 0; input_count := 0; cmd_error := false; arb_rem := 0;
               pd_off := 0; pd_len := 0; pd_pos := 0; cur := None; raw_off := 0; raw_len := 0; queue := []; qcap := 2; qma := false; trace := [] |} in
  W (result_array c0 2 1 [258; 772]) = [35;49;52;1;2;3;4]%N /\ output_count (result_array c0 2 1 [258; 772]) = 1 /\
  W (result_array c0 2 0 [258; 772]) = [50;53;56;44;55;55;50]%N /\ output_count (result_array c0 2 0 [258; 772]) = 2.
Proof. vm_compute. repeat split. Qed.
