(* C06 with streamed blocks: a block written as header + data pieces counts as one item, like SCPI_ResultArbitraryBlock *)
From Coq Require Import Bool List NArith ZArith Lia.
From M Require LexModel MatchModel FmtModel.
From M Require Import ParserModel Framing2.
Import ListNotations.
Local Open Scope Z_scope.

(* the data pieces of one streamed block: all non-empty, so that the announced length is reached exactly at the last one *)
Definition pieces_ok (ds:list bytes) : Prop := ds <> [] /\ Forall (fun d => d <> []) ds.
Definition total (ds:list bytes) : Z := Z.of_nat (length (concat ds)).
Definition stream_ops (ds:list bytes) : list op := RHDR (total ds) :: map RDATA ds.

(* writing the pieces after the header: the item is completed by the last piece and only then *)
Lemma data_pieces : forall ds c d, Forall (fun x => x <> []) ds -> arb_rem c = total ds -> ds <> [] ->
  let c' := fst (run_script (map RDATA ds) c d) in
  snd (run_script (map RDATA ds) c d) = true /\
  first_output c' = first_output c /\ output_count c' = output_count c + 1 /\ W c' = W c ++ concat ds /\ Fl c' = Fl c /\ cmds c' = cmds c.
Proof.
  induction ds as [|x r IH]; intros c d Hne Harb Hnn; [congruence|]. inversion Hne as [|? ? Hx Hr]; subst.
  cbn [map]. rewrite run_script_cons. cbn [step]. unfold result_data.
  assert (Hlx : 0 < Z.of_nat (length x)) by (destruct x; [congruence|cbn [length]; lia]).
  unfold total in Harb. cbn [concat] in Harb. rewrite app_length in Harb.
  destruct (Z.ltb_spec (arb_rem c) (Z.of_nat (length x))) as [Hlt|Hge]; [lia|].
  set (rem := arb_rem c - Z.of_nat (length x)).
  destruct r as [|y r'].
  - (* last piece *)
    cbn [concat app length] in Harb. assert (Hrem : rem = 0) by (subst rem; lia). rewrite Hrem. cbn [Z.eqb map].
    set (c1 := upd_out c (first_output c) (output_count c + 1) 0).
    destruct (W_write c1 x) as (A1 & A2 & A3 & A4 & A5). cbn [run_script fst snd concat]. rewrite app_nil_r.
    rewrite A1, A2, A4, A5. repeat split. destruct x; reflexivity.
  - (* a piece in the middle: the remainder stays positive *)
    assert (Hpos : 0 < Z.of_nat (length (concat (y :: r')))).
    { inversion Hr as [|? ? Hy _]; subst. cbn [concat]. rewrite app_length. destruct y; [congruence|cbn [length]; lia]. }
    assert (Hrem : rem <> 0) by (subst rem; lia). destruct (Z.eqb_spec rem 0); [contradiction|].
    set (c1 := upd_out c (first_output c) (output_count c) rem).
    destruct (W_write c1 x) as (A1 & A2 & A3 & A4 & A5).
    specialize (IH (write c1 x) d Hr ltac:(rewrite A3; unfold total; subst c1 rem; cbn [arb_rem upd_out]; lia) ltac:(discriminate)).
    cbn zeta in IH. destruct IH as (B0 & B1 & B2 & B3 & B4 & B5).
    cbn [concat]. split; [exact B0|]. rewrite B1, B2, B3, B4, B5, A1, A2, A4, A5. repeat split; try reflexivity.
    + now rewrite app_assoc.
    + destruct x; reflexivity.
Qed.

Lemma run_script_app s1 : forall s2 c d,
  run_script (s1 ++ s2) c d = let '(c1, ok) := run_script s1 c d in if ok then run_script s2 c1 d else (c1, false).
Proof.
  induction s1 as [|o r IH]; intros s2 c d; [cbn [app run_script]; reflexivity|].
  cbn [app]. rewrite !run_script_cons. destruct (step o c d) as [c1 go]. destruct go; [apply IH|reflexivity].
Qed.

(* header + pieces = one item *)
Lemma stream_step ds c d : pieces_ok ds ->
  let c' := fst (run_script (stream_ops ds) c d) in
  snd (run_script (stream_ops ds) c d) = true /\ Step c c' (Some (block_header (total ds) ++ concat ds)) /\ cmds c' = cmds c.
Proof.
  intros [Hne Hall]. unfold stream_ops. rewrite run_script_cons. cbn [step].
  set (n := total ds). unfold result_hdr.
  destruct (W_delimiter c) as (B1 & B2 & B3 & B4 & B5).
  destruct (W_write (delimiter c) (block_header n)) as (C1 & C2 & C3 & C4 & C5).
  set (c1 := write (delimiter c) (block_header n)) in *.
  set (c2 := upd_out c1 (first_output c1) (output_count c1) n).
  pose proof (data_pieces ds c2 d Hall eq_refl Hne) as H. cbn zeta in H. destruct H as (D0 & D1 & D2 & D3 & D4 & D5).
  split; [exact D0|]. split.
  - unfold Step. rewrite D1, D2, D3, D4. unfold W, Fl in *. cbn [trace first_output output_count upd_out c2].
    repeat split; try congruence. rewrite C4, B4, <- !app_assoc. reflexivity.
  - rewrite D5. cbn [cmds upd_out c2]. pose proof (C_write (delimiter c) (block_header n)) as K1. pose proof (C_delimiter c) as K2. unfold C in *. fold c1 in K1. congruence.
Qed.

(* scripts made of simple operations and well-formed streamed blocks *)
Inductive atom := Op (o:op) | Stream (ds:list bytes).
Definition atom_ok (a:atom) : Prop := match a with Op o => simple_op o = true | Stream ds => pieces_ok ds end.
Definition flat (a:atom) : list op := match a with Op o => [o] | Stream ds => stream_ops ds end.
Definition atom_items (a:atom) (c:ctx) (d:Z -> bytes) : list bytes :=
  match a with Op o => (match op_body o c d with Some b => [b] | None => [] end) | Stream ds => [block_header (total ds) ++ concat ds] end.
Fixpoint aitems (l:list atom) (c:ctx) (d:Z -> bytes) : list bytes :=
  match l with [] => [] | a :: r => atom_items a c d ++ (let '(c', ok) := run_script (flat a) c d in if ok then aitems r c' d else []) end.

Lemma items_single o c d : items_run [o] c d = match op_body o c d with Some b => [b] | None => [] end.
Proof. cbn [items_run]. destruct (step o c d) as [? []]; now rewrite app_nil_r. Qed.
Lemma atom_step a c d : atom_ok a ->
  let c' := fst (run_script (flat a) c d) in
  first_output c' = first_output c /\ output_count c' = output_count c + Z.of_nat (length (atom_items a c d)) /\
  W c' = W c ++ render (first_output c) (output_count c) (atom_items a c d) /\ Fl c' = Fl c.
Proof.
  intro Ha. destruct a as [o|ds]; cbn [flat atom_items atom_ok] in *.
  - pose proof (script_framing [o] ltac:(cbn; now rewrite Ha) c d) as H. cbn zeta in H. rewrite items_single in H. exact H.
  - destruct (stream_step ds c d Ha) as (_ & (A1 & A2 & A3 & A4) & _). cbn [length render]. rewrite A1, A2, A3, A4, app_nil_r.
    repeat split; reflexivity.
Qed.

Theorem script_framing_streamed l : Forall atom_ok l -> forall c d,
  let c' := fst (run_script (flat_map flat l) c d) in let its := aitems l c d in
  first_output c' = first_output c /\ output_count c' = output_count c + Z.of_nat (length its) /\
  W c' = W c ++ render (first_output c) (output_count c) its /\ Fl c' = Fl c.
Proof.
  induction 1 as [|a r Ha Hr IH]; intros c d.
  - cbn. rewrite app_nil_r, Z.add_0_r. auto.
  - cbn [flat_map aitems]. cbn zeta. rewrite run_script_app.
    pose proof (atom_step a c d Ha) as H. cbn zeta in H. destruct (run_script (flat a) c d) as [c1 ok]. cbn [fst] in H. destruct H as (A1 & A2 & A3 & A4).
    destruct ok.
    + specialize (IH c1 d). cbn zeta in IH. destruct IH as (B1 & B2 & B3 & B4).
      rewrite B1, B2, B3, B4, A1, A2, A3, A4, render_app, app_length, <- app_assoc. repeat split; try reflexivity; lia.
    + cbn [fst]. rewrite app_nil_r. auto.
Qed.
Print Assumptions script_framing_streamed.

(* C17 block_stream, the refusal clause: a data call longer than what remains writes nothing and queues -310 *)
Lemma data_overrun c dd : arb_rem c < Z.of_nat (length dd) -> result_data c dd = error_push c (-310) None.
Proof. intro H. unfold result_data. destruct (Z.ltb_spec (arb_rem c) (Z.of_nat (length dd))); [reflexivity|lia]. Qed.

(* why the pieces must add up: a handler that abandons a block (2 of 5 announced bytes) glues the next response to it *)
Definition ub_cmds : list (bytes * Z * list op) := [([65;63]%N, 1, [RHDR 5; RDATA [97;98]%N]); ([66;63]%N, 2, [RI32 2])].
Definition ub_ctx : ctx :=
  {| cmds := ub_cmds; mem := [65;63;59;66;63;10]%N; cap := 256; first_output := true; output_count := 0; input_count := 0; cmd_error := false; arb_rem := 0;
     pd_off := 0; pd_len := 0; pd_pos := 0; cur := None; raw_off := 0; raw_len := 0; queue := []; qcap := 4; qma := false; trace := [] |}.
Example unfinished_block_glues : W (fst (scpi_parse ub_ctx 6 desc_of)) = [35;49;53;97;98;50;13;10]%N.
Proof. vm_compute. reflexivity. Qed.
