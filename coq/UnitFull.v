(* C13/C05: unit_complete with the consumed length and the terminator kind *)
From Coq Require Import Bool List NArith ZArith Lia.
From M Require Import LexModel LexBounds DecSpec MoreSpecs NumList SimpleSpecs ListWs HdrSpec UnitSpec.
Import ListNotations.
Local Open Scope Z_scope.

Theorem unit_complete_full lead m1 ms (q:bool) ws1 items rest hdr l :
  Mnem m1 -> Forall Mnem ms -> ws1 <> [] -> all isws ws1 -> Forall item_ok items -> items <> [] -> first_tight items -> is_term rest ->
  hdr = header_text lead m1 ms ++ (if q then [63%N] else []) ->
  l = hdr ++ ws1 ++ list_text items ++ rest ->
  let u := detect_unit l in
  ty (u_hdr u) = (if q then T_COMPOUND_QUERY_HDR else T_COMPOUND_HDR) /\ ptr (u_hdr u) = 0 /\ len (u_hdr u) = Z.of_nat (length hdr) /\
  ptr (u_data u) = Z.of_nat (length hdr) + Z.of_nat (length ws1) /\ len (u_data u) = Z.of_nat (length (list_text items)) /\
  u_n u = Z.of_nat (length items) /\
  u_consumed u = Z.of_nat (length hdr) + Z.of_nat (length ws1) + Z.of_nat (length (list_text items)) + (match rest with [] => 0 | _ => 1 end) /\
  u_term u = (match rest with [] => TERM_NONE | c :: _ => if (c =? 59)%N then TERM_SEMICOLON else TERM_NL end).
Proof.
  intros Hm1 Hms Hne Hws Hok Hnn Hft Hterm Ehdr El.
  destruct (term_stops rest Hterm) as [Hst Hcm].
  pose proof Hm1 as (c & rr & Em1 & Hc & Hr).
  destruct ws1 as [|b ws1']; [congruence|]. assert (Hb : isws b = true) by (unfold all in Hws; cbn [forallb] in Hws; now apply andb_prop in Hws as [H _]).
  set (after := (b :: ws1') ++ list_text items ++ rest) in *.
  assert (Hafter : hstop after /\ starts (ischr 63%N) after = false).
  { unfold after, hstop, mstop. cbn [app starts]. unfold isws in Hb. apply orb_prop in Hb as [Hb|Hb]; apply N.eqb_eq in Hb; subst b; repeat split; reflexivity. }
  (* the unit does not start with a blank *)
  assert (Hl0 : starts isws l = false).
  { rewrite El, Ehdr. unfold header_text. destruct lead; cbn [app starts]; [reflexivity|]. rewrite Em1. cbn [app starts].
    unfold isws. destruct (N.eqb_spec c 32) as [->|_]; [discriminate Hc|]. destruct (N.eqb_spec c 9) as [->|_]; [discriminate Hc|reflexivity]. }
  assert (Hw0 : disp (lex_ws l) = 0) by (unfold lex_ws; cbn [disp mk]; rewrite skip_while_stop by exact Hl0; unfold used; lia).
  (* the header *)
  assert (Hhdr : lex_header l = mk (if q then T_COMPOUND_QUERY_HDR else T_COMPOUND_HDR) 0 (Z.of_nat (length hdr)) (Z.of_nat (length hdr)) (Z.of_nat (length hdr))).
  { destruct q.
    - assert (E : l = header_text lead m1 ms ++ 63%N :: after) by (rewrite El, Ehdr, <- app_assoc; reflexivity). rewrite E.
      pose proof (compound_complete lead m1 ms true after Hm1 Hms I) as H. cbn zeta in H. rewrite H. rewrite Ehdr, app_length. cbn [length]. f_equal; lia.
    - assert (E : l = header_text lead m1 ms ++ after) by (rewrite El, Ehdr, app_nil_r; reflexivity). rewrite E.
      pose proof (compound_complete lead m1 ms false after Hm1 Hms Hafter) as H. cbn zeta in H. rewrite H. rewrite Ehdr, app_nil_r. f_equal; lia. }
  (* blanks, then the list *)
  assert (Hd1 : drop (Z.of_nat (length hdr)) l = after) by (rewrite El; apply drop_app_len).
  destruct items as [|[[w0 a0] w10] r0]; [congruence|]. cbn [first_tight] in Hft. subst w0.
  assert (Hlt0 : starts isws (list_text ((([]:bytes), a0, w10) :: r0) ++ rest) = false).
  { inversion Hok as [|? ? Hi0 _]; subst. destruct Hi0 as (_ & Ha0 & _). destruct (dec_first a0 Ha0) as (c0 & ar & Ea & Hc0).
    assert (isws c0 = false) by (destruct Hc0 as [H|[H| ->]]; [apply digit_not_ws; exact H|apply sign_not_ws; exact H|reflexivity]).
    destruct r0; cbn [list_text item_text app]; rewrite Ea; cbn [app starts]; assumption. }
  assert (Hw1 : disp (lex_ws after) = Z.of_nat (length (b :: ws1'))) by (unfold after; apply ws_disp; assumption).
  assert (Hd2 : drop (Z.of_nat (length hdr) + Z.of_nat (length (b :: ws1'))) l = list_text ((([]:bytes), a0, w10) :: r0) ++ rest).
  { rewrite drop_drop by lia. rewrite Hd1. unfold after. apply drop_app_len. }
  set (items := (([]:bytes), a0, w10) :: r0) in *.
  pose proof (all_data_list items (S (length (list_text items ++ rest))) (list_text items ++ rest) 0 0 0 rest Hok Hnn Hst Hcm ltac:(lia) eq_refl) as Had.
  assert (Hlen : (length items < S (length (list_text items ++ rest)))%nat).
  { clear - Hok. assert (G : forall its, Forall item_ok its -> (length its <= length (list_text its))%nat).
    { induction its as [|[[x y] z] r IH]; intro H; [cbn; lia|]. inversion H as [|? ? Hi Hr]; subst. specialize (IH Hr). destruct Hi as (_ & Hy & _). apply dec_len_pos in Hy.
      destruct r as [|i2 r']; [cbn [list_text item_text length]; rewrite !app_length; lia|]. rewrite list_text_cons, app_length. cbn [item_text length] in *. rewrite !app_length. lia. }
    specialize (G items Hok). rewrite app_length. apply Nat.lt_succ_r. etransitivity; [exact G|]. apply Nat.le_add_r. }
  specialize (Had Hlen). cbn [Z.add] in Had.
  (* put the pieces into detect_unit *)
  cbn zeta. unfold detect_unit. rewrite Hw0. change (drop 0 l) with l. rewrite Hhdr. cbn [tok ty ptr len disp mk]. rewrite Z.add_0_l.
  rewrite Hd1, Hw1. destruct (Z.ltb_spec 0 (Z.of_nat (length (b :: ws1')))) as [_|Hbad]; [|cbn [length] in Hbad; lia].
  rewrite Hd2. unfold parse_all_data. rewrite Had. cbn [ad_ty ad_len ad_n ad_disp].
  assert (Hd3 : forall e, e = Z.of_nat (length hdr) + Z.of_nat (length (b :: ws1')) + Z.of_nat (length (list_text items)) -> drop e l = rest).
  { intros e ->. rewrite drop_drop by lia. rewrite Hd2. apply drop_app_len. }
  rewrite !(Hd3 _ eq_refl).
  destruct Hterm as [->|(r & [->| ->])].
  - assert (R1 : ret (lex_newline []) = 0) by reflexivity. assert (R2 : ret (lex_semicolon []) = 0) by reflexivity.
    rewrite R1, R2. cbn [Z.eqb negb]. rewrite Z.add_0_r. rewrite (Hd3 _ eq_refl). cbn [iseos negb andb u_hdr u_data u_n u_term u_consumed ty ptr len].
    repeat split; try reflexivity; subst items; rewrite ?Z.add_0_r; reflexivity.
  - assert (R1 : ret (lex_newline (59%N :: r)) = 0).
    { unfold lex_newline. change (skip_opt (ischr 13%N) (59%N :: r)) with (59%N :: r). change (skip_opt (ischr 10%N) (59%N :: r)) with (59%N :: r). unfold used. rewrite Z.sub_diag. reflexivity. }
    assert (R2 : ret (lex_semicolon (59%N :: r)) = 1) by (unfold lex_semicolon; apply lex_chr_hit).
    rewrite R1, R2. cbn [Z.eqb negb]. rewrite andb_false_r. cbn [u_hdr u_data u_n u_term u_consumed ty ptr len N.eqb Pos.eqb].
    repeat split; try reflexivity; subst items; rewrite ?Z.add_0_r; reflexivity.
  - assert (R1 : ret (lex_newline (10%N :: r)) = 1).
    { unfold lex_newline. change (skip_opt (ischr 13%N) (10%N :: r)) with (10%N :: r). change (skip_opt (ischr 10%N) (10%N :: r)) with r.
      unfold used. match goal with |- context [0 <? ?x] => replace x with 1 by (cbn [length]; lia) end. reflexivity. }
    rewrite R1. cbn [Z.eqb negb]. rewrite andb_false_r. cbn [u_hdr u_data u_n u_term u_consumed ty ptr len N.eqb Pos.eqb].
    repeat split; try reflexivity; subst items; rewrite ?Z.add_0_r; reflexivity.
Qed.
Print Assumptions unit_complete_full.
