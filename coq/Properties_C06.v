(* C06 -- property theorems only: every statement is closed by `exact` on a lemma proved elsewhere.
   Statements are pinned by coq/statements/C06.json; ./check compares. *)
From Coq Require Import Bool List NArith ZArith Lia.
From M Require Framing2.
From M Require Framing3.
From M Require Framing4.
From M Require Tie.
From M Require Framing2.
From M Require Framing3.
From M Require ParserModel.
Import ListNotations.

Definition C06_framing := @Framing2.framing.

Definition C06_message_framing := @Framing2.message_framing.

Definition C06_unit_framing := @Framing2.unit_framing.

Definition C06_script_framing := @Framing2.script_framing.

Definition C06_frame_closed := @Framing2.frame_closed.

Definition C06_script_framing_streamed := @Framing3.script_framing_streamed.

Definition C06_framing_g := @Framing4.framing_g.

Definition C06_framing_streamed := @Framing4.framing_streamed.

Definition C06_tie_line_ending := @Tie.tie_line_ending.

Definition C06_array_steps := @Framing3.array_steps.

