(* C06 -- property theorems only: every statement is closed by `exact` on a lemma proved elsewhere.
   Statements are pinned by coq/statements/C06.json; ./check compares. *)
From Coq Require Import Bool List NArith ZArith Lia.
From M Require Framing2.
From M Require Framing3.
From M Require Framing4.
From M Require Tie.
From M Require FpLen.
From M Require BufModel.
From M Require Framing2.
From M Require Framing3.
From M Require GFmt.
From M Require ParserModel.
Import ListNotations.

Module T_framing. Import Framing2. Local Open Scope bool_scope. Local Open Scope Z_scope.
Import ParserModel. Local Open Scope Z_scope.
Theorem C06_framing :
  forall c len d,
  table_simple c ->
  let c' := fst (scpi_parse c len d) in
  let units := filter nonempty (msg_items (S (Z.to_nat len)) (upd_out c true 0 (arb_rem c)) 0 len None true d) in
  W c' = W c ++ join [59%N] (map (join [44%N]) units) ++ (if is_nil units then [] else [13;10]%N) /\
  Fl c' = Fl c + (if is_nil units then 0 else 1).
Proof. exact (@Framing2.framing). Qed.
End T_framing.
Definition C06_framing := @T_framing.C06_framing.

Module T_message_framing. Import Framing2. Local Open Scope bool_scope. Local Open Scope Z_scope.
Import ParserModel. Local Open Scope Z_scope.
Theorem C06_message_framing :
  forall c len d,
  table_simple c ->
  let c' := fst (scpi_parse c len d) in
  let units := msg_items (S (Z.to_nat len)) (upd_out c true 0 (arb_rem c)) 0 len None true d in
  W c' = W c ++ frame_units true units ++ (if responded units then [13;10]%N else []) /\
  Fl c' = Fl c + (if responded units then 1 else 0) /\
  first_output c' = true.
Proof. exact (@Framing2.message_framing). Qed.
End T_message_framing.
Definition C06_message_framing := @T_message_framing.C06_message_framing.

Module T_unit_framing. Import Framing2. Local Open Scope bool_scope. Local Open Scope Z_scope.
Import ParserModel. Local Open Scope Z_scope.
Theorem C06_unit_framing :
  forall c d,
  cur_simple c ->
  let c' := fst (process_command c d) in let its := unit_items c d in
  W c' = W c ++ render (first_output c) 0 its /\ Fl c' = Fl c /\
  first_output c' = first_output c && is_nil its /\ cmds c' = cmds c.
Proof. exact (@Framing2.unit_framing). Qed.
End T_unit_framing.
Definition C06_unit_framing := @T_unit_framing.C06_unit_framing.

Module T_script_framing. Import Framing2. Local Open Scope bool_scope. Local Open Scope Z_scope.
Import ParserModel. Local Open Scope Z_scope.
Theorem C06_script_framing :
  forall s,
  forallb simple_op s = true -> forall c d,
  let c' := fst (run_script s c d) in let its := items_run s c d in
  first_output c' = first_output c /\ output_count c' = output_count c + Z.of_nat (length its) /\
  W c' = W c ++ render (first_output c) (output_count c) its /\ Fl c' = Fl c.
Proof. exact (@Framing2.script_framing). Qed.
End T_script_framing.
Definition C06_script_framing := @T_script_framing.C06_script_framing.

Module T_frame_closed. Import Framing2. Local Open Scope bool_scope. Local Open Scope Z_scope.
Import ParserModel. Local Open Scope Z_scope.
Theorem C06_frame_closed :
  forall units,
  frame_units true units = join [59%N] (map (join [44%N]) (filter nonempty units)).
Proof. exact (@Framing2.frame_closed). Qed.
End T_frame_closed.
Definition C06_frame_closed := @T_frame_closed.C06_frame_closed.

Module T_script_framing_streamed. Import Framing3. Local Open Scope bool_scope. Local Open Scope Z_scope.
Import ParserModel Framing2. Local Open Scope Z_scope.
Theorem C06_script_framing_streamed :
  forall l,
  Forall atom_ok l -> forall c d,
  let c' := fst (run_script (flat_map flat l) c d) in let its := aitems l c d in
  first_output c' = first_output c /\ output_count c' = output_count c + Z.of_nat (length its) /\
  W c' = W c ++ render (first_output c) (output_count c) its /\ Fl c' = Fl c.
Proof. exact (@Framing3.script_framing_streamed). Qed.
End T_script_framing_streamed.
Definition C06_script_framing_streamed := @T_script_framing_streamed.C06_script_framing_streamed.

Definition C06_framing_g := @Framing4.framing_g.

Definition C06_framing_streamed := @Framing4.framing_streamed.

Module T_tie_line_ending. Import Tie. Local Open Scope bool_scope. Local Open Scope Z_scope.
Local Open Scope Z_scope.
Theorem C06_tie_line_ending :
  Generated.gen_line_ending = [13; 10]%N.
Proof. exact (@Tie.tie_line_ending). Qed.
End T_tie_line_ending.
Definition C06_tie_line_ending := @T_tie_line_ending.C06_tie_line_ending.

Module T_array_steps. Import Framing3. Local Open Scope bool_scope. Local Open Scope Z_scope.
Import ParserModel Framing2. Local Open Scope Z_scope.
Local Open Scope Z_scope.
Theorem C06_array_steps :
  forall c size fmt vals,
  size_ok size -> Steps c (result_array c size fmt vals) (arr_items size fmt vals).
Proof. exact (@Framing3.array_steps). Qed.
End T_array_steps.
Definition C06_array_steps := @T_array_steps.C06_array_steps.

Module T_tie_widths. Import Tie. Local Open Scope bool_scope. Local Open Scope Z_scope.
Local Open Scope Z_scope.
Theorem C06_tie_widths :
  match Generated.gen_widths with
  | [oc; ic; wr; rd; cnt; sz] => 32 <= oc /\ 32 <= ic /\ 16 <= wr /\ 16 <= rd /\ 16 <= cnt /\ 16 <= sz
  | _ => False end.
Proof. exact (@Tie.tie_widths). Qed.
End T_tie_widths.
Definition C06_tie_widths := @T_tie_widths.C06_tie_widths.

Module T_result_double_whole. Import FpLen. Local Open Scope bool_scope. Local Open Scope Z_scope.
Import GFmt BufModel. Local Open Scope Z_scope.
Local Open Scope Z_scope.
Theorem C06_result_double_whole :
  forall bits,
  double_to_str bits 32 = (fmt_double 15 bits, true, Z.of_nat (length (fmt_double 15 bits)), false).
Proof. exact (@FpLen.result_double_whole). Qed.
End T_result_double_whole.
Definition C06_result_double_whole := @T_result_double_whole.C06_result_double_whole.

