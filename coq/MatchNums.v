(* C03, numbers half: with a numbers array matchCommand on a rendered pattern accepts the same headers (segments of
   letters and digits) and leaves in the array what the greedy item-level walk reports: the suffix of each numeric
   keyword that matched with digits, the caller's default for one matched without digits or skipped. *)
From Coq Require Import Bool List NArith ZArith Lia.
From M Require Import MatchModel MatchConc.
Import ListNotations.
Local Open Scope bool_scope.
Local Open Scope Z_scope.

Definition resb (o:outcome) : bool := match o with Res b _ => b end.
Definition resn (o:outcome) : option (list Z) := match o with Res _ n => n end.

(* ---------- characters ---------- *)
Definition alnum (c:N) : bool := isdigit c || isupper c || islower c.
Definition okseg2 (s:bytes) : Prop := forallb alnum s = true.
Definition yok (Y:bytes) : Prop := Y = [] \/ exists c R, Y = c :: R /\ isdigit c = false.

Lemma alnum_facts c : alnum c = true ->
  isspace c = false /\ (c =? 45)%N = false /\ (c =? 43)%N = false /\ (c =? 0)%N = false /\ cmd_seps c = false.
Proof.
  unfold alnum, isdigit, isupper, islower, isspace, inr, cmd_seps. intros H.
  destruct (N.eqb_spec c 32), (N.eqb_spec c 45), (N.eqb_spec c 43), (N.eqb_spec c 0), (N.eqb_spec c 58), (N.eqb_spec c 63); subst; cbn in H; try discriminate.
  cbn [orb]. repeat split; try reflexivity.
  destruct (N.leb_spec 9 c), (N.leb_spec c 13); cbn [andb]; try reflexivity.
  destruct (N.leb_spec 48 c), (N.leb_spec 65 c), (N.leb_spec 97 c); cbn in H; try discriminate; lia.
Qed.
Lemma okseg2_okseg s : okseg2 s -> okseg s.
Proof. unfold okseg2, okseg, nosep. rewrite !forallb_forall. intros H c Hc. destruct (alnum_facts c (H c Hc)) as (_ & _ & _ & H0 & Hs). now rewrite H0, Hs. Qed.
Lemma okseg2_skipn s n : okseg2 s -> okseg2 (skipn n s).
Proof. unfold okseg2. rewrite !forallb_forall. intros H c Hc. apply H. revert Hc. clear. revert s. induction n as [|n IH]; intros [|x s]; cbn; auto. Qed.

(* ---------- strtol on the suffix does not depend on what follows the segment ---------- *)
Lemma digits_val_app r : forall Y acc n, yok Y -> digits_val (r ++ Y) acc n = digits_val r acc n.
Proof.
  induction r as [|c r IH]; intros Y acc n HY; cbn [app digits_val].
  - destruct HY as [->|(c & R & -> & H)]; cbn [digits_val]; [reflexivity|now rewrite H].
  - destruct (isdigit c); [now apply IH|reflexivity].
Qed.
Lemma strtol10_app r Y : r <> [] -> alnum (hd 0%N r) = true -> yok Y -> strtol10 (r ++ Y) = strtol10 r.
Proof.
  intros Hne Ha HY. destruct r as [|c r]; [congruence|]. cbn [hd] in Ha.
  destruct (alnum_facts c Ha) as (Hsp & H45 & H43 & _).
  unfold strtol10. cbn [app skip_space]. rewrite Hsp. cbn [hd]. rewrite H45, H43. cbn [orb].
  change (c :: r ++ Y) with ((c :: r) ++ Y). rewrite digits_val_app by assumption. reflexivity.
Qed.
Lemma digits_val_count r : forall acc n,
  n <= snd (digits_val r acc n) <= n + Z.of_nat (length r) /\
  (snd (digits_val r acc n) = n + Z.of_nat (length r) <-> alldigits (length r) r = true).
Proof.
  induction r as [|c r IH]; intros acc n; cbn [digits_val alldigits length].
  - cbn. split; [lia|]. split; [reflexivity|lia].
  - destruct (isdigit c); cbn [andb snd].
    + destruct (IH (acc * 10 + (Z.of_N c - 48)) (n + 1)) as [H1 H2]. rewrite Nat2Z.inj_succ. split; [lia|].
      rewrite <- H2. lia.
    + rewrite Nat2Z.inj_succ. split; [lia|]. split; [lia|discriminate].
Qed.

Lemma compareStrAndNum_appN p l1 s X Y wn : 0 <= l1 <= Z.of_nat (length p) -> okseg2 s -> yok Y ->
  compareStrAndNum (p ++ X) l1 (s ++ Y) (Z.of_nat (length s)) wn = compareStrAndNum p l1 s (Z.of_nat (length s)) wn.
Proof.
  intros H Hs HY. destruct wn; [|now apply compareStrAndNum_app].
  unfold compareStrAndNum. destruct (Z.ltb_spec (Z.of_nat (length s)) l1); [reflexivity|].
  rewrite caseeq_app by lia. destruct (caseeq (Z.to_nat l1) p s); [|reflexivity].
  destruct (Z.eqb_spec l1 (Z.of_nat (length s))); [reflexivity|].
  rewrite dropz_app_l by lia. rewrite strtol10_app; [reflexivity| | |exact HY].
  - unfold dropz. intro E. apply (f_equal (@length N)) in E. rewrite skipn_length in E. cbn in E. lia.
  - pose proof (okseg2_skipn s (Z.to_nat l1) Hs) as Hk. unfold dropz.
    destruct (skipn (Z.to_nat l1) s) as [|c r] eqn:E.
    + apply (f_equal (@length N)) in E. rewrite skipn_length in E. cbn in E. lia.
    + cbn [hd]. unfold okseg2 in Hk. cbn in Hk. now apply andb_prop in Hk as [Hk _].
Qed.
Lemma matchPattern_appN p s X Y wn : p <> [] -> okseg2 s -> yok Y ->
  matchPattern (p ++ X) (Z.of_nat (length p)) (s ++ Y) (Z.of_nat (length s)) wn =
  matchPattern p (Z.of_nat (length p)) s (Z.of_nat (length s)) wn.
Proof.
  intros Hp Hs HY. assert (Hl : 0 < Z.of_nat (length p)) by (destruct p; [congruence|cbn [length]; lia]).
  unfold matchPattern. rewrite get_app_l by lia.
  destruct ((0 <? Z.of_nat (length p)) && (get p (Z.of_nat (length p) - 1) =? 35)%N).
  - rewrite short_pos_app by lia.
    pose proof (short_pos_le (Z.to_nat (Z.of_nat (length p) - 1)) p) as Hsp.
    rewrite !compareStrAndNum_appN by (try assumption; lia). reflexivity.
  - rewrite short_pos_app by lia.
    pose proof (short_pos_le (Z.to_nat (Z.of_nat (length p))) p) as Hsp.
    rewrite !compareStr_app by lia. reflexivity.
Qed.

(* acceptance does not depend on whether a number is wanted, for segments of letters and digits *)
Lemma compareStrAndNum_fst p l1 s : 0 <= l1 -> okseg2 s ->
  fst (compareStrAndNum p l1 s (Z.of_nat (length s)) true) = fst (compareStrAndNum p l1 s (Z.of_nat (length s)) false).
Proof.
  intros H0 Hs. unfold compareStrAndNum. destruct (Z.ltb_spec (Z.of_nat (length s)) l1); [reflexivity|].
  destruct (caseeq (Z.to_nat l1) p s); [|reflexivity].
  destruct (Z.eqb_spec l1 (Z.of_nat (length s))) as [E|NE].
  - rewrite E, Z.sub_diag. reflexivity.
  - set (r := dropz l1 s).
    assert (Hlen : Z.of_nat (length r) = Z.of_nat (length s) - l1) by (unfold r, dropz; rewrite skipn_length; lia).
    assert (Hr : okseg2 r) by (apply okseg2_skipn; exact Hs).
    replace (Z.to_nat (Z.of_nat (length s) - l1)) with (length r) by lia.
    destruct r as [|c r'] eqn:Er; [cbn [length] in Hlen; lia|].
    assert (Ha : alnum c = true) by (unfold okseg2 in Hr; cbn in Hr; now apply andb_prop in Hr as [Hr _]).
    destruct (alnum_facts c Ha) as (Hsp & H45 & H43 & _).
    unfold strtol10. cbn [skip_space]. rewrite Hsp. cbn [hd]. rewrite H45, H43. cbn [orb].
    destruct (digits_val_count (c :: r') 0 0) as [Hb Hiff].
    destruct (digits_val (c :: r') 0 0) as [v nd]. cbn [snd] in Hb, Hiff.
    destruct (alldigits (length (c :: r')) (c :: r')) eqn:Hall.
    + assert (nd = Z.of_nat (length (c :: r'))) by (apply Hiff; reflexivity).
      destruct (Z.eqb_spec nd 0); [lia|]. cbn [fst snd].
      destruct (Z.eqb_spec (l1 + (0 + 0 + nd)) (Z.of_nat (length s))); [reflexivity|lia].
    + assert (nd <> Z.of_nat (length (c :: r'))) by (intro E; apply Hiff in E; discriminate).
      destruct (Z.eqb_spec nd 0).
      * destruct (Z.eqb_spec (l1 + 0) (Z.of_nat (length s))); [lia|reflexivity].
      * destruct (Z.eqb_spec (l1 + (0 + 0 + nd)) (Z.of_nat (length s))); [lia|reflexivity].
Qed.
Lemma matchPattern_fst p s : okseg2 s ->
  fst (matchPattern p (Z.of_nat (length p)) s (Z.of_nat (length s)) true) = fst (matchPattern p (Z.of_nat (length p)) s (Z.of_nat (length s)) false).
Proof.
  intros Hs. unfold matchPattern.
  destruct ((0 <? Z.of_nat (length p)) && (get p (Z.of_nat (length p) - 1) =? 35)%N) eqn:E; [|reflexivity].
  apply andb_prop in E as [E _]. apply Z.ltb_lt in E.
  pose proof (short_pos_le (Z.to_nat (Z.of_nat (length p) - 1)) p) as Hsp.
  pose proof (compareStrAndNum_fst p (Z.of_nat (length p) - 1) s ltac:(lia) Hs) as H1.
  pose proof (compareStrAndNum_fst p (short_pos (Z.to_nat (Z.of_nat (length p) - 1)) p) s ltac:(lia) Hs) as H2.
  destruct (compareStrAndNum p (Z.of_nat (length p) - 1) s (Z.of_nat (length s)) true) as [a1 v1].
  destruct (compareStrAndNum p (Z.of_nat (length p) - 1) s (Z.of_nat (length s)) false) as [a2 v2].
  cbn [fst] in H1. subst a2. destruct a1; [reflexivity|exact H2].
Qed.

(* ---------- what one pattern item does to the numbers array ---------- *)
Definition slot_of (it:item) (nums:option (list Z)) (nidx:Z) : bool := num it && hasslot nums nidx.
Definition dflt1 (it:item) (nums:option (list Z)) (nidx dflt:Z) : option (list Z) :=
  if slot_of it nums nidx then setnum nums nidx dflt else nums.
Definition nidx1 (it:item) (nidx:Z) : Z := if num it then nidx + 1 else nidx.
Fixpoint defaults (its:list item) (nums:option (list Z)) (nidx dflt:Z) : option (list Z) :=
  match its with [] => nums | it :: r => defaults r (dflt1 it nums nidx dflt) (nidx1 it nidx) dflt end.

Lemma body_last it X : okname (nm it) ->
  ((0 <? Z.of_nat (length (body it))) && (get (body it ++ X) (Z.of_nat (length (body it)) - 1) =? 35)%N) = num it.
Proof.
  intros Hn. pose proof (body_ne it Hn) as Hb.
  assert (Hl : 0 < Z.of_nat (length (body it))) by (destruct (body it); [congruence|cbn [length]; lia]).
  destruct (Z.ltb_spec 0 (Z.of_nat (length (body it)))); [|lia]. cbn [andb].
  rewrite get_app_l by lia. unfold body in *. destruct (num it).
  - rewrite app_length. cbn [length]. rewrite get_app_r by lia.
    replace (Z.of_nat (length (nm it) + 1) - 1 - Z.of_nat (length (nm it))) with 0 by lia. reflexivity.
  - rewrite app_nil_r in *. destruct Hn as [Hne Hall]. rewrite forallb_forall in Hall.
    assert (Hin : In (get (nm it) (Z.of_nat (length (nm it)) - 1)) (nm it)).
    { unfold get. destruct (Z.ltb_spec (Z.of_nat (length (nm it)) - 1) 0); [lia|]. apply nth_In. lia. }
    destruct (letter_facts _ (Hall _ Hin)) as (_ & _ & _ & _ & _ & H35). exact H35.
Qed.

Lemma tail_loop_fst f : forall p plen br nums nidx dflt,
  fst (tail_loop f p plen br nums nidx dflt) = tail_loop0 f p plen br.
Proof.
  induction f as [|f IH]; intros p plen br nums nidx dflt; [reflexivity|].
  cbn [tail_loop tail_loop0]. destruct (plen =? 0); [reflexivity|]. cbv zeta.
  destruct ((if (get p (sep_or_len pat_seps plen p) =? 91)%N then br + 1
             else if (get p (sep_or_len pat_seps plen p) =? 93)%N then br - 1 else br) =? 0).
  - destruct ((0 <? plen - (sep_or_len pat_seps plen p + 1)) && (get (dropz (sep_or_len pat_seps plen p + 1) p) 0 =? 91)%N); [apply IH|reflexivity].
  - apply IH.
Qed.

Lemma tailN_step_sep f c R plen br nums nidx dflt : 0 < plen -> pat_seps c = true -> c <> 0%N ->
  tail_loop (S f) (c :: R) plen br nums nidx dflt =
  let br' := if (c =? 91)%N then br + 1 else if (c =? 93)%N then br - 1 else br in
  if br' =? 0 then (if (0 <? plen - 1) && (get R 0 =? 91)%N then tail_loop f R (plen - 1) br' nums nidx dflt else (plen - 1, nums))
  else tail_loop f R (plen - 1) br' nums nidx dflt.
Proof.
  intros Hp Hc Hc0. cbn [tail_loop]. destruct (Z.eqb_spec plen 0); [lia|].
  assert (S1 : sep_or_len pat_seps plen (c :: R) = 0).
  { apply (sep_or_len_run pat_seps [] (c :: R) plen); [reflexivity|cbn; lia|]. right. exists c, R. auto. }
  rewrite S1. change (0 <? 0) with false. cbn [andb]. rewrite get_cons0. change (0 + 1) with 1. rewrite dropz1. reflexivity.
Qed.

Lemma tailN_step_body f it R plen br nums nidx dflt : okname (nm it) -> Z.of_nat (length (body it)) < plen ->
  tail_loop (S f) (body it ++ 93%N :: R) plen br nums nidx dflt =
  let plen' := plen - (Z.of_nat (length (body it)) + 1) in
  let nums1 := dflt1 it nums nidx dflt in let n1 := nidx1 it nidx in
  if br - 1 =? 0 then (if (0 <? plen') && (get R 0 =? 91)%N then tail_loop f R plen' (br - 1) nums1 n1 dflt else (plen', nums1))
  else tail_loop f R plen' (br - 1) nums1 n1 dflt.
Proof.
  intros Hn Hl. cbn [tail_loop]. destruct (Z.eqb_spec plen 0); [lia|].
  assert (S3 : sep_or_len pat_seps plen (body it ++ 93%N :: R) = Z.of_nat (length (body it))).
  { apply sep_or_len_run; [now apply body_nosep|lia|]. right. exists 93%N, R. repeat split; reflexivity || discriminate. }
  rewrite S3. rewrite body_last by exact Hn. rewrite get_app_at, get_cons0. cbn [N.eqb Pos.eqb].
  replace (dropz (Z.of_nat (length (body it)) + 1) (body it ++ 93%N :: R)) with R.
  2:{ unfold dropz. replace (Z.to_nat (Z.of_nat (length (body it)) + 1)) with (length (body it) + 1)%nat by lia.
      rewrite skipn_app. rewrite skipn_all2 by lia. replace (length (body it) + 1 - length (body it))%nat with 1%nat by lia. reflexivity. }
  unfold dflt1, nidx1, slot_of. reflexivity.
Qed.

Definition afterN (f:nat) (R:bytes) (plen:Z) nums nidx dflt : Z * option (list Z) :=
  if (0 <? plen) && (get R 0 =? 91)%N then tail_loop f R plen 0 nums nidx dflt else (plen, nums).

Lemma tailN_opt f it R plen nums nidx dflt : okname (nm it) -> opt it = true -> Z.of_nat (length (rnext it)) <= plen ->
  tail_loop (S (S (S f))) (rnext it ++ R) plen 0 nums nidx dflt =
  afterN f R (plen - Z.of_nat (length (rnext it))) (dflt1 it nums nidx dflt) (nidx1 it nidx) dflt.
Proof.
  intros Hn Ho Hl. unfold rnext in *. rewrite Ho in *. cbn [app length] in *. rewrite app_length in Hl. cbn [length] in Hl.
  assert (Hb : 0 < Z.of_nat (length (body it))) by (pose proof (body_ne it Hn); destruct (body it); [congruence|cbn [length]; lia]).
  rewrite tailN_step_sep by (try reflexivity; try discriminate; lia). cbn [N.eqb Pos.eqb]. cbn zeta. change (0 + 1 =? 0) with false. cbn iota.
  rewrite tailN_step_sep by (try reflexivity; try discriminate; lia). cbn [N.eqb Pos.eqb]. cbn zeta. change (0 + 1 =? 0) with false. cbn iota.
  rewrite <- app_assoc. cbn [app].
  rewrite tailN_step_body by (try exact Hn; lia). cbn zeta. change (0 + 1 - 1 =? 0) with true. cbn iota.
  unfold afterN. rewrite app_length. cbn [length].
  replace (plen - 1 - 1 - (Z.of_nat (length (body it)) + 1)) with (plen - Z.of_nat (S (S (length (body it) + 1)))) by lia.
  reflexivity.
Qed.

Lemma afterN_all its : forall f qm nums nidx dflt, wf its -> okq qm -> tlen its < Z.of_nat f -> forallb opt its = true ->
  snd (afterN f (tailp its qm) (tlen its) nums nidx dflt) = defaults its nums nidx dflt.
Proof.
  induction its as [|it its IH]; intros f qm nums nidx dflt Hw Hq Hf Hall.
  - unfold afterN, tlen. cbn. reflexivity.
  - inversion Hw as [|? ? Hn Hw']; subst. rewrite tlen_cons, tailp_cons. cbn [forallb] in Hall. apply andb_prop in Hall as [Ho Hall].
    pose proof (tlen_nonneg its) as Ht.
    assert (Hr4 : 4 <= Z.of_nat (length (rnext it))).
    { unfold rnext. rewrite Ho. cbn [length]. rewrite app_length. cbn [length].
      pose proof (body_ne it Hn). destruct (body it); [congruence|cbn [length]; lia]. }
    unfold afterN. destruct (Z.ltb_spec 0 (Z.of_nat (length (rnext it)) + tlen its)); [|lia]. cbn [andb].
    assert (Hg : get (rnext it ++ tailp its qm) 0 = 91%N) by (unfold rnext; rewrite Ho; reflexivity).
    rewrite Hg. cbn [N.eqb Pos.eqb].
    rewrite tlen_cons in Hf.
    destruct f as [|[|[|f]]]; try lia.
    rewrite tailN_opt by (try assumption; lia).
    replace (Z.of_nat (length (rnext it)) + tlen its - Z.of_nat (length (rnext it))) with (tlen its) by lia.
    cbn [defaults]. apply IH; try assumption. lia.
Qed.

Lemma tailN_entry it its qm f nums nidx dflt : okname (nm it) -> wf its -> okq qm ->
  Z.of_nat (length (close it)) + tlen its <> 0 -> Z.of_nat (length (close it)) + tlen its < Z.of_nat f ->
  forallb opt its = true ->
  snd (tail_loop f (close it ++ tailp its qm) (Z.of_nat (length (close it)) + tlen its) (brof it) nums nidx dflt) = defaults its nums nidx dflt.
Proof.
  intros Hn Hw Hq Hnz Hf Hall. pose proof (tlen_nonneg its) as Ht. unfold close, brof in *. destruct (opt it) eqn:Ho; cbn [app length] in *.
  - destruct f as [|f]; [lia|].
    rewrite tailN_step_sep by (try reflexivity; try discriminate; lia). cbn [N.eqb Pos.eqb]. cbn zeta. change (1 - 1 =? 0) with true. cbn iota.
    replace (Z.of_nat 1 + tlen its - 1) with (tlen its) by lia.
    change (if (0 <? tlen its) && (get (tailp its qm) 0 =? 91)%N then tail_loop f (tailp its qm) (tlen its) (1 - 1) nums nidx dflt else (tlen its, nums))
      with (afterN f (tailp its qm) (tlen its) nums nidx dflt).
    apply afterN_all; try assumption. lia.
  - destruct its as [|it2 its2]; [unfold tlen in Hnz; cbn in Hnz; lia|].
    inversion Hw as [|? ? Hn2 Hw2]; subst. rewrite tailp_cons. rewrite tlen_cons in *. cbn [forallb] in Hall. apply andb_prop in Hall as [Ho2 Hall].
    change (Z.of_nat 0) with 0 in *. rewrite Z.add_0_l in *.
    assert (Hr4 : 4 <= Z.of_nat (length (rnext it2))).
    { unfold rnext. rewrite Ho2. cbn [length]. rewrite app_length. cbn [length].
      pose proof (body_ne it2 Hn2). destruct (body it2); [congruence|cbn [length]; lia]. }
    pose proof (tlen_nonneg its2).
    destruct f as [|[|[|f]]]; try lia.
    rewrite tailN_opt by (try assumption; lia).
    replace (Z.of_nat (length (rnext it2)) + tlen its2 - Z.of_nat (length (rnext it2))) with (tlen its2) by lia.
    cbn [defaults]. apply afterN_all; try assumption. lia.
Qed.

(* ---------- one keyword against one segment ---------- *)
Definition seg_res (it:item) (s:bytes) (wn:bool) : bool * option Z :=
  matchPattern (body it) (Z.of_nat (length (body it))) s (Z.of_nat (length s)) wn.
Lemma seg_res_fst it s wn : okseg2 s -> fst (seg_res it s wn) = seg_ok it s.
Proof. intros Hs. unfold seg_res, seg_ok. destruct wn; [now apply matchPattern_fst|reflexivity]. Qed.
Definition upd (it:item) (s:bytes) (nums:option (list Z)) (nidx dflt:Z) : option (list Z) :=
  let slot := slot_of it nums nidx in
  let nums1 := dflt1 it nums nidx dflt in
  match snd (seg_res it s slot) with Some x => if slot then setnum nums1 nidx x else nums1 | None => nums1 end.
(* the array on the accepting path of the greedy walk *)
Fixpoint greedyN (its:list item) (ss:list bytes) (nums:option (list Z)) (nidx dflt:Z) : option (list Z) :=
  match its with
  | [] => nums
  | it :: its' =>
      match ss with
      | [] => defaults its nums nidx dflt
      | s :: ss' => if seg_ok it s then greedyN its' ss' (upd it s nums nidx dflt) (nidx1 it nidx) dflt
                    else greedyN its' ss (dflt1 it nums nidx dflt) (nidx1 it nidx) dflt
      end
  end.
Definition spec_ok (o:outcome) (b:bool) (n:option (list Z)) : Prop := resb o = b /\ (b = true -> resn o = n).

Lemma yok_tailc ss qm : okq qm -> yok (tailc ss qm).
Proof. intros Hq. destruct ss as [|s ss].
  - unfold tailc. cbn. destruct Hq as [->| ->]; [now left|right; eexists _, _; split; reflexivity].
  - right. rewrite tailc_cons. eexists _, _; split; reflexivity. Qed.

Lemma loop_stepN it its seg ss f qm qm' br result nums nidx dflt :
  okname (nm it) -> wf its -> okq qm -> okq qm' -> okseg2 seg ->
  match_loop (S f) (headp it its qm) (hplen it its) (seg ++ tailc ss qm') (Z.of_nat (length seg) + clen_of ss) br result nums nidx dflt =
  let nums1 := dflt1 it nums nidx dflt in
  let n1 := nidx1 it nidx in
  let P1 := close it ++ tailp its qm in
  let plen1 := Z.of_nat (length (close it)) + tlen its in
  let C1 := tailc ss qm' in
  let clen1 := clen_of ss in
  if seg_ok it seg then
    let nums2 := upd it seg nums nidx dflt in
    if (plen1 =? 0) && (clen1 =? 0) then Res true nums2
    else if (plen1 =? 0) then Res false nums2
    else if (clen1 =? 0) then Res (fst (tail_loop (S (Z.to_nat plen1)) P1 plen1 br nums2 n1 dflt) =? 0) (snd (tail_loop (S (Z.to_nat plen1)) P1 plen1 br nums2 n1 dflt))
    else
      let p0 := get P1 0 in let p1c := get P1 1 in let p2c := get P1 2 in let c0 := get C1 0 in
      if (0 <? plen1) && (p0 =? c0)%N && (p0 =? 58)%N then
        match_loop f (dropz 1 P1) (plen1-1) (dropz 1 C1) (clen1-1) br true nums2 n1 dflt
      else if (1 <? plen1) && (p1c =? c0)%N && (p0 =? 91)%N && (p1c =? 58)%N then
        match_loop f (dropz 2 P1) (plen1-2) (dropz 1 C1) (clen1-1) (br+1) true nums2 n1 dflt
      else if (1 <? plen1) && (p1c =? c0)%N && (p0 =? 93)%N && (p1c =? 58)%N then
        match_loop f (dropz 2 P1) (plen1-2) (dropz 1 C1) (clen1-1) (br-1) true nums2 n1 dflt
      else if (2 <? plen1) && (p2c =? c0)%N && (p0 =? 93)%N && (p1c =? 91)%N && (p2c =? 58)%N then
        match_loop f (dropz 3 P1) (plen1-3) (dropz 1 C1) (clen1-1) br true nums2 n1 dflt
      else Res false nums2
  else
    if (get P1 0 =? 93)%N && (get P1 1 =? 58)%N then
      match_loop f (dropz 2 P1) (plen1-2) (seg ++ tailc ss qm') (Z.of_nat (length seg) + clen_of ss) (br-1) result nums1 n1 dflt
    else if (2 <? plen1) && (get P1 0 =? 93)%N && (get P1 1 =? 91)%N && (get P1 2 =? 58)%N then
      match_loop f (dropz 3 P1) (plen1-3) (seg ++ tailc ss qm') (Z.of_nat (length seg) + clen_of ss) br result nums1 n1 dflt
    else Res false nums1.
Proof.
  intros Hn Hw Hq Hq' Hs2. pose proof (okseg2_okseg seg Hs2) as Hs.
  cbn [match_loop]. rewrite psp_head by assumption. rewrite csp_head by assumption.
  assert (Hisnum : ((0 <? Z.of_nat (length (body it))) && (get (headp it its qm) (Z.of_nat (length (body it)) - 1) =? 35)%N) = num it)
    by (unfold headp; now apply body_last).
  rewrite Hisnum.
  assert (Hmp : forall wn, matchPattern (headp it its qm) (Z.of_nat (length (body it))) (seg ++ tailc ss qm') (Z.of_nat (length seg)) wn = seg_res it seg wn).
  { intro wn. unfold headp, seg_res. apply matchPattern_appN; [now apply body_ne|exact Hs2|now apply yok_tailc]. }
  rewrite Hmp.
  assert (Hp1 : dropz (Z.of_nat (length (body it))) (headp it its qm) = close it ++ tailp its qm) by (unfold headp; apply dropz_app).
  assert (Hc1 : dropz (Z.of_nat (length seg)) (seg ++ tailc ss qm') = tailc ss qm') by apply dropz_app.
  rewrite !Hp1, !Hc1.
  replace (hplen it its - Z.of_nat (length (body it))) with (Z.of_nat (length (close it)) + tlen its) by (unfold hplen; lia).
  replace (Z.of_nat (length seg) + clen_of ss - Z.of_nat (length seg)) with (clen_of ss) by lia.
  pose proof (seg_res_fst it seg (num it && hasslot nums nidx) Hs2) as Hfst.
  cbv zeta. unfold upd, dflt1, nidx1, slot_of.
  destruct (seg_res it seg (num it && hasslot nums nidx)) as [m v]. cbn [fst snd] in *. subst m.
  destruct (seg_ok it seg); [|reflexivity].
  destruct ((Z.of_nat (length (close it)) + tlen its =? 0) && (clen_of ss =? 0)); [reflexivity|].
  destruct (Z.of_nat (length (close it)) + tlen its =? 0); [reflexivity|].
  destruct (clen_of ss =? 0); [|reflexivity].
  match goal with |- (let '(pl, nm) := ?X in _) = _ => destruct X as [pl nm0] end. reflexivity.
Qed.

(* ---------- the main loop with a numbers array ---------- *)
Lemma spec_ok_false o n : resb o = false -> spec_ok o false n.
Proof. intros H. split; [exact H|discriminate]. Qed.
Lemma spec_ok_true nn n : nn = n -> spec_ok (Res true nn) true n.
Proof. intros ->. split; [reflexivity|reflexivity]. Qed.

Lemma loop_specN : forall its it seg ss fuel qm qm' result nums nidx dflt,
  okname (nm it) -> wf its -> okq qm -> okq qm' -> okseg2 seg -> Forall okseg2 ss -> (length its < fuel)%nat ->
  spec_ok (match_loop fuel (headp it its qm) (hplen it its) (seg ++ tailc ss qm') (Z.of_nat (length seg) + clen_of ss) (brof it) result nums nidx dflt)
          (greedy (it :: its) (seg :: ss)) (greedyN (it :: its) (seg :: ss) nums nidx dflt).
Proof.
  induction its as [|it2 its2 IH]; intros it seg ss fuel qm qm' result nums nidx dflt Hn Hw Hq Hq' Hs Hss Hf;
  (destruct fuel as [|fuel]; [lia|]); rewrite loop_stepN by assumption; cbv zeta; cbn [greedy greedyN];
  pose proof (clen_nonneg ss) as Hcl.
  - (* last item *)
    unfold tlen, tailp. cbn [map concat length app]. rewrite Z.add_0_r.
    destruct (seg_ok it seg).
    + unfold close, brof. destruct (opt it) eqn:Ho; cbn [length app].
      * change (Z.of_nat 1 =? 0) with false. cbn [andb].
        destruct ss as [|s' ss'].
        -- change (clen_of [] =? 0) with true. cbn iota.
           rewrite tailN_step_sep by (try reflexivity; try discriminate; lia). cbn [N.eqb Pos.eqb]. cbn zeta.
           change (1 - 1 =? 0) with true. cbn iota. change (0 <? Z.of_nat 1 - 1) with false. cbn [andb fst snd].
           apply spec_ok_true. reflexivity.
        -- rewrite clen_cons. destruct (Z.eqb_spec (1 + Z.of_nat (length s') + clen_of ss') 0); [pose proof (clen_nonneg ss'); lia|].
           rewrite tailc_cons. rewrite !get_cons0. apply spec_ok_false. destruct Hq as [->| ->]; reflexivity.
      * change (Z.of_nat 0 =? 0) with true. cbn [andb]. destruct ss as [|s' ss'].
        -- apply spec_ok_true. reflexivity.
        -- rewrite clen_cons. destruct (Z.eqb_spec (1 + Z.of_nat (length s') + clen_of ss') 0); [pose proof (clen_nonneg ss'); lia|].
           apply spec_ok_false. reflexivity.
    + unfold close. destruct (opt it) eqn:Ho; cbn [app length].
      * rewrite get_cons0. cbn [N.eqb Pos.eqb andb]. apply spec_ok_false. destruct Hq as [->| ->]; reflexivity.
      * apply spec_ok_false. destruct Hq as [->| ->]; reflexivity.
  - (* at least one more item *)
    inversion Hw as [|? ? Hn2 Hw2]; subst.
    rewrite tailp_head.
    assert (Hpl : Z.of_nat (length (close it)) + tlen (it2 :: its2) = Z.of_nat (length (close it)) + Z.of_nat (length (lead it2)) + hplen it2 its2).
    { rewrite tlen_head. lia. }
    rewrite !Hpl.
    assert (Hh2 : 0 < hplen it2 its2).
    { unfold hplen. pose proof (tlen_nonneg its2). pose proof (body_ne it2 Hn2). destruct (body it2); [congruence|cbn [length]; lia]. }
    assert (Hfu : (length its2 < fuel)%nat) by (cbn [length] in Hf; lia).
    destruct (seg_ok it seg).
    + (* matched: commit *)
      assert (Hnz : (Z.of_nat (length (close it)) + Z.of_nat (length (lead it2)) + hplen it2 its2 =? 0) = false) by (apply Z.eqb_neq; lia).
      rewrite Hnz. cbn [andb].
      destruct ss as [|s' ss'].
      * change (clen_of [] =? 0) with true. cbn iota.
        rewrite <- tailp_head.
        replace (Z.of_nat (length (close it)) + Z.of_nat (length (lead it2)) + hplen it2 its2) with (Z.of_nat (length (close it)) + tlen (it2 :: its2)) by (rewrite tlen_head; lia).
        split; cbn [resb resn].
        -- rewrite tail_loop_fst. apply tail_entry; try assumption.
           ++ rewrite tlen_head. lia.
           ++ rewrite tlen_head. lia.
        -- intros Hall. apply tailN_entry; try assumption.
           ++ rewrite tlen_head. lia.
           ++ rewrite tlen_head. lia.
      * rewrite clen_cons. inversion Hss as [|? ? Hs' Hss']; subst.
        destruct (Z.eqb_spec (1 + Z.of_nat (length s') + clen_of ss') 0); [pose proof (clen_nonneg ss'); lia|].
        rewrite tailc_cons.
        replace (1 + Z.of_nat (length s') + clen_of ss' - 1) with (Z.of_nat (length s') + clen_of ss') by lia.
        unfold close, lead, brof. destruct (opt it) eqn:Ho, (opt it2) eqn:Ho2; cbn [app length];
        rewrite ?get_cons0, ?get_cons1, ?get_cons2, ?dropz1, ?dropz2, ?dropz3; cbn [N.eqb Pos.eqb andb];
        rewrite ?andb_false_r; cbn [andb].
        all: try (destruct (Z.ltb_spec 2 (Z.of_nat 1 + Z.of_nat 2 + hplen it2 its2)); [|lia]);
             try (destruct (Z.ltb_spec 1 (Z.of_nat 1 + Z.of_nat 1 + hplen it2 its2)); [|lia]);
             try (destruct (Z.ltb_spec 1 (Z.of_nat 0 + Z.of_nat 2 + hplen it2 its2)); [|lia]);
             try (destruct (Z.ltb_spec 0 (Z.of_nat 0 + Z.of_nat 1 + hplen it2 its2)); [|lia]);
             cbn [andb];
             repeat match goal with |- context [?a + ?b + hplen ?i ?l - ?k] =>
               replace (a + b + hplen i l - k) with (hplen i l) by lia end;
             match goal with |- spec_ok (match_loop _ _ _ _ _ ?b ?r ?nu ?nx _) _ _ =>
               pose proof (IH it2 s' ss' fuel qm qm' r nu nx dflt Hn2 Hw2 Hq Hq' Hs' Hss' Hfu) as HI end;
             unfold brof in HI; rewrite Ho2 in HI; cbn [greedy greedyN] in HI; rewrite ?Ho2 in HI; exact HI.
    + (* mismatch: skip the item if it is optional *)
      unfold close, lead, brof. destruct (opt it) eqn:Ho, (opt it2) eqn:Ho2; cbn [app length];
      rewrite ?get_cons0, ?get_cons1, ?get_cons2, ?dropz2, ?dropz3; cbn [N.eqb Pos.eqb andb];
      rewrite ?andb_false_r; cbn [andb].
      * destruct (Z.ltb_spec 2 (Z.of_nat 1 + Z.of_nat 2 + hplen it2 its2)); [|lia]. cbn [andb].
        replace (Z.of_nat 1 + Z.of_nat 2 + hplen it2 its2 - 3) with (hplen it2 its2) by lia.
        match goal with |- spec_ok (match_loop _ _ _ _ _ ?b ?r ?nu ?nx _) _ _ =>
          pose proof (IH it2 seg ss fuel qm qm' r nu nx dflt Hn2 Hw2 Hq Hq' Hs Hss Hfu) as HI end.
        unfold brof in HI; rewrite Ho2 in HI; cbn [greedy greedyN] in HI; rewrite ?Ho2 in HI. exact HI.
      * replace (Z.of_nat 1 + Z.of_nat 1 + hplen it2 its2 - 2) with (hplen it2 its2) by lia.
        match goal with |- spec_ok (match_loop _ _ _ _ _ ?b ?r ?nu ?nx _) _ _ =>
          pose proof (IH it2 seg ss fuel qm qm' r nu nx dflt Hn2 Hw2 Hq Hq' Hs Hss Hfu) as HI end.
        unfold brof in HI; rewrite Ho2 in HI; cbn [greedy greedyN] in HI; rewrite ?Ho2 in HI. exact HI.
      * (* mandatory item does not match *)
        assert (Hg : (get (headp it2 its2 qm) 0 =? 93)%N = false).
        { unfold headp. rewrite get_app_l by (pose proof (body_ne it2 Hn2); destruct (body it2); [congruence|cbn [length]; lia]).
          destruct (letter_facts _ (body_first_letter it2 Hn2)) as (_ & _ & _ & H93 & _). exact H93. }
        apply spec_ok_false. reflexivity.
      * apply spec_ok_false. reflexivity.
Qed.
Print Assumptions loop_specN.

(* ---------- the whole function: the prologue of matchCommand, for any numbers argument ---------- *)
Lemma matchCommand_loop it its q lead seg ss hq nums dflt :
  okname (nm it) -> wf its -> okseg seg -> Forall okseg ss -> seg <> [] -> get seg 0 <> 42%N ->
  (q = false -> hq = false) ->
  matchCommand (render it its q) (hdr lead seg ss hq) nums dflt =
  if q && negb hq then Res false nums else
  match_loop (S (length (render it its q) + length (hdr lead seg ss hq))) (headp it its (qmark q)) (hplen it its)
             (seg ++ tailc ss (qmark hq)) (Z.of_nat (length seg) + clen_of ss) (brof it) false nums 0 dflt.
Proof.
  intros Hn Hw Hs Hss Hne H42 Hqq.
  assert (Hb : 0 < Z.of_nat (length (body it))) by (pose proof (body_ne it Hn); destruct (body it); [congruence|cbn [length]; lia]).
  assert (Hsl : 0 < Z.of_nat (length seg)) by (destruct seg; [congruence|cbn [length]; lia]).
  pose proof (tlen_nonneg its) as Ht. pose proof (clen_nonneg ss) as Hc.
  set (pre := if opt it then [91%N; 58%N] else []).
  set (X := pre ++ headp it its []).
  set (Y := (if lead then [58%N] else []) ++ seg ++ tailc ss []).
  assert (HX : render it its q = X ++ qmark q).
  { unfold render, X, pre. destruct q; cbn [qmark]; [rewrite headp_q, app_assoc|rewrite app_nil_r]; reflexivity. }
  assert (HY : hdr lead seg ss hq = Y ++ qmark hq).
  { unfold hdr, Y. destruct hq; cbn [qmark]; [rewrite tailc_q, !app_assoc|rewrite app_nil_r]; reflexivity. }
  assert (HXne : X <> []) by (unfold X, pre, headp; destruct (opt it); [discriminate|]; destruct (body it); [cbn [length] in Hb; lia|discriminate]).
  assert (HYne : Y <> []) by (unfold Y; destruct lead; [discriminate|]; destruct seg; [congruence|discriminate]).
  assert (HXq : forall c, In c X -> c <> 63%N) by (apply pattern_no_q; assumption).
  assert (HYq : forall c, In c Y -> c <> 63%N).
  { intros c Hc'. unfold Y in Hc'. apply in_app_or in Hc' as [Hc'|Hc'].
    - destruct lead; cbn in Hc'; [destruct Hc' as [<-|[]]; discriminate|tauto].
    - apply in_app_or in Hc' as [Hc'|Hc']; [now apply (okseg_no_q seg Hs)|now apply (tailc_no_q ss Hss)]. }
  assert (HXlen : Z.of_nat (length X) = Z.of_nat (length pre) + hplen it its).
  { unfold X. rewrite app_length, Nat2Z.inj_add, headp_len. cbn [length]. lia. }
  assert (HYlen : Z.of_nat (length Y) = (if lead then 1 else 0) + Z.of_nat (length seg) + clen_of ss).
  { unfold Y. rewrite !app_length, !Nat2Z.inj_add, tailc_len. destruct lead; cbn [length]; lia. }
  unfold matchCommand. rewrite HX, HY. cbv zeta.
  assert (Hpq : (get (X ++ qmark q) (Z.of_nat (length (X ++ qmark q)) - 1) =? 63)%N = q).
  { destruct q; cbn [qmark]; [rewrite get_last_app; reflexivity|rewrite app_nil_r; now apply nosep_last_not_q]. }
  assert (Hcq : (get (Y ++ qmark hq) (Z.of_nat (length (Y ++ qmark hq)) - 1) =? 63)%N = hq).
  { destruct hq; cbn [qmark]; [rewrite get_last_app; reflexivity|rewrite app_nil_r; now apply nosep_last_not_q]. }
  repeat match goal with |- context [(get (X ++ qmark q) ?i =? 63)%N] => replace ((get (X ++ qmark q) i =? 63)%N) with q by (symmetry; exact Hpq) end.
  repeat match goal with |- context [(get (Y ++ qmark hq) ?i =? 63)%N] => replace ((get (Y ++ qmark hq) i =? 63)%N) with hq by (symmetry; exact Hcq) end.
  destruct q, hq; cbn [andb negb orb]; try (specialize (Hqq eq_refl); discriminate); try reflexivity.
  all: cbn [qmark]; rewrite ?app_nil_r; rewrite ?app_length; cbn [length]; rewrite ?Nat2Z.inj_add; change (Z.of_nat 1) with 1.
  all: pose proof (its_le_tlen its) as Hil.
  all: destruct (letter_facts _ (body_first_letter it Hn)) as (_ & _ & L91 & _ & L58 & _).
  all: assert (Hh0 : forall qm, get (headp it its qm) 0 = get (body it) 0)
         by (intro qm; unfold headp; apply get_app_l; lia).
  - (* query pattern, query header *)
    assert (EX : X ++ [63%N] = pre ++ headp it its [63%N]) by (unfold X; rewrite <- app_assoc, <- headp_q; reflexivity).
    assert (EY : Y ++ [63%N] = (if lead then [58%N] else []) ++ seg ++ tailc ss [63%N]) by (unfold Y; rewrite <- !app_assoc, <- tailc_q; reflexivity).
    rewrite !EX, !EY. rewrite HXlen, HYlen. unfold pre. clear EX EY.
    destruct (opt it) eqn:Ho; cbn [app length]; rewrite ?get_cons0, ?dropz1; cbn [N.eqb Pos.eqb];
    do 3 (rewrite ?get_cons0, ?dropz1, ?Hh0, ?L91, ?L58; cbn [N.eqb Pos.eqb]);
    (destruct lead; cbn [app length]; rewrite ?get_cons0, ?get_consS, ?dropz1, ?seg_first, ?(okseg_first seg Hs Hne) by assumption; cbn [N.eqb Pos.eqb andb];
     [destruct (Z.leb_spec 2 (1 + Z.of_nat (length seg) + clen_of ss + 1 - 1)); [|lia]; cbn [andb];
      destruct (N.eqb_spec (get seg 0) 42); [contradiction|]; cbn [andb]|]);
    unfold brof; rewrite Ho; f_equal; lia.
  - (* plain pattern, plain header *)
    repeat match goal with |- context [Z.of_nat (@length ?T X)] => replace (Z.of_nat (@length T X)) with (Z.of_nat (length pre) + hplen it its) by (symmetry; exact HXlen) end.
    repeat match goal with |- context [Z.of_nat (@length ?T Y)] => replace (Z.of_nat (@length T Y)) with ((if lead then 1 else 0) + Z.of_nat (length seg) + clen_of ss) by (symmetry; exact HYlen) end.
    unfold X, Y, pre.
    destruct (opt it) eqn:Ho; cbn [app length]; rewrite ?get_cons0, ?dropz1; cbn [N.eqb Pos.eqb];
    do 3 (rewrite ?get_cons0, ?dropz1, ?Hh0, ?L91, ?L58; cbn [N.eqb Pos.eqb]);
    (destruct lead; cbn [app length]; rewrite ?get_cons0, ?get_consS, ?dropz1, ?seg_first, ?(okseg_first seg Hs Hne) by assumption; cbn [N.eqb Pos.eqb andb];
     [destruct (Z.leb_spec 2 (1 + Z.of_nat (length seg) + clen_of ss)); [|lia]; cbn [andb];
      destruct (N.eqb_spec (get seg 0) 42); [contradiction|]; cbn [andb]|]);
    unfold brof; rewrite Ho; f_equal; lia.
Qed.

Lemma Forall_okseg2 ss : Forall okseg2 ss -> Forall okseg ss.
Proof. intros H. induction H; constructor; [now apply okseg2_okseg|assumption]. Qed.

(* matchCommand with a numbers array on a rendered pattern and a header of letter/digit segments *)
Theorem match_top_nums it its q lead seg ss hq dflt nums :
  okname (nm it) -> wf its -> okseg2 seg -> Forall okseg2 ss -> seg <> [] ->
  (q = false -> hq = false) ->
  spec_ok (matchCommand (render it its q) (hdr lead seg ss hq) nums dflt)
          ((negb q || hq) && greedy (it :: its) (seg :: ss))
          (greedyN (it :: its) (seg :: ss) nums 0 dflt).
Proof.
  intros Hn Hw Hs Hss Hne Hqq.
  assert (H42 : get seg 0 <> 42%N).
  { destruct seg as [|c r]; [congruence|]. cbn. unfold okseg2 in Hs. cbn in Hs. apply andb_prop in Hs as [Hc _].
    intro E; subst c. discriminate. }
  rewrite matchCommand_loop by (try assumption; try (now apply okseg2_okseg); now apply Forall_okseg2).
  destruct q, hq; cbn [andb negb orb]; try (specialize (Hqq eq_refl); discriminate).
  - apply loop_specN; try assumption; try apply okq_qmark.
    unfold render. rewrite !app_length. pose proof (its_le_tlen its) as Hil. unfold headp, tailp, tlen in *. rewrite !app_length. lia.
  - apply spec_ok_false. reflexivity.
  - apply loop_specN; try assumption; try apply okq_qmark.
    unfold render. rewrite !app_length. pose proof (its_le_tlen its) as Hil. unfold headp, tailp, tlen in *. rewrite !app_length. lia.
Qed.
Print Assumptions match_top_nums.
