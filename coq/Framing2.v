(* C06: response framing on the parser model carrying the separator fix *)
From Coq Require Import Bool List NArith ZArith Lia.
From M Require LexModel MatchModel FmtModel GFmt OpsGen.
From M Require Import ParserModel.
Import ListNotations.
Local Open Scope Z_scope.

(* ---------- output projection of the trace ---------- *)
Definition is_out (e:event) : bool := match e with EvW _ | EvF => true | _ => false end.
Definition outp (tr:list event) : list event := filter is_out tr.     (* most recent first, like the trace *)

(* "quiet": nothing that concerns the response changes *)
Definition Q (c c':ctx) : Prop :=
  first_output c' = first_output c /\ output_count c' = output_count c /\ arb_rem c' = arb_rem c /\ outp (trace c') = outp (trace c) /\ cmds c' = cmds c.
Ltac qr := (unfold Q; repeat split; reflexivity).
Lemma Q_refl c : Q c c. Proof. qr. Qed.
Lemma Q_trans a b c : Q a b -> Q b c -> Q a c.
Proof. unfold Q. intros (A1 & A2 & A3 & A4 & A5) (B1 & B2 & B3 & B4 & B5). repeat split; congruence. Qed.
Lemma Q_ev c e : is_out e = false -> Q c (ev c e).
Proof. intro H. unfold Q. repeat split; try reflexivity. cbn [trace ev outp filter]. now rewrite H. Qed.
Lemma Q_upd_in c a b : Q c (upd_in c a b). Proof. qr. Qed.
Lemma Q_upd_err c a b d : Q c (upd_err c a b d). Proof. qr. Qed.
Lemma Q_error_push c code info : Q c (error_push c code info).
Proof. unfold error_push. destruct (_ =? qcap c); qr. Qed.
Lemma Q_emit_empty c : Q c (emit_empty c).
Proof. unfold emit_empty. destruct (_ && _); qr. Qed.

(* readers *)
Lemma Q_parameter c m : Q c (fst (fst (parameter c m))).
Proof.
  unfold parameter. destruct (pd_len c <=? pd_pos c).
  - destruct m; cbn [fst]; [apply Q_error_push|apply Q_refl].
  - destruct (negb (input_count c =? 0)).
    + destruct (LexModel.ret _ =? 0); cbn [fst]; [apply Q_error_push|].
      destruct (tok_valid _); cbn [fst]; [qr|]. eapply Q_trans; [|apply Q_error_push]. qr.
    + destruct (tok_valid _); cbn [fst]; [qr|]. eapply Q_trans; [|apply Q_error_push]. qr.
Qed.

Lemma Q_param_int c w s m : Q c (fst (fst (param_int c w s m))).
Proof. unfold param_int. pose proof (Q_parameter c m) as H. destruct (parameter c m) as [[c1 ok] t]; cbn [fst] in *.
  destruct ok; [|exact H]. destruct (is_number _ false).
  - destruct (param_to_int c1 t w s). exact H.
  - destruct (is_number _ true); cbn [fst]; (eapply Q_trans; [exact H|apply Q_error_push]). Qed.
Lemma Q_param_to_choice c t o : Q c (fst (fst (param_to_choice c t o))).
Proof. unfold param_to_choice. destruct (LexModel.ty t); cbn [fst]; try apply Q_error_push.
  destruct (choice_lookup _ _); cbn [fst]; [apply Q_refl|apply Q_error_push]. Qed.
Lemma Q_param_bool c m : Q c (fst (fst (param_bool c m))).
Proof. unfold param_bool. pose proof (Q_parameter c m) as H. destruct (parameter c m) as [[c1 ok] t]; cbn [fst] in *.
  destruct ok; [|exact H].
  pose proof (Q_param_to_choice c1 t bool_def) as H2.
  destruct (LexModel.ty t); try (destruct (param_to_int c1 t 32 true); exact H);
  destruct (param_to_choice c1 t bool_def) as [[c2 r] v]; cbn [fst] in *; (eapply Q_trans; [exact H|exact H2]). Qed.
Lemma Q_param_choice c m : Q c (fst (fst (param_choice c m))).
Proof. unfold param_choice. pose proof (Q_parameter c m) as H. destruct (parameter c m) as [[c1 ok] t]; cbn [fst] in *.
  destruct ok; [|exact H]. eapply Q_trans; [exact H|apply Q_param_to_choice]. Qed.
Lemma Q_param_chars c m : Q c (fst (fst (param_chars c m))).
Proof. unfold param_chars. pose proof (Q_parameter c m) as H. destruct (parameter c m) as [[c1 ok] t]; cbn [fst] in *. destruct ok; exact H. Qed.
Lemma Q_param_text c b m : Q c (fst (fst (fst (param_text c b m)))).
Proof. unfold param_text. pose proof (Q_parameter c m) as H. destruct (parameter c m) as [[c1 ok] t]; cbn [fst] in *.
  destruct ok; [|exact H]. destruct (is_quote _).
  - destruct (copy_loop _ _ _ _ _ _ _ _). exact H.
  - cbn [fst]. eapply Q_trans; [exact H|apply Q_error_push]. Qed.
Lemma Q_param_block c m : Q c (fst (fst (param_block c m))).
Proof. unfold param_block. pose proof (Q_parameter c m) as H. destruct (parameter c m) as [[c1 ok] t]; cbn [fst] in *.
  destruct ok; [|exact H]. destruct (LexModel.ty t); cbn [fst]; try exact H; (eapply Q_trans; [exact H|apply Q_error_push]). Qed.
Lemma Q_param_fp c d m : Q c (fst (fst (param_fp c d m))).
Proof. unfold param_fp. pose proof (Q_parameter c m) as H. destruct (parameter c m) as [[c1 ok] t]; cbn [fst] in *.
  destruct ok; [|exact H]. destruct (is_number _ false); [exact H|].
  destruct (is_number _ true); cbn [fst]; (eapply Q_trans; [exact H|apply Q_error_push]). Qed.
Lemma Q_param_number c m : Q c (fst (fst (param_number c m))).
Proof. unfold param_number. pose proof (Q_parameter c m) as H. destruct (parameter c m) as [[c1 ok] t]; cbn [fst] in *.
  destruct ok; cbn [negb]; [|exact H].
  pose proof (Q_param_to_choice c1 t Generated.gen_specials) as H2.
  destruct (LexModel.ty t); cbn [fst]; try exact H; try (eapply Q_trans; [exact H|apply Q_error_push]).
  - destruct (param_to_choice c1 t Generated.gen_specials) as [[c2 r] tag]; cbn [fst] in *. eapply Q_trans; [exact H|exact H2].
  - destruct (skip_isspace _); cbn [fst]; [exact H|]. destruct (unit_lookup _) as [[un mult]|]; cbn [fst]; [exact H|].
    eapply Q_trans; [exact H|apply Q_error_push]. Qed.


(* ---------- what has been written: bytes in chronological order, number of flushes ---------- *)
Fixpoint wb (tr:list event) : bytes := match tr with [] => [] | EvW b :: r => wb r ++ b | _ :: r => wb r end.
Fixpoint fl (tr:list event) : Z := match tr with [] => 0 | EvF :: r => fl r + 1 | _ :: r => fl r end.
Definition W (c:ctx) : bytes := wb (outp (trace c)).
Definition Fl (c:ctx) : Z := fl (outp (trace c)).
Definition delim_bytes (fo:bool) (oc:Z) : bytes := if 0 <? oc then [44%N] else if negb fo then [59%N] else [].

Definition Q_param_array := OpsGen.R_param_array Q Q_refl Q_trans Q_param_int Q_param_fp.
Definition Q_expr_numlist := OpsGen.R_expr_numlist Q Q_refl (fun c => Q_error_push c (-170) None) (fun c => Q_error_push c (-104) None).
Definition Q_expr_chanlist := OpsGen.R_expr_chanlist Q Q_refl (fun c => Q_error_push c (-170) None) (fun c => Q_error_push c (-104) None).
Lemma Q_W c c' : Q c c' -> W c' = W c /\ Fl c' = Fl c.
Proof. intros (_ & _ & _ & H & _). unfold W, Fl. now rewrite H. Qed.
Lemma W_write c b : first_output (write c b) = first_output c /\ output_count (write c b) = output_count c /\ arb_rem (write c b) = arb_rem c /\
  W (write c b) = W c ++ b /\ Fl (write c b) = Fl c.
Proof. destruct b as [|x b]; cbn [write]; [repeat split; try reflexivity; now rewrite app_nil_r|]. repeat split. Qed.
Lemma W_delimiter c : first_output (delimiter c) = first_output c /\ output_count (delimiter c) = output_count c /\ arb_rem (delimiter c) = arb_rem c /\
  W (delimiter c) = W c ++ delim_bytes (first_output c) (output_count c) /\ Fl (delimiter c) = Fl c.
Proof.
  unfold delimiter, delim_bytes. destruct (0 <? output_count c); [apply W_write|]. destruct (negb (first_output c)); [apply W_write|].
  repeat split; try reflexivity. now rewrite app_nil_r.
Qed.
Lemma W_fold_write l : forall c, first_output (fold_left write l c) = first_output c /\ output_count (fold_left write l c) = output_count c /\
  arb_rem (fold_left write l c) = arb_rem c /\ W (fold_left write l c) = W c ++ concat l /\ Fl (fold_left write l c) = Fl c.
Proof.
  induction l as [|b l IH]; intro c; cbn [fold_left concat]; [repeat split; try reflexivity; now rewrite app_nil_r|].
  destruct (IH (write c b)) as (A1 & A2 & A3 & A4 & A5). destruct (W_write c b) as (B1 & B2 & B3 & B4 & B5).
  repeat split; try congruence. rewrite A4, B4, app_assoc. reflexivity.
Qed.
Lemma W_item c l : first_output (item c l) = first_output c /\ output_count (item c l) = output_count c + 1 /\ arb_rem (item c l) = arb_rem c /\
  W (item c l) = W c ++ delim_bytes (first_output c) (output_count c) ++ concat l /\ Fl (item c l) = Fl c.
Proof.
  unfold item. destruct (W_fold_write l (delimiter c)) as (A1 & A2 & A3 & A4 & A5). destruct (W_delimiter c) as (B1 & B2 & B3 & B4 & B5).
  cbn [first_output output_count arb_rem upd_out]. unfold W, Fl in *. cbn [trace upd_out].
  repeat split; try congruence. rewrite A4, B4, app_assoc. reflexivity.
Qed.

(* ---------- one script step ---------- *)
Definition int_body (w v base:Z) (sign:bool) : bytes := let '(s,_,_) := FmtModel.int2str w v (w+1) base sign in base_prefix base ++ bz s.
Definition syst_err_parts (c:ctx) := match queue c with [] => (0, None, []) | (cd,i)::r => (cd, i, r) end.
Definition err_body (code:Z) (info:option bytes) (desc:bytes) : bytes :=
  let all := bz (FmtModel.result_error code (zb desc) (option_map zb info) 255) in
  let '(digits,_,_) := FmtModel.int2str 32 code 33 10 true in bz digits ++ skipn (length digits) all.
(* the result item an operation produces, if it produces one *)
Definition op_body (o:op) (c:ctx) (descs:Z -> bytes) : option bytes :=
  match o with
  | RI32 v => Some (int_body 32 v 10 true)
  | RU32 v b => Some (int_body 32 v b false)
  | RI64 v => Some (int_body 64 v 10 true)
  | RU64 v b => Some (int_body 64 v b false)
  | RBOOL b => Some (int_body 32 (if b then 1 else 0) 10 false)
  | RTEXT t => Some ([34%N] ++ quote_text (cstr (length t) t) ++ [34%N])
  | RCHARS t => Some t
  | RBLOCK d => Some (block_header (Z.of_nat (length d)) ++ d)
  | SYSTERR => let '(code, info, _) := syst_err_parts c in Some (err_body code info (descs code))
  | RI8 v => Some (int_body 32 v 10 true)
  | RU8 v b => Some (int_body 32 v b false)
  | RI16 v => Some (int_body 32 v 10 true)
  | RU16 v b => Some (int_body 32 v b false)
  | RMNEM t => Some (cstr (length t) t)
  | RD bits => Some (bz (GFmt.fmt_double 15 bits))
  | RF bits => Some (bz (GFmt.fmt_float 6 bits))
  | _ => None
  end.
(* streamed blocks (header and data in separate calls) are treated separately *)
Definition simple_op (o:op) : bool := match o with RHDR _ | RDATA _ | RARR _ _ _ => false | _ => true end.

(* effect of one operation on the response state *)
Definition Step (c c':ctx) (body:option bytes) : Prop :=
  first_output c' = first_output c /\
  output_count c' = output_count c + (match body with Some _ => 1 | None => 0 end) /\
  W c' = W c ++ (match body with Some b => delim_bytes (first_output c) (output_count c) ++ b | None => [] end) /\
  Fl c' = Fl c.
Lemma Step_quiet c c' : Q c c' -> Step c c' None.
Proof. intros H. destruct (Q_W c c' H) as [H1 H2]. destruct H as (A1 & A2 & A3 & A4 & _). unfold Step. rewrite A1, A2, H1, H2, app_nil_r. repeat split; lia. Qed.
Lemma Step_item c l : Step c (item c l) (Some (concat l)).
Proof. destruct (W_item c l) as (A1 & A2 & A3 & A4 & A5). unfold Step. auto. Qed.
Lemma Step_result_int c w v b s : Step c (result_int c w v b s) (Some (int_body w v b s)).
Proof. unfold result_int, int_body. destruct (FmtModel.int2str _ _ _ _ _) as [[x ?] ?].
  pose proof (Step_item c [base_prefix b; bz x]) as H. cbn [concat] in H. now rewrite app_nil_r in H. Qed.
Lemma Step_block c d : Step c (result_data (result_hdr c (Z.of_nat (length d))) d) (Some (block_header (Z.of_nat (length d)) ++ d)).
Proof.
  set (n := Z.of_nat (length d)). unfold result_hdr.
  destruct (W_delimiter c) as (B1 & B2 & B3 & B4 & B5).
  destruct (W_write (delimiter c) (block_header n)) as (C1 & C2 & C3 & C4 & C5).
  set (c1 := write (delimiter c) (block_header n)) in *.
  set (c2 := upd_out c1 (first_output c1) (output_count c1) n).
  unfold result_data. fold n. change (arb_rem c2) with n. rewrite Z.ltb_irrefl, Z.sub_diag. cbn [Z.eqb].
  set (c3 := upd_out c2 (first_output c2) (output_count c2 + 1) 0).
  destruct (W_write c3 d) as (D1 & D2 & D3 & D4 & D5).
  unfold Step. rewrite D1, D2, D4, D5. unfold W, Fl in *. cbn [trace first_output output_count upd_out c3 c2].
  repeat split; try congruence. rewrite C4, B4, <- !app_assoc. reflexivity.
Qed.
Lemma Step_result_error c code info desc : Step c (result_error c code info desc) (Some (err_body code info desc)).
Proof.
  unfold result_error, err_body. destruct (FmtModel.int2str 32 code 33 10 true) as [[digits ?] ?].
  pose proof (Step_item c [bz digits]) as (A1 & A2 & A3 & A4). cbn [concat] in A3. rewrite app_nil_r in A3.
  destruct (W_write (item c [bz digits]) (skipn (length digits) (bz (FmtModel.result_error code (zb desc) (option_map zb info) 255)))) as (D1 & D2 & D3 & D4 & D5).
  unfold Step. rewrite D1, D2, D4, D5, A1, A2, A3, A4, <- !app_assoc. repeat split; reflexivity.
Qed.
Lemma Step_Q_l c c1 c2 b : Q c c1 -> Step c1 c2 b -> Step c c2 b.
Proof. intros H (A1 & A2 & A3 & A4). destruct (Q_W c c1 H) as [H1 H2]. destruct H as (B1 & B2 & B3 & B4 & _).
  unfold Step. rewrite A1, A2, A3, A4, B1, B2, H1, H2. repeat split; reflexivity. Qed.

(* a step function equal to one unfolding of run_script *)
Definition step (o:op) (c:ctx) (descs:Z -> bytes) : ctx * bool :=
  match o with
  | PI32 m => let '(c1,ok,v) := param_int c 32 true m in (ev c1 (EvP 1 ok (if ok then [v] else [])), after_read c1 ok m)
  | PU32 m => let '(c1,ok,v) := param_int c 32 false m in (ev c1 (EvP 2 ok (if ok then [v] else [])), after_read c1 ok m)
  | PI64 m => let '(c1,ok,v) := param_int c 64 true m in (ev c1 (EvP 3 ok (if ok then [v] else [])), after_read c1 ok m)
  | PU64 m => let '(c1,ok,v) := param_int c 64 false m in (ev c1 (EvP 4 ok (if ok then [v] else [])), after_read c1 ok m)
  | PBOOL m => let '(c1,ok,v) := param_bool c m in (ev c1 (EvP 5 ok (if ok then [v] else [])), after_read c1 ok m)
  | PCHOICE m => let '(c1,ok,v) := param_choice c m in (ev c1 (EvP 6 ok (if ok then [v] else [])), after_read c1 ok m)
  | PCHARS m => let '(c1,ok,v) := param_chars c m in (ev c1 (EvP 7 ok (if ok then zb v else [])), after_read c1 ok m)
  | PTEXT bl m => let '(c1,ok,v,nul) := param_text c bl m in (ev c1 (EvP 8 ok (if ok then (if nul then 1 else 0) :: zb v else [])), after_read c1 ok m)
  | PBLOCK m => let '(c1,ok,v) := param_block c m in (ev c1 (EvP 9 ok (if ok then zb v else [])), after_read c1 ok m)
  | PD m => let '(c1,ok,v) := param_fp c true m in (ev c1 (EvP 10 ok (if ok then [v] else [])), after_read c1 ok m)
  | PF m => let '(c1,ok,v) := param_fp c false m in (ev c1 (EvP 11 ok (if ok then [v] else [])), after_read c1 ok m)
  | PNUM m => let '(c1,ok,v) := param_number c m in (ev c1 (EvP 12 ok (if ok then v else [])), after_read c1 ok m)
  | RI32 v => (result_int c 32 v 10 true, true)
  | RU32 v b => (result_int c 32 v b false, true)
  | RI64 v => (result_int c 64 v 10 true, true)
  | RU64 v b => (result_int c 64 v b false, true)
  | RBOOL b => (result_int c 32 (if b then 1 else 0) 10 false, true)
  | RTEXT t => (result_text c t, true)
  | RCHARS t => (item c [t], true)
  | RBLOCK d => (result_data (result_hdr c (Z.of_nat (length d))) d, true)
  | RHDR n => (result_hdr c n, true)
  | RDATA d => (result_data c d, true)
  | PUSH code => (error_push c code None, true)
  | NUMS n dflt =>
      match cur c with
      | Some (pat,_,_) =>
        match MatchModel.matchCommand pat (slice (mem c) (raw_off c) (raw_len c)) (Some (repeat (-99) (Z.to_nat n))) dflt with
        | MatchModel.Res r (Some a) => (ev c (EvNum r a), true)
        | MatchModel.Res r None => (ev c (EvNum r []), true)
        end
      | None => (c, true)
      end
  | SYSTERR =>
      let '(code, info, q') := syst_err_parts c in
      let c1 := emit_empty (upd_err c (cmd_error c) q' (qma c)) in
      (result_error c1 code info (descs code), true)
  | RETERR => (c, false)
  | RI8 v => (result_int c 32 v 10 true, true)
  | RU8 v b => (result_int c 32 v b false, true)
  | RI16 v => (result_int c 32 v 10 true, true)
  | RU16 v b => (result_int c 32 v b false, true)
  | RMNEM t => (item c [cstr (length t) t], true)
  | RD bits => (item c [bz (GFmt.fmt_double 15 bits)], true)
  | RF bits => (item c [bz (GFmt.fmt_float 6 bits)], true)
  | ISCMD p =>
      match cur c with
      | Some (pat,_,_) => match MatchModel.matchCommand pat p None 0 with MatchModel.Res r _ => (ev c (EvI r), true) end
      | None => (ev c (EvI false), true)
      end
  | RARR size fmt vals => (result_array c size fmt vals, true)
  | PARR ty cap m =>
      let '(c1, m1, vals) := param_array (Z.to_nat cap) (array_reader ty) c m [] in
      (ev c1 (EvP ty (negb m1) (if negb m1 then vals else [])), after_read c1 (negb m1) m)
  | PEXPRN idx m =>
      let '(c1, ok, t) := parameter c m in
      if ok then let '(c2, rep) := expr_numlist c1 t idx in (ev c2 (EvP 19 true rep), true)
      else (ev c1 (EvP 19 false []), after_read c1 false m)
  | PEXPRC idx cap m =>
      let '(c1, ok, t) := parameter c m in
      if ok then let '(c2, rep) := expr_chanlist c1 t idx cap in (ev c2 (EvP 20 true rep), true)
      else (ev c1 (EvP 20 false []), after_read c1 false m)
  end.
Lemma run_script_cons o rest c d :
  run_script (o :: rest) c d = let '(c', go) := step o c d in if go then run_script rest c' d else (c', false).
Proof.
  destruct o; cbn [run_script step]; try reflexivity;
  try (match goal with |- context [param_int ?a ?b ?e ?f] => destruct (param_int a b e f) as [[? ?] ?] end; reflexivity).
  - destruct (param_bool c m) as [[? ?] ?]; reflexivity.
  - destruct (param_choice c m) as [[? ?] ?]; reflexivity.
  - destruct (param_chars c m) as [[? ?] ?]; reflexivity.
  - destruct (param_text c buflen m) as [[[? ?] ?] ?]; reflexivity.
  - destruct (param_block c m) as [[? ?] ?]; reflexivity.
  - destruct (param_fp c true m) as [[? ?] ?]; reflexivity.
  - destruct (param_fp c false m) as [[? ?] ?]; reflexivity.
  - destruct (param_number c m) as [[? ?] ?]; reflexivity.
  - destruct (cur c) as [[[pat tg] sc]|]; [|reflexivity]. destruct (MatchModel.matchCommand _ _ _ _) as [r [a|]]; reflexivity.
  - unfold syst_err_parts. destruct (queue c) as [|[cd i] r]; reflexivity.
  - destruct (cur c) as [[[pat tg] sc]|]; [|reflexivity]. destruct (MatchModel.matchCommand _ _ _ _) as [r a]; reflexivity.
  - destruct (param_array _ _ c m []) as [[c1 m1] vals]; reflexivity.
  - destruct (parameter c m) as [[c1 ok] t]. destruct ok; [destruct (expr_numlist c1 t idx) as [c2 rep]|]; reflexivity.
  - destruct (parameter c m) as [[c1 ok] t]. destruct ok; [destruct (expr_chanlist c1 t idx cap) as [c2 rep]|]; reflexivity.
Qed.

Lemma step_spec o c d : simple_op o = true -> Step c (fst (step o c d)) (op_body o c d).
Proof.
  intro Hs. destruct o; cbn [step op_body]; try discriminate.
  - pose proof (Q_param_int c 32 true m) as H. destruct (param_int c 32 true m) as [[c1 ok] v]; cbn [fst] in *. apply Step_quiet. eapply Q_trans; [exact H|now apply Q_ev].
  - pose proof (Q_param_int c 32 false m) as H. destruct (param_int c 32 false m) as [[c1 ok] v]; cbn [fst] in *. apply Step_quiet. eapply Q_trans; [exact H|now apply Q_ev].
  - pose proof (Q_param_int c 64 true m) as H. destruct (param_int c 64 true m) as [[c1 ok] v]; cbn [fst] in *. apply Step_quiet. eapply Q_trans; [exact H|now apply Q_ev].
  - pose proof (Q_param_int c 64 false m) as H. destruct (param_int c 64 false m) as [[c1 ok] v]; cbn [fst] in *. apply Step_quiet. eapply Q_trans; [exact H|now apply Q_ev].
  - pose proof (Q_param_bool c m) as H. destruct (param_bool c m) as [[c1 ok] v]; cbn [fst] in *. apply Step_quiet. eapply Q_trans; [exact H|now apply Q_ev].
  - pose proof (Q_param_choice c m) as H. destruct (param_choice c m) as [[c1 ok] v]; cbn [fst] in *. apply Step_quiet. eapply Q_trans; [exact H|now apply Q_ev].
  - pose proof (Q_param_chars c m) as H. destruct (param_chars c m) as [[c1 ok] v]; cbn [fst] in *. apply Step_quiet. eapply Q_trans; [exact H|now apply Q_ev].
  - pose proof (Q_param_text c buflen m) as H. destruct (param_text c buflen m) as [[[c1 ok] v] nul]; cbn [fst] in *. apply Step_quiet. eapply Q_trans; [exact H|now apply Q_ev].
  - pose proof (Q_param_block c m) as H. destruct (param_block c m) as [[c1 ok] v]; cbn [fst] in *. apply Step_quiet. eapply Q_trans; [exact H|now apply Q_ev].
  - pose proof (Q_param_fp c true m) as H. destruct (param_fp c true m) as [[c1 ok] v]; cbn [fst] in *. apply Step_quiet. eapply Q_trans; [exact H|now apply Q_ev].
  - pose proof (Q_param_fp c false m) as H. destruct (param_fp c false m) as [[c1 ok] v]; cbn [fst] in *. apply Step_quiet. eapply Q_trans; [exact H|now apply Q_ev].
  - pose proof (Q_param_number c m) as H. destruct (param_number c m) as [[c1 ok] v]; cbn [fst] in *. apply Step_quiet. eapply Q_trans; [exact H|now apply Q_ev].
  - apply Step_result_int.
  - apply Step_result_int.
  - apply Step_result_int.
  - apply Step_result_int.
  - apply Step_result_int.
  - pose proof (Step_item c [[34%N]; quote_text (cstr (length t) t); [34%N]]) as H. cbn [concat] in H. rewrite app_nil_r in H. exact H.
  - pose proof (Step_item c [t]) as H. cbn [concat] in H. rewrite app_nil_r in H. exact H.
  - apply Step_block.
  - apply Step_quiet, Q_error_push.
  - destruct (cur c) as [[[pat tg] sc]|]; [|apply Step_quiet, Q_refl].
    destruct (MatchModel.matchCommand _ _ _ _) as [r [a|]]; cbn [fst]; apply Step_quiet; now apply Q_ev.
  - destruct (syst_err_parts c) as [[code info] q']. cbn [fst]. eapply Step_Q_l; [|apply Step_result_error].
    eapply Q_trans; [|apply Q_emit_empty]. qr.
  - apply Step_quiet, Q_refl.
  - apply Step_result_int.
  - apply Step_result_int.
  - apply Step_result_int.
  - apply Step_result_int.
  - pose proof (Step_item c [cstr (length t) t]) as H. cbn [concat] in H. rewrite app_nil_r in H. exact H.
  - pose proof (Step_item c [bz (GFmt.fmt_double 15 bits)]) as H. cbn [concat] in H. rewrite app_nil_r in H. exact H.
  - pose proof (Step_item c [bz (GFmt.fmt_float 6 bits)]) as H. cbn [concat] in H. rewrite app_nil_r in H. exact H.
  - destruct (cur c) as [[[pat tg] sc]|]; [|apply Step_quiet; now apply Q_ev].
    destruct (MatchModel.matchCommand _ _ _ _) as [r a]; cbn [fst]; apply Step_quiet; now apply Q_ev.
  - pose proof (Q_param_array ty (Z.to_nat cap) c m []) as H. destruct (param_array _ _ c m []) as [[c1 m1] vals]; cbn [fst] in *.
    apply Step_quiet. eapply Q_trans; [exact H|now apply Q_ev].
  - pose proof (Q_parameter c m) as H. destruct (parameter c m) as [[c1 ok] t]; cbn [fst] in *. destruct ok.
    + pose proof (Q_expr_numlist c1 t idx) as H2. destruct (expr_numlist c1 t idx) as [c2 rep]; cbn [fst] in *.
      apply Step_quiet. eapply Q_trans; [exact H|]. eapply Q_trans; [exact H2|now apply Q_ev].
    + apply Step_quiet. eapply Q_trans; [exact H|now apply Q_ev].
  - pose proof (Q_parameter c m) as H. destruct (parameter c m) as [[c1 ok] t]; cbn [fst] in *. destruct ok.
    + pose proof (Q_expr_chanlist c1 t idx cap) as H2. destruct (expr_chanlist c1 t idx cap) as [c2 rep]; cbn [fst] in *.
      apply Step_quiet. eapply Q_trans; [exact H|]. eapply Q_trans; [exact H2|now apply Q_ev].
    + apply Step_quiet. eapply Q_trans; [exact H|now apply Q_ev].
Qed.

(* ---------- the result items of a handler run, and how they appear on the output ---------- *)
Fixpoint items_run (s:list op) (c:ctx) (d:Z -> bytes) : list bytes :=
  match s with
  | [] => []
  | o :: rest => (match op_body o c d with Some b => [b] | None => [] end) ++
                 (let '(c', go) := step o c d in if go then items_run rest c' d else [])
  end.
Fixpoint render (fo:bool) (oc:Z) (items:list bytes) : bytes :=
  match items with [] => [] | b :: r => delim_bytes fo oc ++ b ++ render fo (oc + 1) r end.
Lemma render_app fo items1 : forall oc items2, render fo oc (items1 ++ items2) = render fo oc items1 ++ render fo (oc + Z.of_nat (length items1)) items2.
Proof.
  induction items1 as [|b r IH]; intros oc items2; cbn [render app length]; [now rewrite Z.add_0_r|].
  rewrite IH, <- !app_assoc. do 3 f_equal. f_equal. lia.
Qed.

Theorem script_framing s : forallb simple_op s = true -> forall c d,
  let c' := fst (run_script s c d) in let its := items_run s c d in
  first_output c' = first_output c /\ output_count c' = output_count c + Z.of_nat (length its) /\
  W c' = W c ++ render (first_output c) (output_count c) its /\ Fl c' = Fl c.
Proof.
  induction s as [|o rest IH]; intros Hs c d.
  - cbn. rewrite app_nil_r, Z.add_0_r. auto.
  - cbn [forallb] in Hs. apply andb_prop in Hs as [Ho Hrest]. cbn zeta. rewrite run_script_cons. cbn [items_run].
    pose proof (step_spec o c d Ho) as (A1 & A2 & A3 & A4). destruct (step o c d) as [c1 go]. cbn [fst] in *.
    destruct go.
    + specialize (IH Hrest c1 d). cbn zeta in IH. destruct IH as (B1 & B2 & B3 & B4).
      rewrite B1, B2, B3, B4, A1, A2, A3, A4. rewrite render_app, app_length.
      destruct (op_body o c d) as [b|]; cbn [length render app]; rewrite ?app_nil_r, ?Z.add_0_r, <- ?app_assoc; repeat split; try reflexivity; lia.
    + cbn [fst]. rewrite app_nil_r. rewrite A1, A2, A3, A4.
      destruct (op_body o c d) as [b|]; cbn [length render app]; rewrite ?app_nil_r, ?Z.add_0_r; repeat split; try reflexivity.
Qed.
Print Assumptions script_framing.

(* ---------- the command table is never changed ---------- *)
Definition C (c c':ctx) : Prop := cmds c' = cmds c.
Lemma C_trans a b c : C a b -> C b c -> C a c. Proof. unfold C; congruence. Qed.
Lemma C_Q c c' : Q c c' -> C c c'. Proof. intros (_ & _ & _ & _ & H). exact H. Qed.
Lemma C_write c b : C c (write c b). Proof. destruct b; reflexivity. Qed.
Lemma C_delimiter c : C c (delimiter c).
Proof. unfold delimiter. destruct (0 <? output_count c); [apply C_write|]. destruct (negb _); [apply C_write|reflexivity]. Qed.
Lemma C_fold_write l : forall c, C c (fold_left write l c).
Proof. induction l as [|b l IH]; intro c; [reflexivity|]. cbn. eapply C_trans; [apply C_write|apply IH]. Qed.
Lemma C_item c l : C c (item c l).
Proof. unfold item. eapply C_trans; [apply C_delimiter|]. eapply C_trans; [apply C_fold_write|]. reflexivity. Qed.
Lemma C_result_int c w v b s : C c (result_int c w v b s).
Proof. unfold result_int. destruct (FmtModel.int2str _ _ _ _ _) as [[? ?] ?]. apply C_item. Qed.
Lemma C_result_hdr c n : C c (result_hdr c n).
Proof. unfold result_hdr. eapply C_trans; [apply C_delimiter|]. eapply C_trans; [apply C_write|]. reflexivity. Qed.
Lemma C_result_data c d : C c (result_data c d).
Proof. unfold result_data. destruct (_ <? _); [apply C_Q, Q_error_push|]. eapply C_trans; [|apply C_write]. reflexivity. Qed.
Lemma C_result_error c code info desc : C c (result_error c code info desc).
Proof. unfold result_error. destruct (FmtModel.int2str _ _ _ _ _) as [[? ?] ?]. eapply C_trans; [apply C_item|apply C_write]. Qed.
Lemma C_step o c d : C c (fst (step o c d)).
Proof.
  destruct o; cbn [step].
  - pose proof (Q_param_int c 32 true m) as H. destruct (param_int c 32 true m) as [[c1 ok] v]; cbn [fst] in *. apply C_Q in H. exact H.
  - pose proof (Q_param_int c 32 false m) as H. destruct (param_int c 32 false m) as [[c1 ok] v]; cbn [fst] in *. apply C_Q in H. exact H.
  - pose proof (Q_param_int c 64 true m) as H. destruct (param_int c 64 true m) as [[c1 ok] v]; cbn [fst] in *. apply C_Q in H. exact H.
  - pose proof (Q_param_int c 64 false m) as H. destruct (param_int c 64 false m) as [[c1 ok] v]; cbn [fst] in *. apply C_Q in H. exact H.
  - pose proof (Q_param_bool c m) as H. destruct (param_bool c m) as [[c1 ok] v]; cbn [fst] in *. apply C_Q in H. exact H.
  - pose proof (Q_param_choice c m) as H. destruct (param_choice c m) as [[c1 ok] v]; cbn [fst] in *. apply C_Q in H. exact H.
  - pose proof (Q_param_chars c m) as H. destruct (param_chars c m) as [[c1 ok] v]; cbn [fst] in *. apply C_Q in H. exact H.
  - pose proof (Q_param_text c buflen m) as H. destruct (param_text c buflen m) as [[[c1 ok] v] nul]; cbn [fst] in *. apply C_Q in H. exact H.
  - pose proof (Q_param_block c m) as H. destruct (param_block c m) as [[c1 ok] v]; cbn [fst] in *. apply C_Q in H. exact H.
  - pose proof (Q_param_fp c true m) as H. destruct (param_fp c true m) as [[c1 ok] v]; cbn [fst] in *. apply C_Q in H. exact H.
  - pose proof (Q_param_fp c false m) as H. destruct (param_fp c false m) as [[c1 ok] v]; cbn [fst] in *. apply C_Q in H. exact H.
  - pose proof (Q_param_number c m) as H. destruct (param_number c m) as [[c1 ok] v]; cbn [fst] in *. apply C_Q in H. exact H.
  - apply C_result_int.
  - apply C_result_int.
  - apply C_result_int.
  - apply C_result_int.
  - apply C_result_int.
  - apply C_item.
  - apply C_item.
  - eapply C_trans; [apply C_result_hdr|apply C_result_data].
  - apply C_result_hdr.
  - apply C_result_data.
  - apply C_Q, Q_error_push.
  - destruct (cur c) as [[[pat tg] sc]|]; [|reflexivity]. destruct (MatchModel.matchCommand _ _ _ _) as [r [a|]]; reflexivity.
  - destruct (syst_err_parts c) as [[code info] q']. cbn [fst]. eapply C_trans; [|apply C_result_error]. eapply C_trans; [|apply C_Q, Q_emit_empty]. reflexivity.
  - reflexivity.
  - apply C_result_int.
  - apply C_result_int.
  - apply C_result_int.
  - apply C_result_int.
  - apply C_item.
  - apply C_item.
  - apply C_item.
  - destruct (cur c) as [[[pat tg] sc]|]; [|reflexivity]. destruct (MatchModel.matchCommand _ _ _ _) as [r a]; reflexivity.
  - apply (OpsGen.R_result_array C (fun c => eq_refl) C_trans C_result_int C_result_hdr C_result_data).
  - pose proof (Q_param_array ty (Z.to_nat cap) c m []) as H. destruct (param_array _ _ c m []) as [[c1 m1] vals]; cbn [fst] in *. apply C_Q in H. exact H.
  - pose proof (Q_parameter c m) as H. destruct (parameter c m) as [[c1 ok] t]; cbn [fst] in *. apply C_Q in H. destruct ok; [|exact H].
    pose proof (Q_expr_numlist c1 t idx) as H2. destruct (expr_numlist c1 t idx) as [c2 rep]; cbn [fst] in *. apply C_Q in H2. eapply C_trans; [exact H|exact H2].
  - pose proof (Q_parameter c m) as H. destruct (parameter c m) as [[c1 ok] t]; cbn [fst] in *. apply C_Q in H. destruct ok; [|exact H].
    pose proof (Q_expr_chanlist c1 t idx cap) as H2. destruct (expr_chanlist c1 t idx cap) as [c2 rep]; cbn [fst] in *. apply C_Q in H2. eapply C_trans; [exact H|exact H2].
Qed.
Lemma C_run_script s : forall c d, C c (fst (run_script s c d)).
Proof.
  induction s as [|o rest IH]; intros c d; [reflexivity|]. rewrite run_script_cons.
  pose proof (C_step o c d) as H. destruct (step o c d) as [c1 go]; cbn [fst] in H. destruct go; [eapply C_trans; [exact H|apply IH]|exact H].
Qed.

(* ---------- one message unit ---------- *)
Definition unit_ctx (c:ctx) (tag:Z) : ctx := let c1 := upd_flags c false 0 0 0 in ev c1 (EvH tag (slice (mem c1) (raw_off c1) (raw_len c1))).
Definition unit_items (c:ctx) (d:Z -> bytes) : list bytes :=
  match cur c with Some (_, tag, script) => items_run script (unit_ctx c tag) d | None => [] end.
Definition is_nil {A} (l:list A) : bool := match l with [] => true | _ => false end.
Definition cur_simple (c:ctx) : Prop := match cur c with Some (_, _, script) => forallb simple_op script = true | None => True end.

Theorem unit_framing c d : cur_simple c ->
  let c' := fst (process_command c d) in let its := unit_items c d in
  W c' = W c ++ render (first_output c) 0 its /\ Fl c' = Fl c /\
  first_output c' = first_output c && is_nil its /\ cmds c' = cmds c.
Proof.
  unfold cur_simple, unit_items, process_command. destruct (cur c) as [[[pat tag] script]|].
  2:{ intros _. cbn. rewrite app_nil_r, andb_true_r. auto. }
  intro Hs. cbn zeta. fold (unit_ctx c tag).
  pose proof (script_framing script Hs (unit_ctx c tag) d) as H. cbn zeta in H. pose proof (C_run_script script (unit_ctx c tag) d) as HC.
  set (its := items_run script (unit_ctx c tag) d) in *.
  destruct (run_script script (unit_ctx c tag) d) as [c3 okret]. cbn [fst] in *. destruct H as (A1 & A2 & A3 & A4).
  change (first_output (unit_ctx c tag)) with (first_output c) in *. change (output_count (unit_ctx c tag)) with 0 in *.
  change (W (unit_ctx c tag)) with (W c) in *. change (Fl (unit_ctx c tag)) with (Fl c) in *.
  unfold C in HC. change (cmds (unit_ctx c tag)) with (cmds c) in HC.
  (* the -200 step is quiet *)
  set (p4 := if negb okret then _ else _).
  assert (H4 : Q c3 (fst p4)).
  { subst p4. destruct okret; cbn [negb]; [destruct (cmd_error c3); apply Q_refl|]. destruct (cmd_error c3); cbn [negb fst]; [apply Q_refl|apply Q_error_push]. }
  destruct p4 as [c4 result]. cbn [fst] in H4. destruct (Q_W _ _ H4) as [W4 F4]. destruct H4 as (B1 & B2 & B3 & B4 & B5).
  set (c5 := if 0 <? output_count c4 then upd_out c4 false (output_count c4) (arb_rem c4) else c4).
  assert (H5 : W c5 = W c4 /\ Fl c5 = Fl c4 /\ first_output c5 = first_output c && is_nil its /\ cmds c5 = cmds c4).
  { subst c5. rewrite B2, A2. destruct its as [|b r]; cbn [length is_nil].
    - cbn. rewrite andb_true_r. repeat split; congruence.
    - destruct (Z.ltb_spec 0 (0 + Z.of_nat (S (length r)))); [|lia]. rewrite andb_false_r. repeat split. }
  destruct H5 as (W5 & F5 & O5 & C5).
  assert (H6 : forall c6, Q c5 c6 -> W c6 = W c ++ render (first_output c) 0 its /\ Fl c6 = Fl c /\ first_output c6 = first_output c && is_nil its /\ cmds c6 = cmds c).
  { intros c6 H. destruct (Q_W _ _ H) as [W6 F6]. destruct H as (D1 & _ & _ & _ & D5). repeat split; congruence. }
  destruct ((pd_pos c5 <? pd_len c5) && negb (cmd_error c5)); cbn [fst]; apply H6; [apply Q_error_push|apply Q_refl].
Qed.
Print Assumptions unit_framing.

(* ---------- the whole message ---------- *)
Definition table_simple (c:ctx) : Prop := forall pat tag script, In (pat, tag, script) (cmds c) -> forallb simple_op script = true.

(* one iteration of the unit loop of SCPI_Parse *)
Definition loop_body (c:ctx) (off len:Z) (prev:option (Z*Z)) (result:bool) (descs:Z -> bytes) : ctx * option (Z*Z) * bool * Z :=
  let u := LexModel.detect_unit (slice (mem c) off len) in
  let r := LexModel.u_consumed u in
  let h := LexModel.u_hdr u in
  let '(c1, prev1, result1) :=
    match LexModel.ty h with
    | LexModel.T_INVALID => (error_push c (-101) None, prev, false)
    | _ =>
      if 0 <? LexModel.len h then
        let '(m1, hp, hl) := compose (mem c) prev (off + LexModel.ptr h) (LexModel.len h) in
        let c' := upd_mem c m1 in
        match find_cmd c' (slice m1 hp hl) with
        | Some e =>
            let d := LexModel.u_data u in
            let c'' := upd_unit c' e (off + LexModel.ptr d) (LexModel.len d) hp hl in
            let '(c3, res) := process_command c'' descs in
            (c3, Some (hp, hl), result && res)
        | None =>
            let r2 := trim_crlf m1 off (Z.to_nat r) in
            (error_push c' (-113) (Some (dropm m1 off, r2)), Some (hp, hl), false)
        end
      else (c, prev, result)
    end in
  (c1, prev1, result1, r).
Lemma parse_loop_S f c off len prev result descs :
  parse_loop (S f) c off len prev result descs =
  let '(c1, prev1, result1, r) := loop_body c off len prev result descs in
  if r <? len then parse_loop f c1 (off + r) (len - r) prev1 result1 descs else (c1, result1).
Proof.
  cbn [parse_loop]. unfold loop_body. cbv zeta.
  match goal with |- (match ?X with _ => _ end) = _ => destruct X as [[? ?] ?] end. reflexivity.
Qed.
(* the items of the unit handled by one iteration *)
Definition loop_items (c:ctx) (off len:Z) (prev:option (Z*Z)) (descs:Z -> bytes) : list bytes :=
  let u := LexModel.detect_unit (slice (mem c) off len) in
  let h := LexModel.u_hdr u in
  match LexModel.ty h with
  | LexModel.T_INVALID => []
  | _ =>
    if 0 <? LexModel.len h then
      let '(m1, hp, hl) := compose (mem c) prev (off + LexModel.ptr h) (LexModel.len h) in
      let c' := upd_mem c m1 in
      match find_cmd c' (slice m1 hp hl) with
      | Some e => let d := LexModel.u_data u in unit_items (upd_unit c' e (off + LexModel.ptr d) (LexModel.len d) hp hl) descs
      | None => []
      end
    else []
  end.
Lemma find_cmd_in c hdr e : find_cmd c hdr = Some e -> In e (cmds c).
Proof.
  unfold find_cmd. generalize (cmds c). induction l as [|[[pat tg] sc] r IH]; [discriminate|].
  destruct (MatchModel.matchCommand pat hdr None 0) as [[|] ?]; [intro H; injection H as <-; now left|intro H; right; apply IH, H].
Qed.

Lemma body_framing c off len prev result d : table_simple c ->
  let '(c1, _, _, _) := loop_body c off len prev result d in let its := loop_items c off len prev d in
  W c1 = W c ++ render (first_output c) 0 its /\ Fl c1 = Fl c /\ first_output c1 = first_output c && is_nil its /\ cmds c1 = cmds c.
Proof.
  intro Ht. unfold loop_body, loop_items. cbv zeta.
  set (u := LexModel.detect_unit (slice (mem c) off len)).
  assert (Hq : forall c1, Q c c1 -> W c1 = W c ++ render (first_output c) 0 [] /\ Fl c1 = Fl c /\ first_output c1 = first_output c && is_nil (@nil bytes) /\ cmds c1 = cmds c).
  { intros c1 H. destruct (Q_W _ _ H) as [H1 H2]. destruct H as (A1 & _ & _ & _ & A5). cbn. rewrite app_nil_r, andb_true_r. auto. }
  assert (Hmain : LexModel.ty (LexModel.u_hdr u) <> LexModel.T_INVALID ->
    let '(c1, _, _, _) :=
      (let '(c1, prev1, result1) :=
        if 0 <? LexModel.len (LexModel.u_hdr u) then
          let '(m1, hp, hl) := compose (mem c) prev (off + LexModel.ptr (LexModel.u_hdr u)) (LexModel.len (LexModel.u_hdr u)) in
          match find_cmd (upd_mem c m1) (slice m1 hp hl) with
          | Some e => let '(c3, res) := process_command (upd_unit (upd_mem c m1) e (off + LexModel.ptr (LexModel.u_data u)) (LexModel.len (LexModel.u_data u)) hp hl) d in
                      (c3, Some (hp, hl), result && res)
          | None => (error_push (upd_mem c m1) (-113) (Some (dropm m1 off, trim_crlf m1 off (Z.to_nat (LexModel.u_consumed u)))), Some (hp, hl), false)
          end
        else (c, prev, result) in (c1, prev1, result1, LexModel.u_consumed u)) in
    let its := if 0 <? LexModel.len (LexModel.u_hdr u) then
        let '(m1, hp, hl) := compose (mem c) prev (off + LexModel.ptr (LexModel.u_hdr u)) (LexModel.len (LexModel.u_hdr u)) in
        match find_cmd (upd_mem c m1) (slice m1 hp hl) with
        | Some e => unit_items (upd_unit (upd_mem c m1) e (off + LexModel.ptr (LexModel.u_data u)) (LexModel.len (LexModel.u_data u)) hp hl) d
        | None => []
        end else [] in
    W c1 = W c ++ render (first_output c) 0 its /\ Fl c1 = Fl c /\ first_output c1 = first_output c && is_nil its /\ cmds c1 = cmds c).
  { intros _. destruct (0 <? LexModel.len (LexModel.u_hdr u)); [|apply Hq, Q_refl].
    destruct (compose (mem c) prev _ _) as [[m1 hp] hl].
    destruct (find_cmd (upd_mem c m1) (slice m1 hp hl)) as [e|] eqn:Ef.
    - set (c2 := upd_unit (upd_mem c m1) e _ _ hp hl).
      assert (Hcs : cur_simple c2).
      { unfold cur_simple. cbn [cur c2 upd_unit]. destruct e as [[pat tag] script]. apply find_cmd_in in Ef. cbn [cmds upd_mem] in Ef. eapply Ht, Ef. }
      pose proof (unit_framing c2 d Hcs) as H. cbn zeta in H. destruct (process_command c2 d) as [c3 res]. cbn [fst] in H. exact H.
    - eapply Hq. eapply Q_trans; [|apply Q_error_push]. qr. }
  destruct (LexModel.ty (LexModel.u_hdr u)) eqn:Ety; try (apply Hmain; discriminate).
  apply Hq, Q_error_push.
Qed.

Fixpoint msg_items (fuel:nat) (c:ctx) (off len:Z) (prev:option (Z*Z)) (result:bool) (d:Z -> bytes) : list (list bytes) :=
  match fuel with O => [] | S f =>
    loop_items c off len prev d ::
    (let '(c1, prev1, result1, r) := loop_body c off len prev result d in
     if r <? len then msg_items f c1 (off + r) (len - r) prev1 result1 d else [])
  end.
(* what the units of a message put on the output: the first responding unit starts bare, every later one after ';' *)
Fixpoint frame_units (fo:bool) (units:list (list bytes)) : bytes :=
  match units with [] => [] | its :: r => render fo 0 its ++ frame_units (fo && is_nil its) r end.

Lemma loop_framing fuel : forall c off len prev result d, table_simple c ->
  let c' := fst (parse_loop fuel c off len prev result d) in let units := msg_items fuel c off len prev result d in
  W c' = W c ++ frame_units (first_output c) units /\ Fl c' = Fl c /\
  first_output c' = first_output c && forallb is_nil units /\ cmds c' = cmds c.
Proof.
  induction fuel as [|f IH]; intros c off len prev result d Ht.
  - cbn. rewrite app_nil_r, andb_true_r. auto.
  - cbn zeta. rewrite parse_loop_S. cbn [msg_items].
    pose proof (body_framing c off len prev result d Ht) as Hb.
    destruct (loop_body c off len prev result d) as [[[c1 prev1] result1] r]. cbn zeta in Hb. destruct Hb as (A1 & A2 & A3 & A4).
    cbn [frame_units forallb]. destruct (r <? len).
    + assert (Ht1 : table_simple c1) by (unfold table_simple; rewrite A4; exact Ht).
      specialize (IH c1 (off + r) (len - r) prev1 result1 d Ht1). cbn zeta in IH. destruct IH as (B1 & B2 & B3 & B4).
      rewrite B1, B2, B3, B4, A1, A2, A3, A4, <- app_assoc, andb_assoc. auto.
    + cbn [fst frame_units forallb]. rewrite app_nil_r, andb_true_r. auto.
Qed.

Lemma W_flush c : W (ev c EvF) = W c /\ Fl (ev c EvF) = Fl c + 1.
Proof. split; reflexivity. Qed.
Lemma W_upd_out c a b d : W (upd_out c a b d) = W c /\ Fl (upd_out c a b d) = Fl c.
Proof. split; reflexivity. Qed.
(* SCPI_Parse: nothing of the previous message matters; the terminator and one flush follow iff something responded *)
Definition responded (units:list (list bytes)) : bool := negb (forallb is_nil units).
Theorem message_framing c len d : table_simple c ->
  let c' := fst (scpi_parse c len d) in
  let units := msg_items (S (Z.to_nat len)) (upd_out c true 0 (arb_rem c)) 0 len None true d in
  W c' = W c ++ frame_units true units ++ (if responded units then [13;10]%N else []) /\
  Fl c' = Fl c + (if responded units then 1 else 0) /\
  first_output c' = true.
Proof.
  intro Ht. unfold scpi_parse. set (c0 := upd_out c true 0 (arb_rem c)).
  pose proof (loop_framing (S (Z.to_nat len)) c0 0 len None true d Ht) as H. cbn zeta in H.
  destruct (parse_loop (S (Z.to_nat len)) c0 0 len None true d) as [c1 res]. cbn [fst] in *.
  destruct H as (A1 & A2 & A3 & _). change (first_output c0) with true in *. change (W c0) with (W c) in A1. change (Fl c0) with (Fl c) in A2.
  cbn [andb] in A3. unfold responded. rewrite <- A3.
  set (units := msg_items _ _ _ _ _ _ _) in *.
  destruct (first_output c1); cbn [negb].
  - destruct (W_upd_out c1 true (output_count c1) (arb_rem c1)) as [E1 E2]. rewrite E1, E2, A1, A2, app_nil_r, Z.add_0_r. auto.
  - destruct (W_write c1 [13;10]%N) as (_ & _ & _ & B4 & B5). destruct (W_flush (write c1 [13;10]%N)) as [D1 D2].
    destruct (W_upd_out (ev (write c1 [13;10]%N) EvF) true (output_count (ev (write c1 [13;10]%N) EvF)) (arb_rem (ev (write c1 [13;10]%N) EvF))) as [E1 E2].
    rewrite E1, E2, D1, D2, B4, B5, A1, A2, app_assoc. auto.
Qed.

(* closed form of the frame: responding units joined by ';', items joined by ',' *)
Fixpoint join (sep:bytes) (l:list bytes) : bytes := match l with [] => [] | [x] => x | x :: r => x ++ sep ++ join sep r end.
Lemma join_cons sep x r : join sep (x :: r) = x ++ concat (map (fun y => sep ++ y) r).
Proof. revert x; induction r as [|y r IH]; intro x; [cbn; now rewrite app_nil_r|].
  change (join sep (x :: y :: r)) with (x ++ sep ++ join sep (y :: r)). rewrite IH. cbn [map concat]. now rewrite <- app_assoc. Qed.
Lemma render_tail fo r : forall oc, 0 < oc -> render fo oc r = concat (map (fun b => [44%N] ++ b) r).
Proof. induction r as [|b r IH]; intros oc H; [reflexivity|]. cbn [render map concat]. unfold delim_bytes. destruct (Z.ltb_spec 0 oc); [|lia]. rewrite IH by lia. now rewrite app_assoc. Qed.
Lemma render_unit fo b r : render fo 0 (b :: r) = (if fo then [] else [59%N]) ++ join [44%N] (b :: r).
Proof. cbn [render]. unfold delim_bytes. cbn [Z.ltb Z.compare]. rewrite render_tail by lia. rewrite join_cons. destruct fo; reflexivity. Qed.
Definition nonempty (its:list bytes) : bool := negb (is_nil its).
Lemma frame_false units : frame_units false units = concat (map (fun x => [59%N] ++ x) (map (join [44%N]) (filter nonempty units))).
Proof.
  induction units as [|its r IH]; [reflexivity|]. cbn [frame_units filter andb]. destruct its as [|b t]; cbn [nonempty is_nil negb]; [exact IH|].
  rewrite render_unit, IH. reflexivity.
Qed.
Theorem frame_closed units : frame_units true units = join [59%N] (map (join [44%N]) (filter nonempty units)).
Proof.
  induction units as [|its r IH]; [reflexivity|]. cbn [frame_units filter andb]. destruct its as [|b t]; cbn [nonempty is_nil negb]; [exact IH|].
  rewrite render_unit, frame_false. cbn [map]. rewrite (join_cons [59%N]). reflexivity.
Qed.

(* C06 as stated: for every message, command table of simple scripts and previous history,
   the bytes written are the responding units joined by ';', each its items joined by ',',
   then one terminator and one flush iff something responded; nothing otherwise *)
Theorem framing c len d : table_simple c ->
  let c' := fst (scpi_parse c len d) in
  let units := filter nonempty (msg_items (S (Z.to_nat len)) (upd_out c true 0 (arb_rem c)) 0 len None true d) in
  W c' = W c ++ join [59%N] (map (join [44%N]) units) ++ (if is_nil units then [] else [13;10]%N) /\
  Fl c' = Fl c + (if is_nil units then 0 else 1).
Proof.
  intro Ht. pose proof (message_framing c len d Ht) as H. cbn zeta in *. destruct H as (A1 & A2 & _).
  set (all := msg_items _ _ _ _ _ _ _) in *. rewrite frame_closed in A1.
  assert (Hr : responded all = negb (is_nil (filter nonempty all))).
  { unfold responded. clear. induction all as [|its r IH]; [reflexivity|]. cbn [forallb filter]. destruct its; cbn [is_nil nonempty negb andb]; [exact IH|reflexivity]. }
  rewrite Hr in A1, A2. destruct (is_nil (filter nonempty all)); cbn [negb] in *; auto.
Qed.
Print Assumptions framing.

(* ---------- non-vacuity: "A?;N?;B?" with A? -> 1, N? -> nothing, B? -> 2,"x" ---------- *)
Definition ex_cmds : list (bytes * Z * list op) :=
  [([65;63]%N, 1, [RI32 1]); ([78;63]%N, 2, []); ([66;63]%N, 3, [RI32 2; RTEXT [120%N]])].
Definition ex_ctx (m:bytes) : ctx :=
  {| cmds := ex_cmds; mem := m; cap := 256; first_output := true; output_count := 0; input_count := 0; cmd_error := false; arb_rem := 0;
     pd_off := 0; pd_len := 0; pd_pos := 0; cur := None; raw_off := 0; raw_len := 0; queue := []; qcap := 4; qma := false; trace := [] |}.
Example ex_table_simple m : table_simple (ex_ctx m).
Proof. unfold table_simple. cbn [cmds ex_ctx ex_cmds]. intros pat tag script [H|[H|[H|[]]]]; injection H as <- <- <-; reflexivity. Qed.
Definition ex_msg : bytes := [65;63;59;78;63;59;66;63;10]%N.
Example ex_framing :
  W (fst (scpi_parse (ex_ctx ex_msg) 9 desc_of)) = [49;59;50;44;34;120;34;13;10]%N /\
  filter nonempty (msg_items 10 (upd_out (ex_ctx ex_msg) true 0 0) 0 9 None true desc_of) = [[[49%N]]; [[50%N]; [34;120;34]%N]].
Proof. split; vm_compute; reflexivity. Qed.
