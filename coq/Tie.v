(* The tie between the constants and tables the hand-written models use and what the translator printed from the
   working tree (coq/Generated.v, rewritten on every run).  Every statement here is closed by computation: when a
   table or constant of the library changes, the corresponding theorem no longer builds and the properties that
   import it are reported as no longer shown to hold. *)
From Coq Require Import Bool List NArith ZArith Lia.
From M Require Generated RegModel ParserModel FmtModel MatchModel Dtostre.
Import ListNotations.
Local Open Scope Z_scope.

(* ---------- status registers ---------- *)
Definition regs_in_order : list RegModel.reg :=
  [RegModel.STB; RegModel.SRE; RegModel.ESR; RegModel.ESE; RegModel.OPER; RegModel.OPERE; RegModel.OPERC; RegModel.QUES; RegModel.QUESE; RegModel.QUESC].
Definition reg_at (i:Z) : option (option RegModel.reg) :=         (* -1 = SCPI_REG_NONE *)
  if i =? -1 then Some None else
  match nth_error regs_in_order (Z.to_nat i) with Some r => if 0 <=? i then Some (Some r) else None | None => None end.
Definition class_at (c:Z) : option RegModel.rclass :=
  match Generated.gen_reg_classes with
  | [a;b;c';d;e] => if c =? a then Some RegModel.C_STB else if c =? b then Some RegModel.C_SRE else if c =? c' then Some RegModel.C_EVEN
                    else if c =? d then Some RegModel.C_ENAB else if c =? e then Some RegModel.C_COND else None
  | _ => None end.
(* what scpi_reg_details / scpi_reg_group_details say about register number i, in the model's vocabulary;
   transition filters must be absent (the model has none) *)
Definition details_from_tables (i:nat) : option (RegModel.rclass * RegModel.ginfo) :=
  match nth_error Generated.gen_reg_details i with
  | Some (cls, grp) =>
    match class_at cls, nth_error Generated.gen_group_details (Z.to_nat grp) with
    | Some c, Some (ev, en, cond, pt, nt, par, bit) =>
      match reg_at ev, reg_at en, reg_at cond, reg_at par with
      | Some (Some e), Some en', Some cond', Some par' =>
        if (pt =? -1) && (nt =? -1) then
          Some (c, {| RegModel.g_event := e; RegModel.g_enable := en'; RegModel.g_cond := cond'; RegModel.g_parent := par'; RegModel.g_bit := bit |})
        else None
      | _, _, _, _ => None end
    | _, _ => None end
  | None => None end.
Theorem tie_reg_tables :
  Generated.gen_reg_count = Z.of_nat (length regs_in_order) /\
  map (fun i => details_from_tables i) (seq 0 (length regs_in_order)) = map (fun r => Some (RegModel.details r)) regs_in_order.
Proof. split; reflexivity. Qed.
Theorem tie_stb_bits : Generated.gen_stb_bits = [RegModel.SRQ; RegModel.QMA; 32; 128; 8]%N /\ Generated.gen_reg_val_bits = 16.
Proof. split; reflexivity. Qed.
Theorem tie_err_classes : RegModel.errs = Generated.gen_err_classes.
Proof. reflexivity. Qed.

(* ---------- parser constants ---------- *)
Theorem tie_line_ending : Generated.gen_line_ending = [13; 10]%N.
Proof. reflexivity. Qed.
Theorem tie_desc_max : Generated.gen_desc_max = 255.
Proof. reflexivity. Qed.
Theorem tie_bool_names : ParserModel.bool_def = Generated.gen_bool_def.
Proof. reflexivity. Qed.
Theorem tie_base_prefix :
  map (fun '(b, _) => ParserModel.base_prefix b) Generated.gen_base_prefix = map snd Generated.gen_base_prefix.
Proof. reflexivity. Qed.
(* default configuration: device-dependent info in malloc'ed memory, printf formatting with 15 / 6 significant digits *)
Definition ascii (l:list N) : list N := l.
Theorem tie_config : Generated.gen_config = [1; 1; 0; 1] /\ Generated.gen_desc_parts = 2.
Proof. split; reflexivity. Qed.
(* snprintf((s), (l), "%.15lg", (v))  and  snprintf((s), (l), "%g", (v)) *)
Theorem tie_float_formats :
  Generated.gen_double_fmt = [115;110;112;114;105;110;116;102;40;40;115;41;44;32;40;108;41;44;32;34;37;46;49;53;108;103;34;44;32;40;118;41;41]%N /\
  Generated.gen_float_fmt = [115;110;112;114;105;110;116;102;40;40;115;41;44;32;40;108;41;44;32;34;37;103;34;44;32;40;118;41;41]%N.
Proof. split; reflexivity. Qed.

(* ---------- the lexer's character classes, for every byte value ---------- *)
(* The translator asks the recognisers of lexer.c, for each of the 256 byte values, whether they accept it in the position a
   class governs (white space token; digit after #B / #Q / #H; radix letter after #; sign, exponent letter and digit of a
   decimal number; first digit of a block header; first and later characters of character data; content of a quoted string;
   content of an expression) -- independent of how lexer.c names or structures its helpers.  Each model predicate holds on
   exactly those bytes. *)
Definition bytes256 : list N := map N.of_nat (seq 0 256).
Definition same_class (p:N -> bool) (members:list N) : bool := forallb (fun c => Bool.eqb (p c) (existsb (N.eqb c) members)) bytes256.
Theorem tie_char_classes :
  same_class LexModel.isws Generated.gen_cc_isws = true /\ same_class LexModel.isbdigit Generated.gen_cc_isbdigit = true /\
  same_class LexModel.isqdigit Generated.gen_cc_isqdigit = true /\ same_class LexModel.isxdigit Generated.gen_cc_isxdigit = true /\
  same_class LexModel.isH Generated.gen_cc_isH = true /\ same_class LexModel.isB Generated.gen_cc_isB = true /\
  same_class LexModel.isQ Generated.gen_cc_isQ = true /\ same_class LexModel.isE Generated.gen_cc_isE = true /\
  same_class LexModel.isplusmn Generated.gen_cc_isplusmn = true /\ same_class LexModel.isdigit Generated.gen_cc_isdigit = true /\
  same_class (fun c => LexModel.isdigit c && negb (LexModel.ischr 48%N c)) Generated.gen_cc_isnzdigit = true /\
  same_class LexModel.isalpha Generated.gen_cc_isalpha = true /\ same_class LexModel.ismnem Generated.gen_cc_ismnem = true /\
  same_class (fun c => LexModel.isascii7 c && negb (LexModel.ischr 39%N c)) Generated.gen_cc_isascii7 = true /\
  same_class LexModel.isexpr Generated.gen_cc_isexpr = true.
Proof. vm_compute. repeat split. Qed.
(* what the finite statement means *)
Lemma same_class_spec p members : same_class p members = true -> forall c, (c < 256)%N -> p c = existsb (N.eqb c) members.
Proof.
  unfold same_class. rewrite forallb_forall. intros H c Hc. apply Bool.eqb_prop. apply H.
  unfold bytes256. apply in_map_iff. exists (N.to_nat c). split; [apply N2Nat.id|]. apply in_seq. change 256%N with (N.of_nat 256) in Hc. lia.
Qed.

(* <ctype.h> as the matcher and the strtol models rely on it *)
Theorem tie_ctype :
  same_class MatchModel.islower Generated.gen_cc_islower = true /\ same_class MatchModel.isupper Generated.gen_cc_isupper = true /\
  same_class MatchModel.isdigit Generated.gen_cc_isdigit = true /\ same_class MatchModel.isspace Generated.gen_cc_isspace = true /\
  same_class ParserModel.isspace Generated.gen_cc_isspace = true /\
  map MatchModel.tolower bytes256 = Generated.gen_tolower.
Proof. vm_compute. repeat split. Qed.

(* ---------- widths the models abstract from ---------- *)
(* ParserModel counts result items and parameters in Z and FifoProof indexes the ring in Z: the item counters have at least 32
   bits (a response of more than 32767 items is still framed) and the ring indices the 16 bits of SCPI_Init's queue size. *)
Theorem tie_widths : match Generated.gen_widths with
  | [oc; ic; wr; rd; cnt; sz] => 32 <= oc /\ 32 <= ic /\ 16 <= wr /\ 16 <= rd /\ 16 <= cnt /\ 16 <= sz
  | _ => False end.
Proof. vm_compute. repeat split; discriminate. Qed.
(* Dtostre.layout works on a buffer of 32 bytes and is proved never to leave it (DtostreLayout.dtostre_layout): the work buffer of
   SCPI_dtostre, SCPI_DTOSTRE_BUFFER_SIZE, has at least that size (a larger one changes nothing the model computes) *)
Theorem tie_dtostre_buf : Z.of_nat (length (fst (Dtostre.setb (repeat Dtostre.UNINIT 32) 0 0))) = 32 /\ 32 <= Generated.gen_dtostre_buf.
Proof. split; [reflexivity|vm_compute; discriminate]. Qed.
