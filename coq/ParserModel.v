(* Draft model of parser.c: SCPI_Parse, SCPI_Input, SCPI_Parameter, typed readers, result writers,
   processCommand, with handlers given as scripts. Default build (malloc'd error texts). *)
From Coq Require Import Bool List NArith ZArith Lia.
From M Require LexModel MatchModel FmtModel NumDecode Generated GFmt BufModel ExprModel.
Import ListNotations.
Local Open Scope bool_scope.
Local Open Scope Z_scope.

Notation bytes := (list N).
Definition zb (l:bytes) : list Z := map Z.of_N l.
Definition bz (l:list Z) : bytes := map Z.to_N l.
Definition getm (m:bytes) (i:Z) : N := if i <? 0 then 0%N else nth (Z.to_nat i) m 0%N.   (* beyond the content: the NUL *)
Definition slice (m:bytes) (off len:Z) : bytes := firstn (Z.to_nat len) (skipn (Z.to_nat off) m).
Definition dropm (m:bytes) (off:Z) : bytes := skipn (Z.to_nat off) m.
Fixpoint overwrite (m:bytes) (at_:nat) (src:bytes) : bytes :=
  match src with
  | [] => m
  | c::r => match at_, m with
            | O, _::mt => c :: overwrite mt O r
            | S a, x::mt => x :: overwrite mt a src
            | _, [] => []
            end
  end.

(* ---------- events ---------- *)
Inductive event :=
| EvH (tag:Z) (hdr:bytes)
| EvP (kind:Z) (ok:bool) (v:list Z)
| EvW (b:bytes)
| EvF
| EvE (code:Z)
| EvR (ret:bool)
| EvNum (ok:bool) (vals:list Z)
| EvI (r:bool).

(* ---------- handler scripts ---------- *)
Inductive op :=
| PI32 (m:bool) | PU32 (m:bool) | PI64 (m:bool) | PU64 (m:bool) | PBOOL (m:bool) | PCHOICE (m:bool)
| PCHARS (m:bool) | PTEXT (buflen:Z) (m:bool) | PBLOCK (m:bool) | PD (m:bool) | PF (m:bool) | PNUM (m:bool)
| RI32 (v:Z) | RU32 (v:Z) (base:Z) | RI64 (v:Z) | RU64 (v:Z) (base:Z) | RBOOL (b:bool)
| RTEXT (t:bytes) | RCHARS (t:bytes) | RBLOCK (d:bytes) | RHDR (n:Z) | RDATA (d:bytes)
| PUSH (code:Z) | NUMS (n:Z) (dflt:Z) | SYSTERR | RETERR
(* the narrow integer results, mnemonics, floating point results, SCPI_IsCmd, array results, array readers, expression entries *)
| RI8 (v:Z) | RU8 (v:Z) (base:Z) | RI16 (v:Z) | RU16 (v:Z) (base:Z) | RMNEM (t:bytes) | RD (bits:Z) | RF (bits:Z) | ISCMD (p:bytes)
| RARR (size:Z) (fmt:Z) (vals:list Z) | PARR (ty:Z) (cap:Z) (m:bool) | PEXPRN (idx:Z) (m:bool) | PEXPRC (idx:Z) (cap:Z) (m:bool).

Record ctx := {
  cmds : list (bytes * Z * list op);      (* pattern, tag, script *)
  mem : bytes;                            (* input buffer content [0, position) *)
  cap : Z;                                (* input buffer length *)
  first_output : bool; output_count : Z; input_count : Z; cmd_error : bool; arb_rem : Z;
  pd_off : Z; pd_len : Z; pd_pos : Z;     (* parameter cursor: region of mem and position inside it *)
  cur : option (bytes * Z * list op);     (* matched table entry *)
  raw_off : Z; raw_len : Z;               (* effective header *)
  queue : list (Z * option bytes); qcap : Z; qma : bool;
  trace : list event                      (* most recent first *)
}.
Definition ev (c:ctx) (e:event) : ctx :=
  {| cmds:=cmds c; mem:=mem c; cap:=cap c; first_output:=first_output c; output_count:=output_count c; input_count:=input_count c;
     cmd_error:=cmd_error c; arb_rem:=arb_rem c; pd_off:=pd_off c; pd_len:=pd_len c; pd_pos:=pd_pos c; cur:=cur c;
     raw_off:=raw_off c; raw_len:=raw_len c; queue:=queue c; qcap:=qcap c; qma:=qma c; trace:= e :: trace c |}.
(* field updates *)
Definition upd_out (c:ctx) (fo:bool) (oc:Z) (ar:Z) : ctx :=
  {| cmds:=cmds c; mem:=mem c; cap:=cap c; first_output:=fo; output_count:=oc; input_count:=input_count c;
     cmd_error:=cmd_error c; arb_rem:=ar; pd_off:=pd_off c; pd_len:=pd_len c; pd_pos:=pd_pos c; cur:=cur c;
     raw_off:=raw_off c; raw_len:=raw_len c; queue:=queue c; qcap:=qcap c; qma:=qma c; trace:= trace c |}.
Definition upd_in (c:ctx) (ic:Z) (pos:Z) : ctx :=
  {| cmds:=cmds c; mem:=mem c; cap:=cap c; first_output:=first_output c; output_count:=output_count c; input_count:=ic;
     cmd_error:=cmd_error c; arb_rem:=arb_rem c; pd_off:=pd_off c; pd_len:=pd_len c; pd_pos:=pos; cur:=cur c;
     raw_off:=raw_off c; raw_len:=raw_len c; queue:=queue c; qcap:=qcap c; qma:=qma c; trace:= trace c |}.
Definition upd_err (c:ctx) (ce:bool) (q:list (Z * option bytes)) (qm:bool) : ctx :=
  {| cmds:=cmds c; mem:=mem c; cap:=cap c; first_output:=first_output c; output_count:=output_count c; input_count:=input_count c;
     cmd_error:=ce; arb_rem:=arb_rem c; pd_off:=pd_off c; pd_len:=pd_len c; pd_pos:=pd_pos c; cur:=cur c;
     raw_off:=raw_off c; raw_len:=raw_len c; queue:=q; qcap:=qcap c; qma:=qm; trace:= trace c |}.
Definition upd_mem (c:ctx) (m:bytes) : ctx :=
  {| cmds:=cmds c; mem:=m; cap:=cap c; first_output:=first_output c; output_count:=output_count c; input_count:=input_count c;
     cmd_error:=cmd_error c; arb_rem:=arb_rem c; pd_off:=pd_off c; pd_len:=pd_len c; pd_pos:=pd_pos c; cur:=cur c;
     raw_off:=raw_off c; raw_len:=raw_len c; queue:=queue c; qcap:=qcap c; qma:=qma c; trace:= trace c |}.
Definition upd_unit (c:ctx) (e:bytes * Z * list op) (po pl ro rl:Z) : ctx :=
  {| cmds:=cmds c; mem:=mem c; cap:=cap c; first_output:=first_output c; output_count:=output_count c; input_count:=input_count c;
     cmd_error:=cmd_error c; arb_rem:=arb_rem c; pd_off:=po; pd_len:=pl; pd_pos:=0; cur:=Some e;
     raw_off:=ro; raw_len:=rl; queue:=queue c; qcap:=qcap c; qma:=qma c; trace:= trace c |}.
Definition upd_flags (c:ctx) (ce:bool) (oc ic ar:Z) : ctx :=
  {| cmds:=cmds c; mem:=mem c; cap:=cap c; first_output:=first_output c; output_count:=oc; input_count:=ic;
     cmd_error:=ce; arb_rem:=ar; pd_off:=pd_off c; pd_len:=pd_len c; pd_pos:=pd_pos c; cur:=cur c;
     raw_off:=raw_off c; raw_len:=raw_len c; queue:=queue c; qcap:=qcap c; qma:=qma c; trace:= trace c |}.

(* ---------- error queue (abstract bounded FIFO; the ring is C10's business) ---------- *)
Fixpoint cstr (n:nat) (l:bytes) : bytes :=     (* strndup: at most n bytes, stop at NUL *)
  match n with O => [] | S n' => match l with c::r => if (c =? 0)%N then [] else c :: cstr n' r | [] => [] end end.
Definition replace_last {A} (l:list A) (x:A) : list A := removelast l ++ [x].
Definition error_push (c:ctx) (code:Z) (info:option (bytes * Z)) : ctx :=
  let text := match info with
              | Some (t, n) => let n' := if n =? 0 then Z.of_nat (length (cstr 255 t)) else n in Some (cstr (Z.to_nat n') t)
              | None => None end in
  let full := Z.of_nat (length (queue c)) =? qcap c in
  let q' := if full then replace_last (queue c) (-350, None) else queue c ++ [(code, text)] in
  let c1 := ev (upd_err c true q' true) (EvE code) in
  if full then ev c1 (EvE (-350)) else c1.
Definition emit_empty (c:ctx) : ctx :=
  if (Z.of_nat (length (queue c)) =? 0) && qma c then ev (upd_err c (cmd_error c) (queue c) false) (EvE 0) else c.

(* ---------- output ---------- *)
Definition write (c:ctx) (b:bytes) : ctx := match b with [] => c | _ => ev c (EvW b) end.
Definition delimiter (c:ctx) : ctx := if 0 <? output_count c then write c [44%N] else if negb (first_output c) then write c [59%N] else c.
Definition item (c:ctx) (b:list bytes) : ctx :=      (* delimiter, the pieces, output_count++ *)
  let c1 := fold_left write b (delimiter c) in upd_out c1 (first_output c1) (output_count c1 + 1) (arb_rem c1).
Definition base_prefix (base:Z) : bytes :=
  if base =? 2 then [35;66]%N else if base =? 8 then [35;81]%N else if base =? 16 then [35;72]%N else [].
Definition result_int (c:ctx) (w:Z) (v:Z) (base:Z) (sign:bool) : ctx :=
  let '(s,_,_) := FmtModel.int2str w v (w+1) base sign in item c [base_prefix base; bz s].
Fixpoint quote_text (t:bytes) : bytes :=
  match t with [] => [] | c::r => if (c =? 34)%N then 34%N :: 34%N :: quote_text r else c :: quote_text r end.
(* SCPI_ResultText writes piecewise; the concatenation is what matters; data is a C string *)
Definition result_text (c:ctx) (t:bytes) : ctx := item c [[34%N]; quote_text (cstr (length t) t); [34%N]].
Definition block_header (n:Z) : bytes :=
  let '(s,_,_) := FmtModel.int2str 32 n 10 10 false in 35%N :: Z.to_N (48 + Z.of_nat (length s)) :: bz s.
Definition result_hdr (c:ctx) (n:Z) : ctx :=
  let c1 := write (delimiter c) (block_header n) in upd_out c1 (first_output c1) (output_count c1) n.
Definition result_data (c:ctx) (d:bytes) : ctx :=
  let n := Z.of_nat (length d) in
  if arb_rem c <? n then error_push c (-310) None
  else let rem := arb_rem c - n in
       let c1 := upd_out c (first_output c) (if rem =? 0 then output_count c + 1 else output_count c) rem in
       write c1 d.
Definition result_error (c:ctx) (code:Z) (info:option bytes) (desc:bytes) : ctx :=
  (* SCPI_ResultInt32(code); then the quoted part WITHOUT a further output_count++ *)
  let all := bz (FmtModel.result_error code (zb desc) (option_map zb info) 255) in
  let '(digits,_,_) := FmtModel.int2str 32 code 33 10 true in
  let nd := length digits in
  let c1 := item c [bz digits] in
  write c1 (skipn nd all).

(* ---------- strtol family ---------- *)
Definition isspace (c:N) := ((c =? 32) || ((9 <=? c) && (c <=? 13)))%N.
Definition digval (c:N) : Z :=
  if ((48 <=? c) && (c <=? 57))%N then Z.of_N c - 48
  else if ((65 <=? c) && (c <=? 90))%N then Z.of_N c - 55
  else if ((97 <=? c) && (c <=? 122))%N then Z.of_N c - 87 else 99.
Fixpoint digs (base:Z) (l:bytes) (acc n:Z) : Z * Z :=
  match l with c::r => if digval c <? base then digs base r (acc*base + digval c) (n+1) else (acc,n) | [] => (acc,n) end.
Fixpoint skipsp (l:bytes) (n:Z) : bytes * Z := match l with c::r => if isspace c then skipsp r (n+1) else (l,n) | [] => (l,n) end.
(* returns (consumed, magnitude, negative?) *)
Definition strto (l:bytes) (base:Z) : Z * Z * bool :=
  let '(l1,nws) := skipsp l 0 in
  let neg := (hd 0%N l1 =? 45)%N in
  let sgn := neg || (hd 0%N l1 =? 43)%N in
  let l2 := if sgn then tl l1 else l1 in
  let pfx := (base =? 16) && (hd 0%N l2 =? 48)%N && ((hd 0%N (tl l2) =? 120) || (hd 0%N (tl l2) =? 88))%N && (digval (hd 0%N (tl (tl l2))) <? 16) in
  let l3 := if pfx then tl (tl l2) else l2 in
  let '(v,nd) := digs base l3 0 0 in
  if nd =? 0 then (0,0,false) else (nws + (if sgn then 1 else 0) + (if pfx then 2 else 0) + nd, v, neg).
Definition wrapu (w:Z) (v:Z) := v mod 2^w.
Definition wraps (w:Z) (v:Z) := let m := v mod 2^w in if m <? 2^(w-1) then m else m - 2^w.
Definition strtol_val (v:Z) (neg:bool) : Z := if neg then Z.max (-v) (-2^63) else Z.min v (2^63-1).
Definition strtoul_val (v:Z) (neg:bool) : Z := if 2^64 <=? v then 2^64-1 else if neg then (2^64 - v) mod 2^64 else v.

(* ---------- SCPI_Parameter ---------- *)
Definition tok_valid (t:LexModel.ttype) : bool :=
  match t with
  | LexModel.T_HEXNUM | LexModel.T_OCTNUM | LexModel.T_BINNUM | LexModel.T_MNEMONIC | LexModel.T_DECIMAL
  | LexModel.T_DECIMAL_SUFFIX | LexModel.T_BLOCK | LexModel.T_SQUOTE | LexModel.T_DQUOTE | LexModel.T_EXPR => true
  | _ => false end.
(* result: (ok, token with ABSOLUTE ptr, "absent" flag) *)
Definition parameter (c:ctx) (mandatory:bool) : ctx * bool * LexModel.token :=
  let none := {| LexModel.ty := LexModel.T_UNKNOWN; LexModel.ptr := 0; LexModel.len := 0 |} in
  if pd_len c <=? pd_pos c then
    if mandatory then (error_push c (-109) None, false, none)
    else (c, false, {| LexModel.ty := LexModel.T_MNEMONIC; LexModel.ptr := 0; LexModel.len := 0 |})
  else
    let region := slice (mem c) (pd_off c) (pd_len c) in
    let go (c:ctx) (pos:Z) :=
      let r := LexModel.parse_program_data (dropm region pos) in
      let c1 := upd_in c (input_count c + 1) (pos + LexModel.disp r) in
      let t := LexModel.tok r in
      if tok_valid (LexModel.ty t)
      then (c1, true, {| LexModel.ty := LexModel.ty t; LexModel.ptr := pd_off c + pos + LexModel.ptr t; LexModel.len := LexModel.len t |})
      else (error_push c1 (-151) None, false, none) in
    if negb (input_count c =? 0) then
      let cm := LexModel.lex_comma (dropm region (pd_pos c)) in
      if LexModel.ret cm =? 0 then (error_push c (-103) None, false, none)
      else go c (pd_pos c + 1)
    else go c (pd_pos c).

Definition is_number (t:LexModel.ttype) (suffix_allowed:bool) : bool :=
  match t with
  | LexModel.T_HEXNUM | LexModel.T_OCTNUM | LexModel.T_BINNUM | LexModel.T_DECIMAL => true
  | LexModel.T_DECIMAL_SUFFIX => suffix_allowed
  | _ => false end.
(* ParamSignToUInt32 / 64: (ok, value) ; w = 32|64 *)
Definition param_to_int (c:ctx) (t:LexModel.token) (w:Z) (sign:bool) : bool * Z :=
  let txt := dropm (mem c) (LexModel.ptr t) in
  let conv (base:Z) (signed:bool) :=
    let '(used, v, neg) := strto txt base in
    let raw := if signed then strtol_val v neg else strtoul_val v neg in
    (0 <? used, if sign then wraps w raw else wrapu w raw) in
  match LexModel.ty t with
  | LexModel.T_HEXNUM => conv 16 false
  | LexModel.T_OCTNUM => conv 8 false
  | LexModel.T_BINNUM => conv 2 false
  | LexModel.T_DECIMAL | LexModel.T_DECIMAL_SUFFIX => conv 10 sign
  | _ => (false, 0)
  end.
Definition param_int (c:ctx) (w:Z) (sign mandatory:bool) : ctx * bool * Z :=
  let '(c1, ok, t) := parameter c mandatory in
  if ok then
    if is_number (LexModel.ty t) false then let '(r,v) := param_to_int c1 t w sign in (c1, r, v)
    else if is_number (LexModel.ty t) true then (error_push c1 (-138) None, false, 0)
    else (error_push c1 (-104) None, false, 0)
  else (c1, false, 0).

(* SCPI_ParamToChoice over a (name, tag) list *)
Definition choice_lookup (opts:list (bytes * Z)) (s:bytes) : option Z :=
  let fix go (o:list (bytes*Z)) := match o with
      | [] => None
      | (nm,tg)::r => if fst (MatchModel.matchPattern nm (Z.of_nat (length nm)) s (Z.of_nat (length s)) false) then Some tg else go r end in go opts.
Definition param_to_choice (c:ctx) (t:LexModel.token) (opts:list (bytes*Z)) : ctx * bool * Z :=
  match LexModel.ty t with
  | LexModel.T_MNEMONIC =>
      match choice_lookup opts (slice (mem c) (LexModel.ptr t) (LexModel.len t)) with
      | Some tg => (c, true, tg)
      | None => (error_push c (-224) None, false, 0)
      end
  | _ => (error_push c (-104) None, false, 0)
  end.
Definition bool_def : list (bytes*Z) := [([79;70;70]%N, 0); ([79;78]%N, 1)].
Definition choice_def : list (bytes*Z) := [([66;85;83]%N, 5); ([73;77;77;101;100;105;97;116;101]%N, 6); ([69;88;84;101;114;110;97;108]%N, 7)].
Definition param_bool (c:ctx) (mandatory:bool) : ctx * bool * Z :=
  let '(c1, ok, t) := parameter c mandatory in
  if ok then
    match LexModel.ty t with
    | LexModel.T_DECIMAL => let '(_,v) := param_to_int c1 t 32 true in (c1, true, if v =? 0 then 0 else 1)
    | _ => let '(c2, r, v) := param_to_choice c1 t bool_def in (c2, r, if v =? 0 then 0 else 1)
    end
  else (c1, false, 0).
Definition param_choice (c:ctx) (mandatory:bool) : ctx * bool * Z :=
  let '(c1, ok, t) := parameter c mandatory in
  if ok then param_to_choice c1 t choice_def else (c1, false, 0).
Definition is_quote (t:LexModel.ttype) := match t with LexModel.T_SQUOTE | LexModel.T_DQUOTE => true | _ => false end.
Definition param_chars (c:ctx) (mandatory:bool) : ctx * bool * bytes :=
  let '(c1, ok, t) := parameter c mandatory in
  if ok then
    (c1, true, if is_quote (LexModel.ty t) then slice (mem c1) (LexModel.ptr t + 1) (LexModel.len t - 2)
               else slice (mem c1) (LexModel.ptr t) (LexModel.len t))
  else (c1, false, []).
(* SCPI_ParamCopyText: (ok, bytes stored, copy_len, NUL stored?) *)
Fixpoint copy_loop (fuel:nat) (src:bytes) (q:N) (ifrom ito:Z) (plen buflen:Z) (out:bytes) : bytes * Z :=
  match fuel with O => (out, ito) | S f =>
    if (plen - 1 <=? ifrom) then (out, ito)
    else if buflen <=? ifrom then (out, ito)
    else let ch := getm src ifrom in
         let ifrom' := if (ch =? q)%N then ifrom + 2 else ifrom + 1 in
         copy_loop f src q ifrom' (ito+1) plen buflen (out ++ [ch])
  end.
Definition param_text (c:ctx) (buflen:Z) (mandatory:bool) : ctx * bool * bytes * bool :=
  let '(c1, ok, t) := parameter c mandatory in
  if ok then
    if is_quote (LexModel.ty t) then
      let q := match LexModel.ty t with LexModel.T_SQUOTE => 39%N | _ => 34%N end in
      let src := dropm (mem c1) (LexModel.ptr t) in
      let '(out, ito) := copy_loop (S (Z.to_nat (LexModel.len t))) src q 1 0 (LexModel.len t) buflen [] in
      (c1, true, out, ito <? buflen)
    else (error_push c1 (-104) None, false, [], false)
  else (c1, false, [], false).
Definition param_block (c:ctx) (mandatory:bool) : ctx * bool * bytes :=
  let '(c1, ok, t) := parameter c mandatory in
  if ok then
    match LexModel.ty t with
    | LexModel.T_BLOCK => (c1, true, slice (mem c1) (LexModel.ptr t) (LexModel.len t))
    | _ => (error_push c1 (-104) None, false, [])
    end
  else (c1, false, []).


(* ---------- floating point readers and SCPI_ParamNumber ---------- *)
Definition param_to_double_bits (c:ctx) (t:LexModel.token) : Z :=
  match LexModel.ty t with
  | LexModel.T_HEXNUM | LexModel.T_OCTNUM | LexModel.T_BINNUM => NumDecode.u64_to_double_bits (snd (param_to_int c t 64 false))
  | LexModel.T_DECIMAL | LexModel.T_DECIMAL_SUFFIX => NumDecode.strtod_bits (dropm (mem c) (LexModel.ptr t))
  | _ => 0 end.
Definition param_to_float_bits (c:ctx) (t:LexModel.token) : Z :=
  match LexModel.ty t with
  | LexModel.T_HEXNUM | LexModel.T_OCTNUM | LexModel.T_BINNUM => NumDecode.u32_to_float_bits (snd (param_to_int c t 32 false))
  | LexModel.T_DECIMAL | LexModel.T_DECIMAL_SUFFIX => NumDecode.strtof_bits (dropm (mem c) (LexModel.ptr t))
  | _ => 0 end.
Definition param_fp (c:ctx) (dbl:bool) (mandatory:bool) : ctx * bool * Z :=
  let '(c1, ok, t) := parameter c mandatory in
  if ok then
    if is_number (LexModel.ty t) false then (c1, true, if dbl then param_to_double_bits c1 t else param_to_float_bits c1 t)
    else if is_number (LexModel.ty t) true then (error_push c1 (-138) None, false, 0)
    else (error_push c1 (-104) None, false, 0)
  else (c1, false, 0).
(* translateUnit: first row whose name equals the text ignoring case *)
Definition unit_lookup (s:bytes) : option (Z * Z) :=
  let fix go (u:list (bytes*Z*Z)) := match u with
    | [] => None
    | (nm,un,mult)::r => if MatchModel.compareStr s (Z.of_nat (length s)) nm (Z.of_nat (length nm)) then Some (un,mult) else go r end in go Generated.gen_units.
Fixpoint skip_isspace (l:bytes) : bytes := match l with ch::r => if isspace ch then skip_isspace r else l | [] => [] end.
(* result: ok, [special; tag-or-valuebits; unit; base] *)
Definition param_number (c:ctx) (mandatory:bool) : ctx * bool * list Z :=
  let '(c1, ok, t) := parameter c mandatory in
  if negb ok then (c1, false, []) else
  let base := match LexModel.ty t with LexModel.T_BINNUM => 2 | LexModel.T_HEXNUM => 16 | LexModel.T_OCTNUM => 8 | _ => 10 end in
  match LexModel.ty t with
  | LexModel.T_DECIMAL | LexModel.T_HEXNUM | LexModel.T_OCTNUM | LexModel.T_BINNUM =>
      (c1, true, [0; param_to_double_bits c1 t; 0; base])
  | LexModel.T_DECIMAL_SUFFIX =>
      let region := slice (mem c1) (LexModel.ptr t) (LexModel.len t) in
      let d := LexModel.lex_decimal region in
      let r1 := dropm region (LexModel.disp d) in
      let w := LexModel.lex_ws r1 in
      let r2 := dropm r1 (LexModel.disp w) in
      let sfx := LexModel.lex_suffix r2 in
      let stext := skip_isspace (firstn (Z.to_nat (LexModel.len (LexModel.tok sfx))) r2) in
      let v := param_to_double_bits c1 t in
      match stext with
      | [] => (c1, true, [0; v; 0; base])
      | _ => match unit_lookup stext with
             | Some (un,mult) => (c1, true, [0; NumDecode.mul64_bits v mult; un; base])
             | None => (error_push c1 (-131) None, false, [])
             end
      end
  | LexModel.T_MNEMONIC =>
      let '(c2, r, tag) := param_to_choice c1 t Generated.gen_specials in
      (c2, r, [1; tag; 0; base])
  | _ => (error_push c1 (-104) None, false, [])
  end.

(* ---------- error descriptions needed by SYSTERR (subset; the real table is generated) ---------- *)
Definition desc_of (code:Z) : bytes :=
  let s (l:list Z) := bz l in
  if code =? 0 then s [78;111;32;101;114;114;111;114]
  else if code =? -350 then s [81;117;101;117;101;32;111;118;101;114;102;108;111;119]
  else s [63].   (* placeholder: the driver compares SYSTERR output only for codes it knows *)

(* ---------- array results (SCPI_ResultArrayUInt8/16/32/64), array readers, expression entries ---------- *)
Definition native_le : bool := Generated.gen_native_format =? 2.          (* SCPI_GetNativeFormat() = SCPI_FORMAT_LITTLEENDIAN *)
Definition arr_host (size:Z) (v:Z) : bytes := bz (if native_le then BufModel.le_bytes (Z.to_nat size) v else BufModel.be_bytes (Z.to_nat size) v).
Definition arr_swapped (size:Z) (v:Z) : Z :=
  if size =? 1 then v else if size =? 2 then BufModel.swap16 v else if size =? 4 then BufModel.swap32 v else BufModel.swap64 v.
Definition result_array (c:ctx) (size fmt:Z) (vals:list Z) : ctx :=
  if fmt =? 0 then fold_left (fun c v => result_int c (if size =? 8 then 64 else 32) v 10 false) vals c
  else
    let n := Z.of_nat (length vals) * size in
    if fmt =? Generated.gen_native_format then result_data (result_hdr c n) (flat_map (arr_host size) vals)
    else
      let c1 := result_hdr c n in
      match vals with
      | [] => result_data c1 []
      | _ => if size =? 1 then result_data c1 (flat_map (arr_host size) vals)
             else fold_left (fun c v => result_data c (arr_host size (arr_swapped size v))) vals c1
      end.
(* PARAM_ARRAY_TEMPLATE: read up to n elements; only the first may be mandatory *)
Fixpoint param_array (n:nat) (rd:ctx -> bool -> ctx * bool * Z) (c:ctx) (m:bool) (acc:list Z) : ctx * bool * list Z :=
  match n with
  | O => (c, m, acc)
  | S n' => let '(c1, ok, v) := rd c m in if ok then param_array n' rd c1 false (acc ++ [v]) else (c1, m, acc)
  end.
Definition array_reader (ty:Z) (c:ctx) (m:bool) : ctx * bool * Z :=
  if ty =? 13 then param_int c 32 true m else if ty =? 14 then param_int c 32 false m
  else if ty =? 15 then param_int c 64 true m else if ty =? 16 then param_int c 64 false m
  else if ty =? 17 then param_fp c true m else param_fp c false m.
Definition eres_code (r:ExprModel.eres) : Z := match r with ExprModel.EOK => 0 | ExprModel.EERR => 1 | ExprModel.ENOMORE => 2 end.
Definition b2z (b:bool) : Z := if b then 1 else 0.
(* SCPI_ExprNumericListEntry on a parameter token: (context, what the handler reports) *)
Definition expr_numlist (c:ctx) (t:LexModel.token) (idx:Z) : ctx * list Z :=
  match LexModel.ty t with
  | LexModel.T_EXPR =>
      let body := slice (mem c) (LexModel.ptr t + 1) (LexModel.len t - 2) in
      let '(r, isr, (fo, fl), (to, tl_)) := ExprModel.numlist_walk (S (length body)) body 0 0 idx in
      let c1 := match r with ExprModel.EERR => error_push c (-170) None | _ => c end in
      (c1, eres_code r :: match r with ExprModel.EOK => [b2z isr; fo + 1; fl] ++ (if isr then [to + 1; tl_] else []) | _ => [] end)
  | _ => (error_push c (-104) None, [1])
  end.
Definition expr_chanlist (c:ctx) (t:LexModel.token) (idx cap:Z) : ctx * list Z :=
  match LexModel.ty t with
  | LexModel.T_EXPR =>
      let body := slice (mem c) (LexModel.ptr t + 1) (LexModel.len t - 2) in
      let '(r, isr, vf, vt, dims, nerr) := ExprModel.chanlist_entry body idx cap in
      let c1 := if 0 <? nerr then error_push c (-170) None else c in
      let m := Z.to_nat (Z.min cap dims) in
      (c1, eres_code r :: match r with ExprModel.EOK => [b2z isr; dims] ++ firstn m vf ++ (if isr then firstn m vt else []) | _ => [] end)
  | _ => (error_push c (-104) None, [1])
  end.

(* ---------- running a script ---------- *)
(* policy: a failed read aborts with SCPI_RES_ERR if the parameter was mandatory or an error occurred, else continues *)
Definition after_read (c:ctx) (ok mandatory:bool) : bool (* continue? *) := ok || (negb mandatory && negb (cmd_error c)).
Fixpoint run_script (s:list op) (c:ctx) (descs:Z -> bytes) : ctx * bool (* handler returned OK *) :=
  match s with
  | [] => (c, true)
  | o :: rest =>
    let cont (c':ctx) (go:bool) := if go then run_script rest c' descs else (c', false) in
    match o with
    | PI32 m => let '(c1,ok,v) := param_int c 32 true m in cont (ev c1 (EvP 1 ok (if ok then [v] else []))) (after_read c1 ok m)
    | PU32 m => let '(c1,ok,v) := param_int c 32 false m in cont (ev c1 (EvP 2 ok (if ok then [v] else []))) (after_read c1 ok m)
    | PI64 m => let '(c1,ok,v) := param_int c 64 true m in cont (ev c1 (EvP 3 ok (if ok then [v] else []))) (after_read c1 ok m)
    | PU64 m => let '(c1,ok,v) := param_int c 64 false m in cont (ev c1 (EvP 4 ok (if ok then [v] else []))) (after_read c1 ok m)
    | PBOOL m => let '(c1,ok,v) := param_bool c m in cont (ev c1 (EvP 5 ok (if ok then [v] else []))) (after_read c1 ok m)
    | PCHOICE m => let '(c1,ok,v) := param_choice c m in cont (ev c1 (EvP 6 ok (if ok then [v] else []))) (after_read c1 ok m)
    | PCHARS m => let '(c1,ok,v) := param_chars c m in cont (ev c1 (EvP 7 ok (if ok then zb v else []))) (after_read c1 ok m)
    | PTEXT bl m => let '(c1,ok,v,nul) := param_text c bl m in cont (ev c1 (EvP 8 ok (if ok then (if nul then 1 else 0) :: zb v else []))) (after_read c1 ok m)
    | PBLOCK m => let '(c1,ok,v) := param_block c m in cont (ev c1 (EvP 9 ok (if ok then zb v else []))) (after_read c1 ok m)
    | PD m => let '(c1,ok,v) := param_fp c true m in cont (ev c1 (EvP 10 ok (if ok then [v] else []))) (after_read c1 ok m)
    | PF m => let '(c1,ok,v) := param_fp c false m in cont (ev c1 (EvP 11 ok (if ok then [v] else []))) (after_read c1 ok m)
    | PNUM m => let '(c1,ok,v) := param_number c m in cont (ev c1 (EvP 12 ok (if ok then v else []))) (after_read c1 ok m)
    | RI32 v => cont (result_int c 32 v 10 true) true
    | RU32 v b => cont (result_int c 32 v b false) true
    | RI64 v => cont (result_int c 64 v 10 true) true
    | RU64 v b => cont (result_int c 64 v b false) true
    | RBOOL b => cont (result_int c 32 (if b then 1 else 0) 10 false) true
    | RTEXT t => cont (result_text c t) true
    | RCHARS t => cont (item c [t]) true
    | RBLOCK d => cont (result_data (result_hdr c (Z.of_nat (length d))) d) true
    | RHDR n => cont (result_hdr c n) true
    | RDATA d => cont (result_data c d) true
    | PUSH code => cont (error_push c code None) true
    | NUMS n dflt =>
        match cur c with
        | Some (pat,_,_) =>
          match MatchModel.matchCommand pat (slice (mem c) (raw_off c) (raw_len c)) (Some (repeat (-99) (Z.to_nat n))) dflt with
          | MatchModel.Res r (Some a) => cont (ev c (EvNum r a)) true
          | MatchModel.Res r None => cont (ev c (EvNum r [])) true
          end
        | None => cont c true
        end
    | SYSTERR =>
        let '(code, info, q') := match queue c with [] => (0, None, []) | (cd,i)::r => (cd, i, r) end in
        let c1 := emit_empty (upd_err c (cmd_error c) q' (qma c)) in
        cont (result_error c1 code info (descs code)) true
    | RETERR => (c, false)
    | RI8 v => cont (result_int c 32 v 10 true) true
    | RU8 v b => cont (result_int c 32 v b false) true
    | RI16 v => cont (result_int c 32 v 10 true) true
    | RU16 v b => cont (result_int c 32 v b false) true
    | RMNEM t => cont (item c [cstr (length t) t]) true
    | RD bits => cont (item c [bz (GFmt.fmt_double 15 bits)]) true
    | RF bits => cont (item c [bz (GFmt.fmt_float 6 bits)]) true
    | ISCMD p =>
        match cur c with
        | Some (pat,_,_) => match MatchModel.matchCommand pat p None 0 with MatchModel.Res r _ => cont (ev c (EvI r)) true end
        | None => cont (ev c (EvI false)) true
        end
    | RARR size fmt vals => cont (result_array c size fmt vals) true
    | PARR ty cap m =>
        let '(c1, m1, vals) := param_array (Z.to_nat cap) (array_reader ty) c m [] in
        let ok := negb m1 in
        cont (ev c1 (EvP ty ok (if ok then vals else []))) (after_read c1 ok m)
    | PEXPRN idx m =>
        let '(c1, ok, t) := parameter c m in
        if ok then let '(c2, rep) := expr_numlist c1 t idx in cont (ev c2 (EvP 19 true rep)) true
        else cont (ev c1 (EvP 19 false [])) (after_read c1 false m)
    | PEXPRC idx cap m =>
        let '(c1, ok, t) := parameter c m in
        if ok then let '(c2, rep) := expr_chanlist c1 t idx cap in cont (ev c2 (EvP 20 true rep)) true
        else cont (ev c1 (EvP 20 false [])) (after_read c1 false m)
    end
  end.

(* ---------- composeCompoundCommand on the message memory ---------- *)
Fixpoint last_colon (l:bytes) (i:nat) : Z :=      (* i = prev.len down to 0: largest i with l[i-1] = ':' *)
  match i with O => 0 | S i' => if (nth i' l 0%N =? 58)%N then Z.of_nat i else last_colon l i' end.
Definition compose (m:bytes) (prev:option (Z*Z)) (cptr clen:Z) : bytes * Z * Z :=
  match prev with
  | None => (m, cptr, clen)
  | Some (pptr, plen) =>
    if plen =? 0 then (m, cptr, clen) else
    let c0 := getm m cptr in
    if ((c0 =? 42) || (c0 =? 58))%N then (m, cptr, clen) else
    if (getm m pptr =? 42)%N then (m, cptr, clen) else
    let i := last_colon (slice m pptr plen) (Z.to_nat plen) in
    if i =? 0 then (m, cptr, clen) else
    (overwrite m (Z.to_nat (cptr - i)) (slice m pptr i), cptr - i, clen + i)
  end.

Definition find_cmd (c:ctx) (hdr:bytes) : option (bytes * Z * list op) :=
  let fix go (l:list (bytes*Z*list op)) := match l with
     | [] => None
     | (pat,tg,sc)::r => match MatchModel.matchCommand pat hdr None 0 with MatchModel.Res true _ => Some (pat,tg,sc) | _ => go r end end in
  go (cmds c).

(* ---------- processCommand ---------- *)
Definition process_command (c:ctx) (descs:Z->bytes) : ctx * bool :=
  match cur c with None => (c, true) | Some (pat, tag, script) =>
  let c1 := upd_flags c false 0 0 0 in
  let c2 := ev c1 (EvH tag (slice (mem c1) (raw_off c1) (raw_len c1))) in
  let '(c3, okret) := run_script script c2 descs in
  let '(c4, result) :=
    if negb okret then ((if negb (cmd_error c3) then error_push c3 (-200) None else c3), false)
    else if cmd_error c3 then (c3, false) else (c3, true) in
  let c5 := if 0 <? output_count c4 then upd_out c4 false (output_count c4) (arb_rem c4) else c4 in
  if (pd_pos c5 <? pd_len c5) && negb (cmd_error c5) then (error_push c5 (-108) None, false) else (c5, result)
  end.

(* ---------- SCPI_Parse ---------- *)
Fixpoint trim_crlf (m:bytes) (off:Z) (r:nat) : Z :=
  match r with O => 0 | S r' => let ch := getm m (off + Z.of_nat r') in if ((ch =? 13) || (ch =? 10))%N then trim_crlf m off r' else Z.of_nat r end.
Fixpoint parse_loop (fuel:nat) (c:ctx) (off len:Z) (prev:option (Z*Z)) (result:bool) (descs:Z->bytes) : ctx * bool :=
  match fuel with O => (c, result) | S f =>
    let u := LexModel.detect_unit (slice (mem c) off len) in
    let r := LexModel.u_consumed u in
    let h := LexModel.u_hdr u in
    let '(c1, prev1, result1) :=
      match LexModel.ty h with
      | LexModel.T_INVALID => (error_push c (-101) None, prev, false)
      | _ =>
        if 0 <? LexModel.len h then
          let '(m1, hp, hl) := compose (mem c) prev (off + LexModel.ptr h) (LexModel.len h) in
          let c' := upd_mem c m1 in
          match find_cmd c' (slice m1 hp hl) with
          | Some e =>
              let d := LexModel.u_data u in
              let c'' := upd_unit c' e (off + LexModel.ptr d) (LexModel.len d) hp hl in
              let '(c3, res) := process_command c'' descs in
              (c3, Some (hp, hl), result && res)
          | None =>
              let r2 := trim_crlf m1 off (Z.to_nat r) in
              (error_push c' (-113) (Some (dropm m1 off, r2)), Some (hp, hl), false)
          end
        else (c, prev, result)
      end in
    if r <? len then parse_loop f c1 (off + r) (len - r) prev1 result1 descs else (c1, result1)
  end.
Definition scpi_parse (c:ctx) (len:Z) (descs:Z->bytes) : ctx * bool :=
  let c0 := upd_out c true 0 (arb_rem c) in
  let '(c1, res) := parse_loop (S (Z.to_nat len)) c0 0 len None true descs in
  let c2 := if negb (first_output c1) then ev (write c1 [13;10]%N) EvF else c1 in
  (upd_out c2 true (output_count c2) (arb_rem c2), res).

(* ---------- SCPI_Input ---------- *)
Fixpoint input_loop (fuel:nat) (c:ctx) (tot:Z) (result:bool) (descs:Z->bytes) : ctx * bool :=
  match fuel with O => (c, result) | S f =>
    let position := Z.of_nat (length (mem c)) in
    let u := LexModel.detect_unit (dropm (mem c) tot) in
    let tot1 := tot + LexModel.u_consumed u in
    match LexModel.u_term u with
    | LexModel.TERM_NL =>
        let '(c1, res) := scpi_parse c tot1 descs in
        input_loop f (upd_mem c1 (dropm (mem c1) tot1)) 0 res descs
    | _ =>
        if (match LexModel.ty (LexModel.u_hdr u) with LexModel.T_UNKNOWN => true | _ => false end)
           && (match LexModel.u_term u with LexModel.TERM_NONE => true | _ => false end) then (c, result)
        else if position <=? tot1 then (c, result)
        else input_loop f c tot1 result descs
    end
  end.
Definition scpi_input (c:ctx) (data:bytes) (descs:Z->bytes) : ctx :=
  let position := Z.of_nat (length (mem c)) in
  let len := Z.of_nat (length data) in
  if len =? 0 then
    let '(c1, res) := scpi_parse c position descs in ev (upd_mem c1 []) (EvR res)
  else
    if (cap c - position - 1) <? len then ev (error_push (upd_mem c []) (-363) None) (EvR false)
    else
      let c1 := upd_mem c (mem c ++ data) in
      let '(c2, res) := input_loop (S (S (length (mem c1)))) c1 0 true descs in
      ev c2 (EvR res).
