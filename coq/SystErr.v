(* C10 / C18 / C20: SYST:ERR? (SCPI_SystemErrorNextQ) composes the queue pop with the response formatter.
   Malloc configuration: the wrapper refines the abstract FIFO and its output is the formatted head entry.
   Static-heap configuration: the output is the formatted head entry with exactly the text it was pushed with (or none). *)
From Coq Require Import Bool List ZArith Lia Permutation.
From M Require Import FifoProof HeapProof QStatic FmtModel ErrSpec.
From M Require ErrQueue.
From M Require Glue Generated.
Import ListNotations.
Local Open Scope Z_scope.

Theorem systerr_refines s : ErrQueue.QInv s ->
  let '(s', out) := Glue.eq_systerr s in
  let '(l', (code, text)) := ErrQueue.spec_pop (ErrQueue.absq s) in
  ErrQueue.QInv s' /\ ErrQueue.absq s' = l' /\ fsize ErrQueue.entry (ErrQueue.q s') = fsize ErrQueue.entry (ErrQueue.q s) /\
  out = result_error code (Glue.descz code) text Generated.gen_desc_max.
Proof.
  intro HQ. unfold Glue.eq_systerr. pose proof (ErrQueue.pop_refines s HQ) as H.
  destruct (ErrQueue.pop s) as [[s1 [code info]] legal]. destruct H as (H1 & _ & H3 & H4).
  destruct (ErrQueue.spec_pop (ErrQueue.absq s)) as [l' [c t]]. inversion H4; subst. split; [exact H1|]. split; [reflexivity|]. split; [exact H3|reflexivity].
Qed.

(* the response itself: <code>,"<escaped longest fitting prefix of description;text>" *)
Corollary systerr_response s : ErrQueue.QInv s ->
  let '(_, (code, text)) := ErrQueue.spec_pop (ErrQueue.absq s) in
  nonul (Glue.descz code) -> (forall t, text = Some t -> nonul t) -> Generated.gen_desc_max = 255 ->
  snd (Glue.eq_systerr s) =
  fst (fst (int2str 32 code 33 10 true)) ++ [44; 34] ++ esc (take_fit 255 (whole (Glue.descz code) text)) ++ [34].
Proof.
  intro HQ. pose proof (systerr_refines s HQ) as H.
  destruct (Glue.eq_systerr s) as [s' out]. destruct (ErrQueue.spec_pop (ErrQueue.absq s)) as [l' [code text]].
  destruct H as (_ & _ & _ & ->). intros Hd Ht Hmax. cbn [snd]. rewrite Hmax. unfold result_error.
  destruct (int2str 32 code 33 10 true) as [[digits nul] r]. cbn [fst]. rewrite (quoted_part (Glue.descz code) text Hd Ht). reflexivity.
Qed.

(* static heap: the head entry comes back with exactly its text or none *)
Theorem systerr_static s st es : QH s st es ->
  let '(s', out) := Glue.hq_systerr s in
  match es with
  | [] => out = result_error 0 (Glue.descz 0) None Generated.gen_desc_max /\ QH s' st []
  | (c, tx) :: r => out = result_error c (Glue.descz c) tx Generated.gen_desc_max /\ exists st', QH s' st' r
  end.
Proof.
  intro HQ. unfold Glue.hq_systerr. pose proof (pop_static s st es HQ) as H.
  destruct (error_pop_release s) as [[code parts] s1].
  destruct es as [|[c tx] r].
  - destruct H as (-> & -> & H3 & _). split; [reflexivity|exact H3].
  - destruct H as (-> & H2 & H3 & _). split; [|exact H3]. f_equal.
    destruct parts as [[p1 [p2|]]|]; cbn [option_map] in H2; unfold join in H2; cbn [fst snd] in H2; try (rewrite <- H2; try rewrite app_nil_r; reflexivity).
Qed.
Print Assumptions systerr_refines.
Print Assumptions systerr_response.
Print Assumptions systerr_static.
