(* C10 -- property theorems only: every statement is closed by `exact` on a lemma proved elsewhere.
   Statements are pinned by coq/statements/C10.json; ./check compares. *)
From Coq Require Import Bool List NArith ZArith Lia.
From M Require ErrQueue.
From M Require FifoProof.
From M Require Tie.
From M Require SystErr.
From M Require CmdLayer.
From M Require C12Latch.
From M Require CmdModel.
From M Require ErrSpec.
From M Require FifoProof.
From M Require FmtModel.
From M Require HeapProof.
From M Require QStatic.
From M Require RegModel.
From M Require RegProofs.
Import ListNotations.

Definition C10_push_refines := @ErrQueue.push_refines.

Definition C10_pop_refines := @ErrQueue.pop_refines.

Definition C10_qrun_refines := @ErrQueue.qrun_refines.

Definition C10_clear_spec := @ErrQueue.clear_spec.

Definition C10_add_spec := @FifoProof.add_spec.

Definition C10_remove_spec := @FifoProof.remove_spec.

Definition C10_remove_last_spec := @FifoProof.remove_last_spec.

Definition C10_tie_config := @Tie.tie_config.

Definition C10_systerr_refines := @SystErr.systerr_refines.

Definition C10_systerr_response := @SystErr.systerr_response.

Definition C10_tie_widths := @Tie.tie_widths.

Definition C10_errcount_agrees_with_stb := @CmdLayer.errcount_agrees_with_stb.

