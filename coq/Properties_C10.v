(* C10 -- property theorems only: every statement is closed by `exact` on a lemma proved elsewhere.
   Statements are pinned by coq/statements/C10.json; ./check compares. *)
From Coq Require Import Bool List NArith ZArith Lia.
From M Require ErrQueue.
From M Require FifoProof.
From M Require Tie.
From M Require SystErr.
From M Require ErrSpec.
From M Require FifoProof.
From M Require FmtModel.
From M Require HeapProof.
From M Require QStatic.
Import ListNotations.

Module T_push_refines. Import ErrQueue. Local Open Scope bool_scope. Local Open Scope Z_scope.
Import FifoProof. Local Open Scope Z_scope.
Theorem C10_push_refines :
  forall s code info aok,
  QInv s ->
  let '(s', _, legal) := push s code info aok in
  QInv s' /\ legal = true /\ fsize entry (q s') = fsize entry (q s) /\
  absq s' = spec_push (fsize entry (q s)) (absq s) code (kept_text info aok).
Proof. exact (@ErrQueue.push_refines). Qed.
End T_push_refines.
Definition C10_push_refines := @T_push_refines.C10_push_refines.

Module T_pop_refines. Import ErrQueue. Local Open Scope bool_scope. Local Open Scope Z_scope.
Import FifoProof. Local Open Scope Z_scope.
Theorem C10_pop_refines :
  forall s,
  QInv s ->
  let '(s', out, legal) := pop s in
  QInv s' /\ legal = true /\ fsize entry (q s') = fsize entry (q s) /\ (absq s', out) = spec_pop (absq s).
Proof. exact (@ErrQueue.pop_refines). Qed.
End T_pop_refines.
Definition C10_pop_refines := @T_pop_refines.C10_pop_refines.

Module T_qrun_refines. Import ErrQueue. Local Open Scope bool_scope. Local Open Scope Z_scope.
Import FifoProof. Local Open Scope Z_scope.
Theorem C10_qrun_refines :
  forall ops,
  forall s, QInv s ->
  let '(s', legal) := qrun s ops in
  QInv s' /\ legal = true /\ absq s' = fold_left (spec_step (fsize entry (q s))) ops (absq s).
Proof. exact (@ErrQueue.qrun_refines). Qed.
End T_qrun_refines.
Definition C10_qrun_refines := @T_qrun_refines.C10_qrun_refines.

Module T_clear_spec. Import ErrQueue. Local Open Scope bool_scope. Local Open Scope Z_scope.
Import FifoProof. Local Open Scope Z_scope.
Theorem C10_clear_spec :
  forall s,
  QInv s -> let '(s', legal) := clear s in QInv s' /\ legal = true /\ absq s' = [] /\ live s' = [].
Proof. exact (@ErrQueue.clear_spec). Qed.
End T_clear_spec.
Definition C10_clear_spec := @T_clear_spec.C10_clear_spec.

Definition C10_add_spec := @FifoProof.add_spec.

Definition C10_remove_spec := @FifoProof.remove_spec.

Definition C10_remove_last_spec := @FifoProof.remove_last_spec.

Module T_tie_config. Import Tie. Local Open Scope bool_scope. Local Open Scope Z_scope.
Local Open Scope Z_scope.
Theorem C10_tie_config :
  Generated.gen_config = [1; 1; 0; 1] /\ Generated.gen_desc_parts = 2.
Proof. exact (@Tie.tie_config). Qed.
End T_tie_config.
Definition C10_tie_config := @T_tie_config.C10_tie_config.

Module T_systerr_refines. Import SystErr. Local Open Scope bool_scope. Local Open Scope Z_scope.
Import FifoProof HeapProof QStatic FmtModel ErrSpec. Local Open Scope Z_scope.
Theorem C10_systerr_refines :
  forall s,
  ErrQueue.QInv s ->
  let '(s', out) := Glue.eq_systerr s in
  let '(l', (code, text)) := ErrQueue.spec_pop (ErrQueue.absq s) in
  ErrQueue.QInv s' /\ ErrQueue.absq s' = l' /\ fsize ErrQueue.entry (ErrQueue.q s') = fsize ErrQueue.entry (ErrQueue.q s) /\
  out = result_error code (Glue.descz code) text Generated.gen_desc_max.
Proof. exact (@SystErr.systerr_refines). Qed.
End T_systerr_refines.
Definition C10_systerr_refines := @T_systerr_refines.C10_systerr_refines.

Module T_systerr_response. Import SystErr. Local Open Scope bool_scope. Local Open Scope Z_scope.
Import FifoProof HeapProof QStatic FmtModel ErrSpec. Local Open Scope Z_scope.
Theorem C10_systerr_response :
  forall s,
  ErrQueue.QInv s ->
  let '(_, (code, text)) := ErrQueue.spec_pop (ErrQueue.absq s) in
  nonul (Glue.descz code) -> (forall t, text = Some t -> nonul t) -> Generated.gen_desc_max = 255 ->
  snd (Glue.eq_systerr s) =
  fst (fst (int2str 32 code 33 10 true)) ++ [44; 34] ++ esc (take_fit 255 (whole (Glue.descz code) text)) ++ [34].
Proof. exact (@SystErr.systerr_response). Qed.
End T_systerr_response.
Definition C10_systerr_response := @T_systerr_response.C10_systerr_response.

Module T_tie_widths. Import Tie. Local Open Scope bool_scope. Local Open Scope Z_scope.
Local Open Scope Z_scope.
Theorem C10_tie_widths :
  match Generated.gen_widths with
  | [oc; ic; wr; rd; cnt; sz] => 32 <= oc /\ 32 <= ic /\ 16 <= wr /\ 16 <= rd /\ 16 <= cnt /\ 16 <= sz
  | _ => False end.
Proof. exact (@Tie.tie_widths). Qed.
End T_tie_widths.
Definition C10_tie_widths := @T_tie_widths.C10_tie_widths.

