(* C13 -- property theorems only: every statement is closed by `exact` on a lemma proved elsewhere.
   Statements are pinned by coq/statements/C13.json; ./check compares. *)
From Coq Require Import Bool List NArith ZArith Lia.
From M Require DecSpec.
From M Require SimpleSpecs.
From M Require MoreSpecs.
From M Require HdrSpec.
From M Require NlSpec.
From M Require UnitSpec.
From M Require HdrSound.
From M Require UnitSound.
From M Require UnitFull.
From M Require Tie.
From M Require SuffixSpec.
From M Require LexCut.
From M Require DecSpec.
From M Require HdrSound.
From M Require HdrSpec.
From M Require LexBounds.
From M Require LexModel.
From M Require ListWs.
From M Require MoreSpecs.
From M Require NumList.
From M Require SimpleSpecs.
From M Require UnitProgress.
From M Require UnitSpec.
Import ListNotations.

Module T_decimal_complete. Import DecSpec. Local Open Scope bool_scope. Local Open Scope Z_scope.
Import LexModel LexBounds. Local Open Scope Z_scope.
Theorem C13_decimal_complete :
  forall t tail,
  Dec t -> Z.of_nat (length t) <= disp (lex_decimal (t ++ tail)).
Proof. exact (@DecSpec.decimal_complete). Qed.
End T_decimal_complete.
Definition C13_decimal_complete := @T_decimal_complete.C13_decimal_complete.

Module T_decimal_sound. Import DecSpec. Local Open Scope bool_scope. Local Open Scope Z_scope.
Import LexModel LexBounds. Local Open Scope Z_scope.
Theorem C13_decimal_sound :
  forall l,
  0 < disp (lex_decimal l) -> Dec (firstn (Z.to_nat (disp (lex_decimal l))) l).
Proof. exact (@DecSpec.decimal_sound). Qed.
End T_decimal_sound.
Definition C13_decimal_sound := @T_decimal_sound.C13_decimal_sound.

Module T_lex_decimal_longest. Import DecSpec. Local Open Scope bool_scope. Local Open Scope Z_scope.
Import LexModel LexBounds. Local Open Scope Z_scope.
Theorem C13_lex_decimal_longest :
  forall s,
  longest Dec s (disp (lex_decimal s)).
Proof. exact (@DecSpec.lex_decimal_longest). Qed.
End T_lex_decimal_longest.
Definition C13_lex_decimal_longest := @T_lex_decimal_longest.C13_lex_decimal_longest.

Module T_ws_longest. Import SimpleSpecs. Local Open Scope bool_scope. Local Open Scope Z_scope.
Import LexModel LexBounds DecSpec. Local Open Scope Z_scope.
Theorem C13_ws_longest :
  forall s,
  longest Ws s (disp (lex_ws s)).
Proof. exact (@SimpleSpecs.ws_longest). Qed.
End T_ws_longest.
Definition C13_ws_longest := @T_ws_longest.C13_ws_longest.

Module T_chars_longest. Import SimpleSpecs. Local Open Scope bool_scope. Local Open Scope Z_scope.
Import LexModel LexBounds DecSpec. Local Open Scope Z_scope.
Theorem C13_chars_longest :
  forall s,
  longest Chars s (disp (lex_chardata s)).
Proof. exact (@SimpleSpecs.chars_longest). Qed.
End T_chars_longest.
Definition C13_chars_longest := @T_chars_longest.C13_chars_longest.

Module T_chr_longest. Import SimpleSpecs. Local Open Scope bool_scope. Local Open Scope Z_scope.
Import LexModel LexBounds DecSpec. Local Open Scope Z_scope.
Theorem C13_chr_longest :
  forall t k s,
  longest (One k) s (disp (lex_chr t k s)).
Proof. exact (@SimpleSpecs.chr_longest). Qed.
End T_chr_longest.
Definition C13_chr_longest := @T_chr_longest.C13_chr_longest.

Module T_expr_longest. Import SimpleSpecs. Local Open Scope bool_scope. Local Open Scope Z_scope.
Import LexModel LexBounds DecSpec. Local Open Scope Z_scope.
Theorem C13_expr_longest :
  forall s,
  longest Expr s (disp (lex_expr s)).
Proof. exact (@SimpleSpecs.expr_longest). Qed.
End T_expr_longest.
Definition C13_expr_longest := @T_expr_longest.C13_expr_longest.

Module T_nondecimal_longest. Import MoreSpecs. Local Open Scope bool_scope. Local Open Scope Z_scope.
Import LexModel LexBounds DecSpec. Local Open Scope Z_scope.
Theorem C13_nondecimal_longest :
  forall s,
  longest NonDec s (disp (lex_nondecimal s)).
Proof. exact (@MoreSpecs.nondecimal_longest). Qed.
End T_nondecimal_longest.
Definition C13_nondecimal_longest := @T_nondecimal_longest.C13_nondecimal_longest.

Module T_string_sound. Import MoreSpecs. Local Open Scope bool_scope. Local Open Scope Z_scope.
Import LexModel LexBounds DecSpec. Local Open Scope Z_scope.
Theorem C13_string_sound :
  forall s,
  0 < disp (lex_string s) ->
  exists q, quote_of s = Some q /\ Str q (firstn (Z.to_nat (disp (lex_string s))) s) /\
            starts (ischr q) (skipn (Z.to_nat (disp (lex_string s))) s) = false.
Proof. exact (@MoreSpecs.string_sound). Qed.
End T_string_sound.
Definition C13_string_sound := @T_string_sound.C13_string_sound.

Module T_string_complete. Import MoreSpecs. Local Open Scope bool_scope. Local Open Scope Z_scope.
Import LexModel LexBounds DecSpec. Local Open Scope Z_scope.
Theorem C13_string_complete :
  forall s m q,
  (q = 34%N \/ q = 39%N) -> 0 < m <= Z.of_nat (length s) ->
  Str q (firstn (Z.to_nat m) s) -> starts (ischr q) (skipn (Z.to_nat m) s) = false -> disp (lex_string s) = m.
Proof. exact (@MoreSpecs.string_complete). Qed.
End T_string_complete.
Definition C13_string_complete := @T_string_complete.C13_string_complete.

Module T_block_complete. Import MoreSpecs. Local Open Scope bool_scope. Local Open Scope Z_scope.
Import LexModel LexBounds DecSpec. Local Open Scope Z_scope.
Theorem C13_block_complete :
  forall t hdr blen rest,
  Block t hdr blen ->
  lex_block (t ++ rest) = mk T_BLOCK hdr blen (Z.of_nat (length t)) (Z.of_nat (length t)).
Proof. exact (@MoreSpecs.block_complete). Qed.
End T_block_complete.
Definition C13_block_complete := @T_block_complete.C13_block_complete.

Module T_block_sound. Import MoreSpecs. Local Open Scope bool_scope. Local Open Scope Z_scope.
Import LexModel LexBounds DecSpec. Local Open Scope Z_scope.
Theorem C13_block_sound :
  forall l,
  ty (tok (lex_block l)) = T_BLOCK ->
  let r := lex_block l in Block (firstn (Z.to_nat (disp r)) l) (ptr (tok r)) (len (tok r)) /\ ret r = disp r /\ disp r = ptr (tok r) + len (tok r).
Proof. exact (@MoreSpecs.block_sound). Qed.
End T_block_sound.
Definition C13_block_sound := @T_block_sound.C13_block_sound.

Module T_compound_complete. Import HdrSpec. Local Open Scope bool_scope. Local Open Scope Z_scope.
Import LexModel LexBounds DecSpec MoreSpecs. Local Open Scope Z_scope.
Theorem C13_compound_complete :
  forall lead m1 ms (q:bool) rest,
  Mnem m1 -> Forall Mnem ms ->
  (if q then True else hstop rest /\ starts (ischr 63%N) rest = false) ->
  let t := header_text lead m1 ms in let n := Z.of_nat (length t) + (if q then 1 else 0) in
  lex_header (t ++ (if q then 63%N :: rest else rest)) = mk (if q then T_COMPOUND_QUERY_HDR else T_COMPOUND_HDR) 0 n n n.
Proof. exact (@HdrSpec.compound_complete). Qed.
End T_compound_complete.
Definition C13_compound_complete := @T_compound_complete.C13_compound_complete.

Module T_common_complete. Import HdrSpec. Local Open Scope bool_scope. Local Open Scope Z_scope.
Import LexModel LexBounds DecSpec MoreSpecs. Local Open Scope Z_scope.
Theorem C13_common_complete :
  forall m (q:bool) rest,
  Mnem m ->
  (if q then True else mstop rest /\ starts (ischr 63%N) rest = false) ->
  let t := 42%N :: m in let n := Z.of_nat (length t) + (if q then 1 else 0) in
  lex_header (t ++ (if q then 63%N :: rest else rest)) = mk (if q then T_COMMON_QUERY_HDR else T_COMMON_HDR) 0 n n n.
Proof. exact (@HdrSpec.common_complete). Qed.
End T_common_complete.
Definition C13_common_complete := @T_common_complete.C13_common_complete.

Module T_newline_disp. Import NlSpec. Local Open Scope bool_scope. Local Open Scope Z_scope.
Import LexModel LexBounds DecSpec MoreSpecs. Local Open Scope Z_scope.
Theorem C13_newline_disp :
  forall l,
  let a := starts (ischr 13%N) l in let l1 := if a then tl l else l in let b := starts (ischr 10%N) l1 in
  disp (lex_newline l) = (if a then 1 else 0) + (if b then 1 else 0) /\ ret (lex_newline l) = disp (lex_newline l).
Proof. exact (@NlSpec.newline_disp). Qed.
End T_newline_disp.
Definition C13_newline_disp := @T_newline_disp.C13_newline_disp.

Module T_newline_sound. Import NlSpec. Local Open Scope bool_scope. Local Open Scope Z_scope.
Import LexModel LexBounds DecSpec MoreSpecs. Local Open Scope Z_scope.
Theorem C13_newline_sound :
  forall l,
  0 < disp (lex_newline l) -> NL (firstn (Z.to_nat (disp (lex_newline l))) l).
Proof. exact (@NlSpec.newline_sound). Qed.
End T_newline_sound.
Definition C13_newline_sound := @T_newline_sound.C13_newline_sound.

Module T_newline_max. Import NlSpec. Local Open Scope bool_scope. Local Open Scope Z_scope.
Import LexModel LexBounds DecSpec MoreSpecs. Local Open Scope Z_scope.
Theorem C13_newline_max :
  forall l,
  forall m, disp (lex_newline l) < m <= Z.of_nat (length l) -> ~ NL (firstn (Z.to_nat m) l).
Proof. exact (@NlSpec.newline_max). Qed.
End T_newline_max.
Definition C13_newline_max := @T_newline_max.C13_newline_max.

Module T_unit_complete. Import UnitSpec. Local Open Scope bool_scope. Local Open Scope Z_scope.
Import LexModel LexBounds DecSpec MoreSpecs NumList SimpleSpecs ListWs HdrSpec. Local Open Scope Z_scope.
Theorem C13_unit_complete :
  forall lead m1 ms (q:bool) ws1 items rest hdr l,
  Mnem m1 -> Forall Mnem ms -> ws1 <> [] -> all isws ws1 -> Forall item_ok items -> items <> [] -> first_tight items -> is_term rest ->
  hdr = header_text lead m1 ms ++ (if q then [63%N] else []) ->
  l = hdr ++ ws1 ++ list_text items ++ rest ->
  let u := detect_unit l in
  ty (u_hdr u) = (if q then T_COMPOUND_QUERY_HDR else T_COMPOUND_HDR) /\ ptr (u_hdr u) = 0 /\ len (u_hdr u) = Z.of_nat (length hdr) /\
  ptr (u_data u) = Z.of_nat (length hdr) + Z.of_nat (length ws1) /\ len (u_data u) = Z.of_nat (length (list_text items)) /\
  u_n u = Z.of_nat (length items).
Proof. exact (@UnitSpec.unit_complete). Qed.
End T_unit_complete.
Definition C13_unit_complete := @T_unit_complete.C13_unit_complete.

Module T_compound_sound. Import HdrSound. Local Open Scope bool_scope. Local Open Scope Z_scope.
Import LexModel LexBounds DecSpec MoreSpecs HdrSpec. Local Open Scope Z_scope.
Local Open Scope Z_scope.
Theorem C13_compound_sound :
  forall l,
  let r := lex_header l in
  forall q:bool, ty (tok r) = (if q then T_COMPOUND_QUERY_HDR else T_COMPOUND_HDR) ->
  exists lead m1 ms rest, Mnem m1 /\ Forall Mnem ms /\
    l = header_text lead m1 ms ++ (if q then 63%N :: rest else rest) /\
    (q = false -> hstop rest /\ starts (ischr 63%N) rest = false) /\
    ptr (tok r) = 0 /\ len (tok r) = Z.of_nat (length (header_text lead m1 ms)) + (if q then 1 else 0) /\ disp r = len (tok r).
Proof. exact (@HdrSound.compound_sound). Qed.
End T_compound_sound.
Definition C13_compound_sound := @T_compound_sound.C13_compound_sound.

Module T_common_sound. Import HdrSound. Local Open Scope bool_scope. Local Open Scope Z_scope.
Import LexModel LexBounds DecSpec MoreSpecs HdrSpec. Local Open Scope Z_scope.
Local Open Scope Z_scope.
Theorem C13_common_sound :
  forall l,
  let r := lex_header l in
  forall q:bool, ty (tok r) = (if q then T_COMMON_QUERY_HDR else T_COMMON_HDR) ->
  exists m rest, Mnem m /\
    l = 42%N :: m ++ (if q then 63%N :: rest else rest) /\
    (q = false -> mstop rest /\ starts (ischr 63%N) rest = false) /\
    ptr (tok r) = 0 /\ len (tok r) = 1 + Z.of_nat (length m) + (if q then 1 else 0) /\ disp r = len (tok r).
Proof. exact (@HdrSound.common_sound). Qed.
End T_common_sound.
Definition C13_common_sound := @T_common_sound.C13_common_sound.

Module T_unit_sound_compound. Import UnitSound. Local Open Scope bool_scope. Local Open Scope Z_scope.
Import LexModel LexBounds DecSpec MoreSpecs NumList HdrSpec HdrSound. Local Open Scope Z_scope.
Local Open Scope Z_scope.
Theorem C13_unit_sound_compound :
  forall l (q:bool),
  ty (u_hdr (detect_unit l)) = (if q then T_COMPOUND_QUERY_HDR else T_COMPOUND_HDR) ->
  exists ws0 lead m1 ms rest, all isws ws0 /\ Mnem m1 /\ Forall Mnem ms /\
    l = ws0 ++ header_text lead m1 ms ++ (if q then 63%N :: rest else rest) /\
    (q = false -> hstop rest /\ starts (ischr 63%N) rest = false) /\
    ptr (u_hdr (detect_unit l)) = Z.of_nat (length ws0) /\
    len (u_hdr (detect_unit l)) = Z.of_nat (length (header_text lead m1 ms)) + (if q then 1 else 0) /\
    delimited l (detect_unit l).
Proof. exact (@UnitSound.unit_sound_compound). Qed.
End T_unit_sound_compound.
Definition C13_unit_sound_compound := @T_unit_sound_compound.C13_unit_sound_compound.

Module T_unit_sound_common. Import UnitSound. Local Open Scope bool_scope. Local Open Scope Z_scope.
Import LexModel LexBounds DecSpec MoreSpecs NumList HdrSpec HdrSound. Local Open Scope Z_scope.
Local Open Scope Z_scope.
Theorem C13_unit_sound_common :
  forall l (q:bool),
  ty (u_hdr (detect_unit l)) = (if q then T_COMMON_QUERY_HDR else T_COMMON_HDR) ->
  exists ws0 m rest, all isws ws0 /\ Mnem m /\
    l = ws0 ++ 42%N :: m ++ (if q then 63%N :: rest else rest) /\
    (q = false -> mstop rest /\ starts (ischr 63%N) rest = false) /\
    ptr (u_hdr (detect_unit l)) = Z.of_nat (length ws0) /\
    len (u_hdr (detect_unit l)) = 1 + Z.of_nat (length m) + (if q then 1 else 0) /\
    delimited l (detect_unit l).
Proof. exact (@UnitSound.unit_sound_common). Qed.
End T_unit_sound_common.
Definition C13_unit_sound_common := @T_unit_sound_common.C13_unit_sound_common.

Module T_unit_complete_full. Import UnitFull. Local Open Scope bool_scope. Local Open Scope Z_scope.
Import LexModel LexBounds DecSpec MoreSpecs NumList SimpleSpecs ListWs HdrSpec UnitSpec. Local Open Scope Z_scope.
Local Open Scope Z_scope.
Theorem C13_unit_complete_full :
  forall lead m1 ms (q:bool) ws1 items rest hdr l,
  Mnem m1 -> Forall Mnem ms -> ws1 <> [] -> all isws ws1 -> Forall item_ok items -> items <> [] -> first_tight items -> is_term rest ->
  hdr = header_text lead m1 ms ++ (if q then [63%N] else []) ->
  l = hdr ++ ws1 ++ list_text items ++ rest ->
  let u := detect_unit l in
  ty (u_hdr u) = (if q then T_COMPOUND_QUERY_HDR else T_COMPOUND_HDR) /\ ptr (u_hdr u) = 0 /\ len (u_hdr u) = Z.of_nat (length hdr) /\
  ptr (u_data u) = Z.of_nat (length hdr) + Z.of_nat (length ws1) /\ len (u_data u) = Z.of_nat (length (list_text items)) /\
  u_n u = Z.of_nat (length items) /\
  u_consumed u = Z.of_nat (length hdr) + Z.of_nat (length ws1) + Z.of_nat (length (list_text items)) + (match rest with [] => 0 | _ => 1 end) /\
  u_term u = (match rest with [] => TERM_NONE | c :: _ => if (c =? 59)%N then TERM_SEMICOLON else TERM_NL end).
Proof. exact (@UnitFull.unit_complete_full). Qed.
End T_unit_complete_full.
Definition C13_unit_complete_full := @T_unit_complete_full.C13_unit_complete_full.

Module T_tie_char_classes. Import Tie. Local Open Scope bool_scope. Local Open Scope Z_scope.
Local Open Scope Z_scope.
Theorem C13_tie_char_classes :
  same_class LexModel.isws Generated.gen_cc_isws = true /\ same_class LexModel.isbdigit Generated.gen_cc_isbdigit = true /\
  same_class LexModel.isqdigit Generated.gen_cc_isqdigit = true /\ same_class LexModel.isxdigit Generated.gen_cc_isxdigit = true /\
  same_class LexModel.isH Generated.gen_cc_isH = true /\ same_class LexModel.isB Generated.gen_cc_isB = true /\
  same_class LexModel.isQ Generated.gen_cc_isQ = true /\ same_class LexModel.isE Generated.gen_cc_isE = true /\
  same_class LexModel.isplusmn Generated.gen_cc_isplusmn = true /\ same_class LexModel.isdigit Generated.gen_cc_isdigit = true /\
  same_class (fun c => LexModel.isdigit c && negb (LexModel.ischr 48%N c)) Generated.gen_cc_isnzdigit = true /\
  same_class LexModel.isalpha Generated.gen_cc_isalpha = true /\ same_class LexModel.ismnem Generated.gen_cc_ismnem = true /\
  same_class (fun c => LexModel.isascii7 c && negb (LexModel.ischr 39%N c)) Generated.gen_cc_isascii7 = true /\
  same_class LexModel.isexpr Generated.gen_cc_isexpr = true.
Proof. exact (@Tie.tie_char_classes). Qed.
End T_tie_char_classes.
Definition C13_tie_char_classes := @T_tie_char_classes.C13_tie_char_classes.

Module T_suffix_complete. Import SuffixSpec. Local Open Scope bool_scope. Local Open Scope Z_scope.
Import LexModel LexBounds DecSpec MoreSpecs. Local Open Scope Z_scope.
Local Open Scope Z_scope.
Theorem C13_suffix_complete :
  forall (slash:bool) a m d es rest,
  a <> [] -> all isalpha a -> digit_ok d -> Forall later_ok es ->
  starts sepc rest = false -> last_cont m d es rest ->
  let t := (if slash then [47%N] else []) ++ a ++ tailpart m d ++ laters_text es in
  lex_suffix (t ++ rest) = mk T_SUFFIX 0 (Z.of_nat (length t)) (Z.of_nat (length t)) (Z.of_nat (length t)).
Proof. exact (@SuffixSpec.suffix_complete). Qed.
End T_suffix_complete.
Definition C13_suffix_complete := @T_suffix_complete.C13_suffix_complete.

Module T_detect_cut. Import LexCut. Local Open Scope bool_scope. Local Open Scope Z_scope.
Import LexModel LexBounds UnitProgress. Local Open Scope Z_scope.
Theorem C13_detect_cut :
  forall a t z,
  plain a -> tchar t -> detect_unit (a ++ t :: z) = detect_t a t (starts (ischr 10%N) z).
Proof. exact (@LexCut.detect_cut). Qed.
End T_detect_cut.
Definition C13_detect_cut := @T_detect_cut.C13_detect_cut.

Module T_detect_t_shape. Import LexCut. Local Open Scope bool_scope. Local Open Scope Z_scope.
Import LexModel LexBounds UnitProgress. Local Open Scope Z_scope.
Theorem C13_detect_t_shape :
  forall a t lf,
  plain a ->
  (u_term (detect_t a t lf) = (if (t =? 59)%N then TERM_SEMICOLON else TERM_NL) /\
   u_consumed (detect_t a t lf) = Z.of_nat (length a) + (if (t =? 13)%N && lf then 2 else 1)) \/
  (u_term (detect_t a t lf) = TERM_NONE /\ ty (u_hdr (detect_t a t lf)) = T_INVALID /\ 1 <= u_consumed (detect_t a t lf) <= Z.of_nat (length a)).
Proof. exact (@LexCut.detect_t_shape). Qed.
End T_detect_t_shape.
Definition C13_detect_t_shape := @T_detect_t_shape.C13_detect_t_shape.

Module T_detect_t_cr. Import LexCut. Local Open Scope bool_scope. Local Open Scope Z_scope.
Import LexModel LexBounds UnitProgress. Local Open Scope Z_scope.
Theorem C13_detect_t_cr :
  forall a,
  plain a ->
  u_hdr (detect_t a 13%N true) = u_hdr (detect_t a 13%N false) /\ u_data (detect_t a 13%N true) = u_data (detect_t a 13%N false) /\
  ((u_consumed (detect_t a 13%N false) = Z.of_nat (length a) + 1 /\ u_consumed (detect_t a 13%N true) = Z.of_nat (length a) + 2) \/
   (detect_t a 13%N true = detect_t a 13%N false /\ 1 <= u_consumed (detect_t a 13%N false) <= Z.of_nat (length a))).
Proof. exact (@LexCut.detect_t_cr). Qed.
End T_detect_t_cr.
Definition C13_detect_t_cr := @T_detect_t_cr.C13_detect_t_cr.

