(* C17 -- property theorems only: every statement is closed by `exact` on a lemma proved elsewhere.
   Statements are pinned by coq/statements/C17.json; ./check compares. *)
From Coq Require Import Bool List NArith ZArith Lia.
From M Require Swap.
From M Require ArrayBytes.
From M Require RtBlock.
From M Require Framing3.
From M Require ArrayScenario.
From M Require BlockRefusal.
From M Require ArrayBytes.
From M Require BufModel.
From M Require DecSpec.
From M Require FmtModel.
From M Require Framing2.
From M Require Framing3.
From M Require IntFmtProofs.
From M Require LexBounds.
From M Require LexModel.
From M Require MoreSpecs.
From M Require ParserModel.
Import ListNotations.

Module T_swap16_bytes. Import Swap. Local Open Scope bool_scope. Local Open Scope Z_scope.
Local Open Scope Z_scope.
Theorem C17_swap16_bytes :
  forall v,
  0 <= v < 2^16 -> byte_of (swap16 v) 0 = byte_of v 1 /\ byte_of (swap16 v) 1 = byte_of v 0.
Proof. exact (@Swap.swap16_bytes). Qed.
End T_swap16_bytes.
Definition C17_swap16_bytes := @T_swap16_bytes.C17_swap16_bytes.

Module T_swap32_bytes. Import Swap. Local Open Scope bool_scope. Local Open Scope Z_scope.
Local Open Scope Z_scope.
Theorem C17_swap32_bytes :
  forall v j,
  0 <= v < 2^32 -> 0 <= j < 4 -> byte_of (swap32 v) j = byte_of v (3 - j).
Proof. exact (@Swap.swap32_bytes). Qed.
End T_swap32_bytes.
Definition C17_swap32_bytes := @T_swap32_bytes.C17_swap32_bytes.

Module T_swap64_bytes. Import Swap. Local Open Scope bool_scope. Local Open Scope Z_scope.
Local Open Scope Z_scope.
Theorem C17_swap64_bytes :
  forall v j,
  0 <= v < 2^64 -> 0 <= j < 8 -> byte_of (swap64 v) j = byte_of v (7 - j).
Proof. exact (@Swap.swap64_bytes). Qed.
End T_swap64_bytes.
Definition C17_swap64_bytes := @T_swap64_bytes.C17_swap64_bytes.

Module T_array_bytes. Import ArrayBytes. Local Open Scope bool_scope. Local Open Scope Z_scope.
Import BufModel. Local Open Scope Z_scope.
Theorem C17_array_bytes :
  forall native_le fmt size vals,
  (fmt = 1 \/ fmt = 2) -> (size = 1 \/ size = 2 \/ size = 4 \/ size = 8)%nat ->
  Forall (in_width size) vals ->
  fst (array_binary native_le fmt size vals) =
  block_header (Z.of_nat (length vals) * Z.of_nat size) ++ flat_map (requested fmt size) vals.
Proof. exact (@ArrayBytes.array_bytes). Qed.
End T_array_bytes.
Definition C17_array_bytes := @T_array_bytes.C17_array_bytes.

Module T_array_counts_once. Import ArrayBytes. Local Open Scope bool_scope. Local Open Scope Z_scope.
Import BufModel. Local Open Scope Z_scope.
Theorem C17_array_counts_once :
  forall native_le fmt size vals,
  snd (array_binary native_le fmt size vals) = 1.
Proof. exact (@ArrayBytes.array_counts_once). Qed.
End T_array_counts_once.
Definition C17_array_counts_once := @T_array_counts_once.C17_array_counts_once.

Module T_block_header_eq. Import RtBlock. Local Open Scope bool_scope. Local Open Scope Z_scope.
Import FmtModel IntFmtProofs LexModel LexBounds DecSpec MoreSpecs ParserModel. Local Open Scope Z_scope.
Theorem C17_block_header_eq :
  forall n,
  0 <= n < 10^9 ->
  block_header n = 35%N :: Z.to_N (48 + Z.of_nat (length (hdr_digits n))) :: bz (hdr_digits n) /\
  (1 <= length (hdr_digits n) <= 9)%nat /\ all isdigit (bz (hdr_digits n)) /\ dval 0 (bz (hdr_digits n)) = n.
Proof. exact (@RtBlock.block_header_eq). Qed.
End T_block_header_eq.
Definition C17_block_header_eq := @T_block_header_eq.C17_block_header_eq.

Module T_result_block_lexes. Import RtBlock. Local Open Scope bool_scope. Local Open Scope Z_scope.
Import FmtModel IntFmtProofs LexModel LexBounds DecSpec MoreSpecs ParserModel. Local Open Scope Z_scope.
Theorem C17_result_block_lexes :
  forall d rest,
  Z.of_nat (length d) < 10^9 ->
  let n := Z.of_nat (length d) in let w := block_header n ++ d in
  let r := lex_block (w ++ rest) in
  ty (tok r) = T_BLOCK /\ disp r = Z.of_nat (length w) /\ len (tok r) = n /\
  firstn (Z.to_nat (len (tok r))) (skipn (Z.to_nat (ptr (tok r))) (w ++ rest)) = d.
Proof. exact (@RtBlock.result_block_lexes). Qed.
End T_result_block_lexes.
Definition C17_result_block_lexes := @T_result_block_lexes.C17_result_block_lexes.

Module T_array_steps. Import Framing3. Local Open Scope bool_scope. Local Open Scope Z_scope.
Import ParserModel Framing2. Local Open Scope Z_scope.
Local Open Scope Z_scope.
Theorem C17_array_steps :
  forall c size fmt vals,
  size_ok size -> Steps c (result_array c size fmt vals) (arr_items size fmt vals).
Proof. exact (@Framing3.array_steps). Qed.
End T_array_steps.
Definition C17_array_steps := @T_array_steps.C17_array_steps.

Module T_array_result_bytes. Import ArrayScenario. Local Open Scope bool_scope. Local Open Scope Z_scope.
Import BufModel ArrayBytes ParserModel Framing2 Framing3. Local Open Scope Z_scope.
Local Open Scope Z_scope.
Theorem C17_array_result_bytes :
  forall c size fmt vals,
  size_ok size -> (fmt = 1 \/ fmt = 2) ->
  Forall (in_width (Z.to_nat size)) vals ->
  let c' := result_array c size fmt vals in
  W c' = W c ++ delim_bytes (first_output c) (output_count c) ++
         ParserModel.block_header (Z.of_nat (length vals) * size) ++ bz (flat_map (requested fmt (Z.to_nat size)) vals)
  /\ output_count c' = output_count c + 1 /\ first_output c' = first_output c /\ Fl c' = Fl c.
Proof. exact (@ArrayScenario.array_result_bytes). Qed.
End T_array_result_bytes.
Definition C17_array_result_bytes := @T_array_result_bytes.C17_array_result_bytes.

Module T_refused_burst. Import BlockRefusal. Local Open Scope bool_scope. Local Open Scope Z_scope.
Import ParserModel Framing2. Local Open Scope Z_scope.
Local Open Scope Z_scope.
Theorem C17_refused_burst :
  forall c d,
  arb_rem c < Z.of_nat (length d) ->
  result_data c d = error_push c (-310) None /\
  arb_rem (result_data c d) = arb_rem c /\ output_count (result_data c d) = output_count c /\
  first_output (result_data c d) = first_output c /\ outp (trace (result_data c d)) = outp (trace c) /\ mem (result_data c d) = mem c.
Proof. exact (@BlockRefusal.refused_burst). Qed.
End T_refused_burst.
Definition C17_refused_burst := @T_refused_burst.C17_refused_burst.

Module T_rest_after_refusal. Import BlockRefusal. Local Open Scope bool_scope. Local Open Scope Z_scope.
Import ParserModel Framing2. Local Open Scope Z_scope.
Local Open Scope Z_scope.
Theorem C17_rest_after_refusal :
  forall c d1 bad d2,
  0 <= arb_rem c -> arb_rem c = Z.of_nat (length d1) + Z.of_nat (length d2) -> d2 <> [] ->
  Z.of_nat (length d2) < Z.of_nat (length bad) ->
  let c1 := result_data c d1 in let c2 := result_data c1 bad in let c3 := result_data c2 d2 in
  arb_rem c3 = 0 /\ output_count c3 = output_count c + 1.
Proof. exact (@BlockRefusal.rest_after_refusal). Qed.
End T_rest_after_refusal.
Definition C17_rest_after_refusal := @T_rest_after_refusal.C17_rest_after_refusal.

