#!/usr/bin/env python3
"""One-off generator used to bootstrap coq/Properties_Cnn.v from the proof files: for every
(theorem) of the table it copies the statement text from the source file and closes it with
`exact`.  The generated files are committed and from then on maintained by hand; statement drift is
caught by coq/statements/Cnn.json (see ./check)."""
import re, os, subprocess, sys, json
ROOT = os.path.dirname(os.path.dirname(os.path.abspath(__file__)))
COQ = os.path.join(ROOT, 'coq')

TABLE = json.load(open(os.path.join(ROOT, 'tools', 'properties_table.json')))


def find_stmt(mod, name):
    src = open(os.path.join(COQ, mod + '.v')).read()
    m = re.search(r'^(Theorem|Lemma|Example|Corollary)\s+' + re.escape(name) + r'\b(.*?)\n?Proof\.', src, re.S | re.M)
    if not m:
        return None
    body = m.group(2).strip()
    assert body.endswith('.'), (mod, name, body[-40:])
    return body[:-1]


def in_section(mod, name):
    src = open(os.path.join(COQ, mod + '.v')).read()
    pos = re.search(r'^(Theorem|Lemma|Example|Corollary)\s+' + re.escape(name) + r'\b', src, re.M).start()
    depth = 0
    for m in re.finditer(r'^(Section|End)\s+\w+\.', src[:pos], re.M):
        depth += 1 if m.group(1) == 'Section' else -1
    return depth > 0


def header(mods):
    lines = ['From Coq Require Import Bool List NArith ZArith Lia.']
    return lines


def binders_names(stmt):
    # split "binders : type" at the first top-level ':' that is not ':='
    depth = 0
    for i, ch in enumerate(stmt):
        if ch in '([{':
            depth += 1
        elif ch in ')]}':
            depth -= 1
        elif ch == ':' and depth == 0 and stmt[i:i + 2] != ':=':
            return stmt[:i].strip(), stmt[i + 1:].strip()
    return '', stmt


def gen(pid, entries, mode):
    mods = []
    for mod, name in entries:
        if mod not in mods:
            mods.append(mod)
    out = ['(* %s -- property theorems only: every statement is closed by `exact` on a lemma proved elsewhere.' % pid,
           '   Statements are pinned by coq/statements/%s.json; ./check compares. *)' % pid,
           'From Coq Require Import Bool List NArith ZArith Lia.']
    for mod in mods:
        out.append('From M Require %s.' % mod)
    out.append('Import ListNotations.')
    out.append('')
    for mod, name in entries:
        st = find_stmt(mod, name)
        last_scope = SCOPES.get((mod, name))
        use_alias = mode.get((mod, name)) == 'alias' or st is None or in_section(mod, name)
        if use_alias:
            out.append('Definition %s_%s := @%s.%s.' % (pid, name, mod, name))
        else:
            b, t = binders_names(st)
            out.append('Module T_%s. Import %s. Local Open Scope bool_scope. Local Open Scope Z_scope.' % (name, mod))
            extra = IMPORTS.get(mod, '')
            if extra:
                out.append(extra)
            if last_scope:
                out.append('Local Open Scope %s_scope.' % last_scope)
            out.append('Theorem %s_%s :\n  %s%s.' % (pid, name, ('forall %s,\n  ' % b) if b else '', t))
            out.append('Proof. exact (@%s.%s). Qed.' % (mod, name))
            out.append('End T_%s.' % name)
            out.append('Definition %s_%s := @T_%s.%s_%s.' % (pid, name, name, pid, name))
        out.append('')
    return '\n'.join(out) + '\n'


IMPORTS = {}
SCOPES = {}


def file_imports(mod):
    src = open(os.path.join(COQ, mod + '.v')).read()
    imps = re.findall(r'^From M Require Import ([^.]*)\.', src, re.M)
    names = []
    for l in imps:
        names += l.split()
    opens = re.findall(r'^(Local Open Scope \w+\.)', src, re.M)
    s = ''
    if names:
        s += 'From M Require Import %s. ' % ' '.join(names)
    return names, opens


def main():
    only = sys.argv[1:]
    for pid, entries in TABLE.items():
        if only and pid not in only:
            continue
        for e in entries:
            if len(e) > 2:
                SCOPES[(e[0], e[1])] = e[2]
        entries = [tuple(e[:2]) for e in entries]
        for mod, _ in entries:
            names, opens = file_imports(mod)
            IMPORTS[mod] = ('Import ' + ' '.join(names) + '. ' if names else '') + ' '.join(opens)
        mode = {}
        path = os.path.join(COQ, 'Properties_%s.v' % pid)
        for attempt in range(len(entries) + 2):
            txt = gen(pid, entries, mode)
            # Require of the transitive imports must be at top level
            req = set()
            for mod, _ in entries:
                req.update(file_imports(mod)[0])
            top = ''.join('From M Require %s.\n' % r for r in sorted(req))
            txt = txt.replace('Import ListNotations.\n', top + 'Import ListNotations.\n', 1)
            open(path, 'w').write(txt)
            p = subprocess.run(['coqc', '-Q', COQ, 'M', path], stdout=subprocess.PIPE, stderr=subprocess.PIPE, cwd=COQ)
            if p.returncode == 0:
                print(pid, 'ok; aliases:', [n for (m, n), v in mode.items() if v == 'alias'])
                break
            err = p.stderr.decode()
            m = re.search(r'line (\d+)', err)
            ln = int(m.group(1)) if m else 0
            lines = txt.split('\n')
            # find the theorem block containing this line
            culprit = None
            for i in range(ln - 1, -1, -1):
                mm = re.match(r'Module T_(\w+)\.', lines[i])
                if mm:
                    culprit = mm.group(1)
                    break
            if culprit is None:
                print(pid, 'FAILED', err[:500])
                break
            for mod, name in entries:
                if name == culprit:
                    mode[(mod, name)] = 'alias'
            print(pid, 'fallback to alias for', culprit, ':', ' '.join(err.split())[:200])


main()
