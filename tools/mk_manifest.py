#!/usr/bin/env python3
"""Writes MANIFEST.json from the table below (kept in one place so the file is always valid)."""
import json, os, sys
ROOT = os.path.dirname(os.path.dirname(os.path.abspath(__file__)))

NOTE_COMMON = ('Trusted: Coq 8.16.1 kernel (+ vm_compute for finite facts; no native_compute); no axioms declared (every theorem prints '
               '"Closed under the global context"); translator tools/gen_tables.c; extraction with ExtrOcamlBasic only; OCaml driver; the sanitised C harness; '
               'hand-written Gallina models tied to the code by differential execution on the generated cases of each run (not for all inputs); '
               'libc functions modelled, not verified. ')

CHECKS = {
    'C14': dict(
        text='Theorem int2str_exact: for both widths, every value, base, signedness and buffer length the model of UInt32/64ToStrBaseSign writes exactly the first len '
             'characters of the canonical representation, NUL iff a byte remains, and returns the count (induction on the divisor exponent, all values at once). '
             'The model is tied to the code by differential execution (55k cases per quick run) and the code is additionally swept against libc printf inside the sanitised driver '
             '(2^24 stratified values in quick, all 2^32 in thorough).',
        technique='Coq proof (induction over the divisor loop) + model/implementation correspondence by differential execution + independent oracle',
        design='7/C14'),
    'C01': dict(
        text='PARTIAL. Theorems on the models: every recogniser leaves the cursor inside its input and reports extents inside it (block overshoot and quote back-step included), the unit scanner consumes between 1 and len bytes, the header lies inside the unit, the unit loop and the input rescan loop never exhaust their fuel (termination), channel lists and the array readers never store beyond the announced capacity (array_reader_capacity, chan_entry_capacity), and after every SCPI_Input call of every history (overrunning chunks, any handler scripts) the buffered length stays below the buffer length, so the terminating store is always inside (input_buffer_inv_history). What a model cannot exhibit -- real memory safety and UB of the compiled code -- is decided by running the ASan+UBSan build (exact-size heap buffers -- zero-length ones taken from a poisoned region --, poisoned unused tail of the input buffer via the SCPI_PARSER_VERIF hook, watchdog) in four build configurations on grammar-derived, mutated and raw byte streams in all chunkings with scripts applying every API; any sanitizer or watchdog event is the violation, with the case as replay. The thorough tier adds a coverage-guided search (libFuzzer over the same scenario runner, 240 s x 8 jobs, every API in the handler scripts); inputs it finds are re-run as ordinary cases and reported with their replay -- a search aid, never a substitute for a theorem.',
        technique='Coq proof of cursor bounds / progress / termination on the models + sanitised differential execution in 4 build configurations (the memory-safety half is exploration, stated as such)', design='7/C01'),
    'C04': dict(
        text='Theorems: the strtol model reads blanks, sign and decimal digits to exactly their value and the width conversion is exact in range (decint_exact_signed), #H/#Q/#B digit strings read to exactly their value (nondec_exact), strtod_exact_literal / strtod_bits_literal: on sign? digits [. digits] [E sign? digits] followed by anything that cannot continue it the strtod model extracts exactly the written mantissa digits and exponent, so the value it rounds is mantissa * 10^(exponent - fraction digits) (the clamp of absurd exponents depends on the digit count and cannot change the result), and that rounding is round-to-nearest-even with the right binary exponent (bin_exp_correct, rounded_nearest, rounded_normal_range); read_uint_item: through SCPI_Parameter and the 32-bit reader an in-range unsigned literal inside a list decodes to exactly its value, every row of the generated unit table under every casing and every special / boolean name is found (unit_rows, specials, bool_names: evaluation over the tables regenerated from units.c). libc strtod/strtol and the FPU multiply are modelled, tied to glibc by the correspondence on grammar-generated literals; an independent exact-rational oracle judges the bits the handler received. White space inside a number is a recorded finding.',
        technique='Coq proof (exactness lemmas, finite evaluation over generated tables) + correspondence + exact-rational oracle; libc modelled', design='7/C04'),
    'C05': dict(
        text='Theorems param_*_fail (every typed reader: FALSE implies an error was queued or the parameter was optional and absent; integer readers have the one recorded extra case), unit_fail_silent / unit_fail_reported / unit_unread / unit_clean (the -200 / -108 decisions of processCommand, exhaustive), ppd_decimal / all_data_list (a list of decimal items with any blanks around items and commas is scanned whole), parameter_item (the k-th SCPI_Parameter call delivers the k-th item whole -- the literal without the blanks --, queues nothing and leaves the cursor for the next call), read_uint_array / array_reader_result (the array readers read element by element, stop quietly at the end of the list, and report FALSE only when mandatory and the first element failed), message_reads_array (vertical slice: for a message HEADER blanks v1 , v2 ... newline whose header selects a command reading a uint32 array, SCPI_Parse runs that handler once with exactly the written values, queues nothing and returns TRUE). Tied by scenarios pairing every reader with every data class; an independent table of (reader, class) -> error judges the implementation; malformed lists and the return value of SCPI_Input are judged by the oracle. Two recorded findings (trailing comma; integer reader on ".5").',
        technique='Coq proof (case analysis per reader, unit-level decisions, list scanning) + correspondence + reader-table oracle', design='7/C05'),
    'C07': dict(
        text='Theorems rt_unsigned / rt_signed (what the integer result writers emit is read back by the strtol/strtoul models to the same value, every value of the width, bases 2/8/10/16), result_text_lexes / rt_text_copy (the quoted text is one string token and the copy loop returns the text), block_header_block / result_block_lexes (header + data is one block token whose payload is the data, every length < 10^9), rt_uint_array (the canonical digits of non-zero 32-bit values joined by commas -- what the ASCII array writer emits -- are read back by the array reader element by element to the same values). Tied and completed by a two-phase round trip on the implementation for all result types incl. 8/16-bit, floats, doubles and ASCII arrays.',
        technique='Coq proof (round-trip lemmas composing formatter and reader models) + two-phase round-trip execution on implementation and model', design='7/C07'),
    'C08': dict(
        text='PARTIAL. Theorems pending_is_prefix (the only thing carried between input calls is the unprocessed bytes), quiet_chunk_accumulates, split_before_message, chunks_before_message (any split before the first completed message is invisible), partition_reduction (if cutting a stream once is invisible for a class of streams kept by feeding prefixes, every partition behaves like one chunk), partition_one_message / message_in_pieces / one_message_any_partition (instance, complete: a message of arbitrary content in which CR and LF occur only as the last byte, delivered to an empty buffer it fits into, leaves the same context -- same handler calls, parameters, output, errors, remainder -- under EVERY partition into chunks, byte-at-a-time included, as in one call), flush_executes_pending and overrun_discards (the zero-length and the overrun clauses). The remaining lexical statement for streams of several messages per call (units found in a buffer are found again after bytes are appended) is false for a line terminator inside a quoted string (recorded finding) and is otherwise decided by comparing every chunking of generated streams on the implementation with byte-at-a-time delivery, and with the model.',
        technique='Coq proof of the reduction to prefix stability + chunking-equivalence execution (implementation vs itself and vs model)', design='7/C08'),
    'C09': dict(
        text='Theorems message_isolated / input_isolated / inputs_isolated: two model contexts that agree on command table, input buffer, error queue and trace and differ arbitrarily in every scratch field produce the same return value, the same events and agreeing contexts, for one message, one input call and any sequence of calls with any handler scripts. Tied by running B after A and B alone on the implementation and comparing B\'s events.',
        technique='Coq proof (non-interference over the scratch fields) + paired execution oracle', design='7/C09'),
    'C15': dict(
        text='Theorems number_to_str_bounded (no store outside the buffer for every value, unit and length), fp_to_str_all / double_to_str_bounded / float_to_str_bounded (never more than len bytes, NUL whenever a byte is available, length returned = characters stored, nothing read for len 0), int2str_exact (C14), param_text_bounded / param_text_len0 (SCPI_ParamCopyText: every byte is stored below the stated length, the NUL only when a byte remains for it, nothing at all for length 0). Tied by direct calls with exact-size heap buffers (zero-length ones from a poisoned region) under ASan for every length 0..40 on the printf and custom-formatter builds; SCPI_dtostre\'s final copy is judged by the sanitised run and the oracle.',
        technique='Coq proof (checked-write models of strncpy/strncat/snprintf) + sanitised execution with exact-size buffers + oracle', design='7/C15'),
    'C16': dict(
        text='PARTIAL. Theorems rne_nearest / rne_tie_even / sig_digits_nearest(_closed) / ilog10_correct / dec64_in_range: the %g model rounds the exact binary value to P significant digits to nearest, ties to even, with the right decimal exponent for every finite double. glibc\'s snprintf is modelled (tied bit-for-bit by the correspondence; CPython\'s correctly rounded formatting is a second, independent oracle). For the USE_CUSTOM_DTOSTRE build the layout stage is modelled and compared on the digits scpi_ecvt produced; scpi_ecvt\'s floating-point digit generation is not modelled and its one-unit claim is decided by the oracle only (a recorded finding at precisions 14/15 and large exponents).',
        technique='Coq proof (rounding and exponent lemmas for the %g specification) + correspondence + exact-rational oracle; digit generation of the custom formatter by oracle only', design='7/C16'),
    'C17': dict(
        text='Theorems swap16/32/64_bytes (byte reversal), array_bytes (payload = elements in the requested order for sizes 1/2/4/8, both formats, both host orders), array_counts_once, block_header_eq (header = #, digit count, decimal length for every n < 10^9), result_block_lexes. array_result_bytes: inside any handler, at any point of a response, a binary array result is one item -- delimiter, block header, every element in the requested byte order -- on either host order and either code path (one block call / header + one data call per element, empty arrays included); array_steps: in ASCII format every element is an item of its own. Streaming (bytes concatenated, item counted exactly when complete, over-length data refused with -310) is in ParserModel and tied by scenarios with every split; an independent encoder judges the implementation.',
        technique='Coq proof (bit-level swap lemmas, header lemma from C14) + correspondence + independent encoder oracle', design='7/C17'),
    'C19': dict(
        text='Theorems numlist_walk_spec / numlist_spec (every non-empty list of entries a or a:b rendered with single commas: entry i is reported OK with exactly the offsets and lengths of its literals, NO_MORE beyond the end), channel_range_cap / chanlist_entry_cap (never more values than the capacity, for every body), channel_spec_walk (dimension walk of one specification), chanlist_walk_spec / chanlist_spec (every non-empty channel list @e1,e2,... of specifications a!b!c and ranges spec:spec of equal dimensions: entry i is OK with its range flag, dimension count and the values of every dimension that fits the capacity, no error; NO_MORE without error at and beyond the end), chan_entry_error / num_entry_error / not_an_expression / chan_entry_capacity (applied to a parameter inside a handler: ERROR is reported exactly when -170 -- or -104 for a non-expression -- is queued, and never more than the announced capacity of values per end of a range is handed back). The negative clause (malformed content) is decided by the oracle (reference scanner from the SCPI-99 grammar) on all short bodies and generated lists.',
        technique='Coq proof (list walk induction, capacity bound) + correspondence (exhaustive short bodies) + reference-grammar oracle', design='7/C19'),

    'C02': dict(
        text='Theorems dispatch_closed / compose_spec / first_match_spec / undefined_header: on the model of SCPI_Parse the handler starts of a message are, in order and exactly once, the first table entry accepting each unit\'s effective header computed from the message text alone; an undefined header starts no handler and queues one -113 with the unit text; units_accounted / undefined_count: in every message the number of -113 errors equals the number of units with an undefined header, for all handler scripts that do not push -113 themselves. Tied by differential execution of generated multi-unit messages over overlapping tables; an independent reference (effective-header rule + short/long-form matcher) judges the implementation\'s own traces.',
        technique='Coq proof (induction over the unit loop with the in-place header composition) + correspondence + reference dispatcher oracle', design='7/C02'),
    'C03': dict(
        text='Theorem match_language: for every well-formed unambiguous pattern (rendered from an item list) and every non-empty header, the model of matchCommand accepts iff the header is in the short/long-form language (greedy item matcher = nondeterministic language, then concrete loop = greedy matcher). seg_ok_spec: a keyword accepts exactly its long or its short form (any case) followed by digits only when it is KEY#. match_numbers (with match_top_nums, greedyN_reads, sval_spec): with a numbers array the same headers are accepted and, for EVERY reading of the header in the pattern\'s language, the array holds that reading\'s suffixes in keyword order -- the decimal value written after a KEY#, the caller\'s default where the digits or the whole keyword were left out -- and entries beyond the array\'s capacity are dropped. tie_ctype: islower/isupper/isdigit/isspace/tolower of the matcher and strtol models agree with the C library on all 256 byte values. Correspondence and an independent reference matcher judge the implementation.',
        technique='Coq proof (two-level refinement: concrete loop -> greedy item matcher -> language) + correspondence + reference matcher oracle', design='7/C03'),
    'C06': dict(
        text='Theorem framing: for every context (any history), message, command table and scripts, the bytes written by the model of SCPI_Parse are the join with ";" of the join with "," of the items of the responding units, followed by one line terminator and one flush iff some unit responded (script_framing_streamed / framing_streamed extend this to blocks streamed as header + data pieces and to array results, at script and at message level). Tied by differential execution; an independent framing function judges the implementation\'s output.',
        technique='Coq proof (invariant over result calls, units and the message) + correspondence + independent framing oracle', design='7/C06'),
    'C10': dict(
        text='Theorems push_refines / pop_refines / qrun_refines / clear_spec: the ring FIFO + error queue model (malloc configuration) refines an abstract list of capacity N for every history: overflow replaces the newest entry by -350, codes come back in order, texts are owned (every free hits a live allocation exactly once, nothing live after clear), allocation failure keeps the error. Tied by exhaustive short and random long histories on the malloc and no-info builds with LeakSanitizer and allocation-failure injection.',
        technique='Coq proof (refinement to an abstract bounded FIFO + ownership invariant) + correspondence + reference queue oracle', design='7/C10'),
    'C11': dict(
        text='Theorem stb_coherent: the five summary equivalences are an invariant of every operation of the register model (all 16-bit values at once), hence of every history. Tied by breadth-first operation sequences over the three-representative-bit alphabet and random 16-bit walks through the API and the IEEE 488.2 commands; the invariant is also evaluated directly on the implementation\'s register dumps.',
        technique='Coq proof (invariant by induction over operations, bit-level lemmas) + correspondence + invariant oracle on implementation state', design='7/C11'),
    'C12': dict(
        text='Theorems classify (all 65536 codes, by evaluation over the table regenerated from error.c) and srq_step (callback only with MSS set, always when MSS rises). Latching and stickiness are checked by the oracle on the implementation and by correspondence with the register model.',
        technique='Coq proof (finite evaluation over the generated table + step lemma) + correspondence + oracle', design='7/C12'),
    'C13': dict(
        text='Per-recogniser theorems on the lexer model: decimal numbers, white space, character data, single characters and flat expressions consume exactly the longest prefix of their 488.2 grammar (or nothing); nondecimal numbers likewise; strings and definite-length blocks are sound and complete for their delimited forms; the relaxed suffix grammar is complete (suffix_complete: /? letters (-? digit)? followed by any number of [/.] letters* (-? digit?) elements is consumed exactly and entirely); compound and common headers are complete and sound (compound_sound / common_sound: whatever is reported as a header is :?mnemonic(:mnemonic)*?? resp. *mnemonic?? followed by something that cannot continue it); whole units header-blank-decimal-list-terminator are complete (unit_complete_full: with consumed length and terminator kind) and units with a reported header are sound (unit_sound_compound / unit_sound_common: blanks, a well-formed header, delimited by a semicolon, a line terminator or the end of input); the line terminator is maximal. tie_char_classes: every character-class predicate of the lexer model holds on exactly the byte values on which the predicate of lexer.c (and the ctype function it calls) holds -- the translator evaluates them on all 256 values on every run. Tied by all strings up to length 4/5 over one representative per character class (every recogniser on every string) plus generated long tokens; independent regular-expression references judge the implementation.',
        technique='Coq proof (maximal-munch lemmas per recogniser) + correspondence (exhaustive short strings) + grammar oracle', design='7/C13'),
    'C18': dict(
        text='Theorems quoted_part / quoted_bounded / quoted_prefix / quoted_maximal: for every description and text the model of SCPI_ResultError emits code,"q" with every quote doubled, |q| <= 255, unquote(q) a prefix of description;text, cut as late as the limit allows. Tied on the malloc build directly and through push + SYST:ERR? on the malloc and static-heap builds; an independent 488.2 string reader judges the implementation.',
        technique='Coq proof (induction over the text with the running limit) + correspondence + independent string-reader oracle', design='7/C18'),
    'C20': dict(
        text='Theorems strndup_inv / text_at / free_first / free_last / empty_reusable (heap level) and add_static / pop_static / clear_static / run_static / empty_queue_reusable (queue over the heap): for every history, heap size and capacity every queued error reports exactly its text or none, all bytes outside live texts are zero, the heap is completely reusable when the queue is empty, every store is inside the heap. Tied on the static-heap build with the heap bytes, write index and free count compared after every operation (exact-size heap under ASan).',
        technique='Coq proof (circular-layout invariant, induction over histories) + correspondence on heap bytes + text-or-nothing oracle', design='7/C20'),
}

NOT_YET = {}


def main():
    props = [json.loads(l) for l in open(os.path.join(ROOT, 'properties.jsonl'))]
    checks = []
    na = []
    for p in props:
        pid = p['id']
        if pid in CHECKS:
            c = CHECKS[pid]
            checks.append({
                'property_id': pid,
                'quick_cmd': './check %s quick' % pid,
                'thorough_cmd': './check %s thorough' % pid,
                'evidence_file': 'evidence/%s.json' % pid,
                'replay_cmd_template': './check --replay {path}',
                'engine': 'coq-proof+correspondence',
                'level_claimed': {'category': 'proof', 'text': c['text'], 'design_ref': 'DESIGN.md section ' + c['design']},
                'level_note': NOTE_COMMON + c.get('note', ''),
                'technique': c['technique'],
            })
        else:
            na.append({'property_id': pid, 'reason': NOT_YET.get(pid, 'check under construction in this round: theorems exist in coq/Properties_%s.v but no registered check yet' % pid)})
    m = {
        'version': 1,
        'setup_cmd': './setup.sh',
        'hooks': {
            'guard': 'SCPI_PARSER_VERIF',
            'enable': 'the harness is compiled with -DSCPI_PARSER_VERIF -fsanitize=address,undefined and #includes the library sources of /repo',
            'baseline_off_cmd': 'make -C /repo test',
            'source_commits': ['45c952d'],
            'add_only': True,
        },
        'engines': [{'name': 'coq-proof+correspondence', 'path': 'check', 'serves_properties': sorted(CHECKS), 'kind_free_text':
                     'Coq 8.16.1 theorems about hand-written Gallina models (coq/), tables regenerated from /repo by tools/gen_tables.c, models extracted to OCaml and run against the ASan/UBSan build of /repo on generated cases, property oracles on the implementation traces'}],
        'checks': checks,
        'not_applicable': na,
        'notes': 'See DESIGN.md. known_findings.json lists recorded findings (by shape) and fixed defects.',
    }
    json.dump(m, open(os.path.join(ROOT, 'MANIFEST.json'), 'w'), indent=1)
    print('MANIFEST.json: %d checks, %d not claimed' % (len(checks), len(na)))


main()
