#!/usr/bin/env python3
"""Writes MANIFEST.json from the table below (kept in one place so the file is always valid)."""
import json, os, sys
ROOT = os.path.dirname(os.path.dirname(os.path.abspath(__file__)))

NOTE_COMMON = ('Trusted: Coq 8.16.1 kernel (+ vm_compute for finite facts; no native_compute); no axioms declared (every theorem prints '
               '"Closed under the global context"); translator tools/gen_tables.c; extraction with ExtrOcamlBasic only; OCaml driver; the sanitised C harness; '
               'hand-written Gallina models tied to the code by differential execution on the generated cases of each run (not for all inputs); '
               'libc functions modelled, not verified. ')

CHECKS = {
    'C14': dict(
        text='Theorem int2str_exact: for both widths, every value, base, signedness and buffer length the model of UInt32/64ToStrBaseSign writes exactly the first len '
             'characters of the canonical representation, NUL iff a byte remains, and returns the count (induction on the divisor exponent, all values at once). '
             'The model is tied to the code by differential execution (55k cases per quick run) and the code is additionally swept against libc printf inside the sanitised driver '
             '(2^24 stratified values in quick, all 2^32 in thorough).',
        technique='Coq proof (induction over the divisor loop) + model/implementation correspondence by differential execution + independent oracle',
        design='7/C14'),
    'C02': dict(
        text='Theorems dispatch_closed / compose_spec / first_match_spec / undefined_header: on the model of SCPI_Parse the handler starts of a message are, in order and exactly once, the first table entry accepting each unit\'s effective header computed from the message text alone; an undefined header starts no handler and queues one -113 with the unit text. Tied by differential execution of generated multi-unit messages over overlapping tables; an independent reference (effective-header rule + short/long-form matcher) judges the implementation\'s own traces.',
        technique='Coq proof (induction over the unit loop with the in-place header composition) + correspondence + reference dispatcher oracle', design='7/C02'),
    'C03': dict(
        text='Theorem match_language: for every well-formed unambiguous pattern (rendered from an item list) and every non-empty header, the model of matchCommand accepts iff the header is in the short/long-form language (greedy item matcher = nondeterministic language, then concrete loop = greedy matcher). Numeric-suffix reporting incl. the default for skipped keywords is covered by correspondence and an independent reference matcher on the implementation.',
        technique='Coq proof (two-level refinement: concrete loop -> greedy item matcher -> language) + correspondence + reference matcher oracle', design='7/C03'),
    'C06': dict(
        text='Theorem framing: for every context (any history), message, command table and scripts, the bytes written by the model of SCPI_Parse are the join with ";" of the join with "," of the items of the responding units, followed by one line terminator and one flush iff some unit responded (script_framing_streamed extends the script level to streamed blocks). Tied by differential execution; an independent framing function judges the implementation\'s output.',
        technique='Coq proof (invariant over result calls, units and the message) + correspondence + independent framing oracle', design='7/C06'),
    'C10': dict(
        text='Theorems push_refines / pop_refines / qrun_refines / clear_spec: the ring FIFO + error queue model (malloc configuration) refines an abstract list of capacity N for every history: overflow replaces the newest entry by -350, codes come back in order, texts are owned (every free hits a live allocation exactly once, nothing live after clear), allocation failure keeps the error. Tied by exhaustive short and random long histories on the malloc and no-info builds with LeakSanitizer and allocation-failure injection.',
        technique='Coq proof (refinement to an abstract bounded FIFO + ownership invariant) + correspondence + reference queue oracle', design='7/C10'),
    'C11': dict(
        text='Theorem stb_coherent: the five summary equivalences are an invariant of every operation of the register model (all 16-bit values at once), hence of every history. Tied by breadth-first operation sequences over the three-representative-bit alphabet and random 16-bit walks through the API and the IEEE 488.2 commands; the invariant is also evaluated directly on the implementation\'s register dumps.',
        technique='Coq proof (invariant by induction over operations, bit-level lemmas) + correspondence + invariant oracle on implementation state', design='7/C11'),
    'C12': dict(
        text='Theorems classify (all 65536 codes, by evaluation over the table regenerated from error.c) and srq_step (callback only with MSS set, always when MSS rises). Latching and stickiness are checked by the oracle on the implementation and by correspondence with the register model.',
        technique='Coq proof (finite evaluation over the generated table + step lemma) + correspondence + oracle', design='7/C12'),
    'C13': dict(
        text='Per-recogniser theorems on the lexer model: decimal numbers, white space, character data, single characters and flat expressions consume exactly the longest prefix of their 488.2 grammar (or nothing); nondecimal numbers likewise; strings and definite-length blocks are sound and complete for their delimited forms; compound/common headers and whole units header-blank-decimal-list-terminator are complete; the line terminator is maximal. Tied by all strings up to length 4/5 over one representative per character class (every recogniser on every string) plus generated long tokens; independent regular-expression references judge the implementation.',
        technique='Coq proof (maximal-munch lemmas per recogniser) + correspondence (exhaustive short strings) + grammar oracle', design='7/C13'),
    'C18': dict(
        text='Theorems quoted_part / quoted_bounded / quoted_prefix / quoted_maximal: for every description and text the model of SCPI_ResultError emits code,"q" with every quote doubled, |q| <= 255, unquote(q) a prefix of description;text, cut as late as the limit allows. Tied on the malloc build directly and through push + SYST:ERR? on the malloc and static-heap builds; an independent 488.2 string reader judges the implementation.',
        technique='Coq proof (induction over the text with the running limit) + correspondence + independent string-reader oracle', design='7/C18'),
    'C20': dict(
        text='Theorems strndup_inv / text_at / free_first / free_last / empty_reusable (heap level) and add_static / pop_static / clear_static / run_static / empty_queue_reusable (queue over the heap): for every history, heap size and capacity every queued error reports exactly its text or none, all bytes outside live texts are zero, the heap is completely reusable when the queue is empty, every store is inside the heap. Tied on the static-heap build with the heap bytes, write index and free count compared after every operation (exact-size heap under ASan).',
        technique='Coq proof (circular-layout invariant, induction over histories) + correspondence on heap bytes + text-or-nothing oracle', design='7/C20'),
}

NOT_YET = {}


def main():
    props = [json.loads(l) for l in open(os.path.join(ROOT, 'properties.jsonl'))]
    checks = []
    na = []
    for p in props:
        pid = p['id']
        if pid in CHECKS:
            c = CHECKS[pid]
            checks.append({
                'property_id': pid,
                'quick_cmd': './check %s quick' % pid,
                'thorough_cmd': './check %s thorough' % pid,
                'evidence_file': 'evidence/%s.json' % pid,
                'replay_cmd_template': './check --replay {path}',
                'engine': 'coq-proof+correspondence',
                'level_claimed': {'category': 'proof', 'text': c['text'], 'design_ref': 'DESIGN.md section ' + c['design']},
                'level_note': NOTE_COMMON + c.get('note', ''),
                'technique': c['technique'],
            })
        else:
            na.append({'property_id': pid, 'reason': NOT_YET.get(pid, 'check under construction in this round: theorems exist in coq/Properties_%s.v but no registered check yet' % pid)})
    m = {
        'version': 1,
        'setup_cmd': './setup.sh',
        'hooks': {
            'guard': 'SCPI_PARSER_VERIF',
            'enable': 'the harness is compiled with -DSCPI_PARSER_VERIF -fsanitize=address,undefined and #includes the library sources of /repo',
            'baseline_off_cmd': 'make -C /repo test',
            'source_commits': ['45c952d'],
            'add_only': True,
        },
        'engines': [{'name': 'coq-proof+correspondence', 'path': 'check', 'serves_properties': sorted(CHECKS), 'kind_free_text':
                     'Coq 8.16.1 theorems about hand-written Gallina models (coq/), tables regenerated from /repo by tools/gen_tables.c, models extracted to OCaml and run against the ASan/UBSan build of /repo on generated cases, property oracles on the implementation traces'}],
        'checks': checks,
        'not_applicable': na,
        'notes': 'See DESIGN.md. known_findings.json lists recorded findings (by shape) and fixed defects.',
    }
    json.dump(m, open(os.path.join(ROOT, 'MANIFEST.json'), 'w'), indent=1)
    print('MANIFEST.json: %d checks, %d not claimed' % (len(checks), len(na)))


main()
