#!/usr/bin/env python3
"""Writes MANIFEST.json from the table below (kept in one place so the file is always valid)."""
import json, os, sys
ROOT = os.path.dirname(os.path.dirname(os.path.abspath(__file__)))

NOTE_COMMON = ('Trusted: Coq 8.16.1 kernel (+ vm_compute for finite facts; no native_compute); no axioms declared (every theorem prints '
               '"Closed under the global context"); translator tools/gen_tables.c; extraction with ExtrOcamlBasic only; OCaml driver; the sanitised C harness; '
               'hand-written Gallina models tied to the code by differential execution on the generated cases of each run (not for all inputs); '
               'libc functions modelled, not verified. ')

CHECKS = {
    'C14': dict(
        text='Theorem int2str_exact: for both widths, every value, base, signedness and buffer length the model of UInt32/64ToStrBaseSign writes exactly the first len '
             'characters of the canonical representation, NUL iff a byte remains, and returns the count (induction on the divisor exponent, all values at once). '
             'The model is tied to the code by differential execution (55k cases per quick run) and the code is additionally swept against libc printf inside the sanitised driver '
             '(2^24 stratified values in quick, all 2^32 in thorough).',
        technique='Coq proof (induction over the divisor loop) + model/implementation correspondence by differential execution + independent oracle',
        design='7/C14'),
}

NOT_YET = {}


def main():
    props = [json.loads(l) for l in open(os.path.join(ROOT, 'properties.jsonl'))]
    checks = []
    na = []
    for p in props:
        pid = p['id']
        if pid in CHECKS:
            c = CHECKS[pid]
            checks.append({
                'property_id': pid,
                'quick_cmd': './check %s quick' % pid,
                'thorough_cmd': './check %s thorough' % pid,
                'evidence_file': 'evidence/%s.json' % pid,
                'replay_cmd_template': './check --replay {path}',
                'engine': 'coq-proof+correspondence',
                'level_claimed': {'category': 'proof', 'text': c['text'], 'design_ref': 'DESIGN.md section ' + c['design']},
                'level_note': NOTE_COMMON + c.get('note', ''),
                'technique': c['technique'],
            })
        else:
            na.append({'property_id': pid, 'reason': NOT_YET.get(pid, 'check under construction in this round: theorems exist in coq/Properties_%s.v but no registered check yet' % pid)})
    m = {
        'version': 1,
        'setup_cmd': './setup.sh',
        'hooks': {
            'guard': 'SCPI_PARSER_VERIF',
            'enable': 'the harness is compiled with -DSCPI_PARSER_VERIF -fsanitize=address,undefined and #includes the library sources of /repo',
            'baseline_off_cmd': 'make -C /repo test',
            'source_commits': ['45c952d'],
            'add_only': True,
        },
        'engines': [{'name': 'coq-proof+correspondence', 'path': 'check', 'serves_properties': sorted(CHECKS), 'kind_free_text':
                     'Coq 8.16.1 theorems about hand-written Gallina models (coq/), tables regenerated from /repo by tools/gen_tables.c, models extracted to OCaml and run against the ASan/UBSan build of /repo on generated cases, property oracles on the implementation traces'}],
        'checks': checks,
        'not_applicable': na,
        'notes': 'See DESIGN.md. known_findings.json lists recorded findings (by shape) and fixed defects.',
    }
    json.dump(m, open(os.path.join(ROOT, 'MANIFEST.json'), 'w'), indent=1)
    print('MANIFEST.json: %d checks, %d not claimed' % (len(checks), len(na)))


main()
