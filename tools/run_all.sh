#!/bin/bash
# run every registered check of one tier; print one summary line per property
tier=${1:-quick}
cd "$(dirname "$0")/.."
fail=0
for p in C01 C02 C03 C04 C05 C06 C07 C08 C09 C10 C11 C12 C13 C14 C15 C16 C17 C18 C19 C20; do
  out=$(./check $p $tier 2>&1); rc=$?
  echo "$out" | grep -E "^(VIOLATION|$p )" | head -3
  echo "$out" | grep -c KNOWN-FINDING | sed "s/^/   known findings: /" | grep -v ": 0"
  [ $rc -ne 0 ] && { fail=1; echo "   rc=$rc"; echo "$out" | tail -5; }
done
exit $fail
