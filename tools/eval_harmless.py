#!/usr/bin/env python3
"""tools/eval_harmless.py <dir-with-patch.diff> <name> [props...]: apply a behaviour-preserving patch to /repo, run the checks, undo; store under seeded/harmless/<name>"""
import json, os, re, shutil, subprocess, sys, time
ROOT = os.path.dirname(os.path.dirname(os.path.abspath(__file__)))
def sh(cmd, cwd=None, timeout=3600):
    p = subprocess.run(cmd, shell=True, cwd=cwd, stdout=subprocess.PIPE, stderr=subprocess.STDOUT, timeout=timeout)
    return p.returncode, p.stdout.decode(errors='replace')
src, name = sys.argv[1], sys.argv[2]
props = sys.argv[3:] or ['C%02d' % i for i in range(1, 21)]
patch = os.path.join(src, 'patch.diff')
meta = {'name': name, 'kind': 'behaviour-preserving', 'checks': {}}
rc, o = sh('git -C /repo apply %s' % patch)
meta['patch_applies'] = rc == 0
try:
    if rc == 0:
        rc, o = sh('make -C /repo test', timeout=900)
        meta['suite_passes'] = rc == 0 and 'FAILED' not in o
        sh('make -C /repo/libscpi clean')
        for p in props:
            rc, o = sh('./check %s quick' % p, cwd=ROOT)
            lines = [l[:300] for l in o.split('\n') if l.startswith('VIOLATION') or 'no longer checks' in l or l.startswith('  violation')]
            meta['checks'][p] = {'rc': rc, 'alarm': rc != 0, 'summary': lines[:5]}
finally:
    sh('git -C /repo checkout -- .')
dst = os.path.join(ROOT, 'seeded', 'harmless', name)
os.makedirs(dst, exist_ok=True)
for f in ('patch.diff', 'README.md'):
    if os.path.exists(os.path.join(src, f)):
        shutil.copy(os.path.join(src, f), dst)
json.dump(meta, open(os.path.join(dst, 'meta.json'), 'w'), indent=1)
al = [p for p, v in meta['checks'].items() if v['alarm']]
print(name, 'applies' if meta['patch_applies'] else 'DOES NOT APPLY', 'suite', meta.get('suite_passes'), 'ALARMS:' if al else 'no alarm', al)
for p in al:
    for l in meta['checks'][p]['summary'][:3]:
        print('   ', l[:240])
