#!/bin/bash
# usage: tools/with_patch.sh <patch-file|-R:commit> <command...>   apply to /repo working tree, run, undo
set -u
P="$1"; shift
cd /repo
if [[ "$P" == -R:* ]]; then git show "${P#-R:}" | git apply -R - || { echo "cannot reverse-apply"; exit 3; }
else git apply "$P" || { echo "cannot apply"; exit 3; }; fi
cd /verif
"$@"; rc=$?
git -C /repo checkout -- . 
exit $rc
