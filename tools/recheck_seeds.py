#!/usr/bin/env python3
"""tools/recheck_seeds.py [name-prefix ...]
Re-runs, for every seeded defect under seeded/ (and every behaviour-preserving change under seeded/harmless/), the quick check of its
property against /repo with the patch applied (undone afterwards) and rewrites the `detected` entry of its meta.json.
Prints one line per change and a summary; exit 1 if a seeded defect is missed or a harmless change raises an alarm."""
import glob, json, os, subprocess, sys, time
ROOT = os.path.dirname(os.path.dirname(os.path.abspath(__file__)))
REPO = os.environ.get('VERIF_REPO', '/repo')


def sh(cmd, cwd=None, timeout=3000):
    p = subprocess.run(cmd, shell=True, cwd=cwd, stdout=subprocess.PIPE, stderr=subprocess.STDOUT, timeout=timeout)
    return p.returncode, p.stdout.decode(errors='replace')


def main():
    pre = sys.argv[1:]
    dirs = sorted(glob.glob(os.path.join(ROOT, 'seeded', 'C*'))) + sorted(glob.glob(os.path.join(ROOT, 'seeded', 'harmless', '*')))
    bad = 0
    for d in dirs:
        name = os.path.basename(d)
        if pre and not any(name.startswith(x) for x in pre):
            continue
        mp = os.path.join(d, 'meta.json')
        if not os.path.exists(mp) or not os.path.exists(os.path.join(d, 'patch.diff')):
            continue
        meta = json.load(open(mp))
        harmless = '/harmless/' in d
        props = sorted(meta.get('checks', {}).keys()) if harmless else [meta['property']]
        only = os.environ.get('VERIF_ONLY_PROPS')      # restrict a partial re-run to the properties whose checks changed
        if only:
            props = [p for p in props if p in only.split(',')]
            if not props:
                continue
        rc, o = sh('git -C %s apply %s' % (REPO, os.path.join(d, 'patch.diff')))
        if rc != 0:
            print(name, 'PATCH DOES NOT APPLY')
            bad += 1
            continue
        det = {}
        try:
            for p in props:
                t0 = time.time()
                rc, o = sh('./check %s quick' % p, cwd=ROOT)
                lines = [l for l in o.split('\n') if l.startswith('VIOLATION') or l.startswith(p + ' ') or 'no longer checks' in l or l.startswith('  violation')]
                det[p] = {'rc': rc, 'fired': rc == 1 and any(l.startswith('VIOLATION') for l in lines), 'summary': [l[:300] for l in lines[:6]], 'wall_s': round(time.time() - t0, 1)}
        finally:
            sh('git -C %s checkout -- .' % REPO)
        if harmless:
            meta.setdefault('checks', {}).update({p: {'rc': v['rc'], 'alarm': v['rc'] != 0, 'summary': v['summary'][:5]} for p, v in det.items()})
        else:
            meta['detected'] = det
        json.dump(meta, open(mp, 'w'), indent=1)
        fired = {p: (v['rc'] != 0 if harmless else v['fired']) for p, v in det.items()}
        ok = (not any(fired.values())) if harmless else all(fired.values())
        if not ok:
            bad += 1
        print(name, 'harmless' if harmless else 'defect', fired, '' if ok else '<<<<<< UNEXPECTED', flush=True)
    print('RECHECK-DONE unexpected=%d' % bad)
    sys.exit(1 if bad else 0)


main()
