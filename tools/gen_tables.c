/* translator prototype: prints tables of the library as Gallina terms */
#include "/repo/libscpi/src/error.c"
#include "/repo/libscpi/src/fifo.c"
#include "/repo/libscpi/src/ieee488.c"
#include "/repo/libscpi/src/minimal.c"
#include "/repo/libscpi/src/lexer.c"
#include "/repo/libscpi/src/utils.c"
#include "/repo/libscpi/src/parser.c"
#include "/repo/libscpi/src/units.c"
#include "/repo/libscpi/src/expression.c"
#include <inttypes.h>
static void bytes(const char*s){ printf("["); for(size_t i=0;s[i];i++) printf("%s%u",i?";":"",(unsigned char)s[i]); printf("]%%N"); }
int main(){
  printf("(* GENERATED from the working tree by gen_tables.c -- do not edit *)\nFrom Coq Require Import List NArith ZArith.\nImport ListNotations.\n");
  printf("Definition gen_units : list (list N * Z * Z) := [\n");
  for(int i=0; scpi_units_def[i].name; i++){ uint64_t b; memcpy(&b,&scpi_units_def[i].mult,8); printf("  %s(",i?"; ":"  "); bytes(scpi_units_def[i].name); printf(", %d, %" PRIu64 ")%%Z\n",scpi_units_def[i].unit,b); }
  printf("].\nDefinition gen_specials : list (list N * Z) := [\n");
  for(int i=0; scpi_special_numbers_def[i].name; i++){ printf("  %s(",i?"; ":"  "); bytes(scpi_special_numbers_def[i].name); printf(", %d)%%Z\n",scpi_special_numbers_def[i].tag); }
  printf("].\nDefinition gen_bool_def : list (list N * Z) := [\n");
  for(int i=0; scpi_bool_def[i].name; i++){ printf("  %s(",i?"; ":"  "); bytes(scpi_bool_def[i].name); printf(", %d)%%Z\n",scpi_bool_def[i].tag); }
  printf("].\nDefinition gen_err_classes : list (Z * Z * N) := [\n");
  for(int i=0;i<ERROR_DEFS_N;i++) printf("  %s((%d)%%Z, (%d)%%Z, %u%%N)\n",i?"; ":"  ",errs[i].from,errs[i].to,errs[i].esrBit);
  printf("].\nDefinition gen_err_desc : list (Z * list N) := [\n"); int first=1;
  for(int c=-32768;c<=32767;c++){ const char*d=SCPI_ErrorTranslate(c); if(strcmp(d,"Unknown error")){ printf("  %s((%d)%%Z, ",first?"  ":"; ",c); bytes(d); printf(")\n"); first=0; } }
  printf("].\nDefinition gen_err_fallback : list N := "); bytes(SCPI_ErrorTranslate(12345)); printf(".\n");
  printf("Definition gen_desc_max : Z := %d%%Z.\nDefinition gen_line_ending : list N := ",SCPI_STD_ERROR_DESC_MAX_STRING_LENGTH); bytes(SCPI_LINE_ENDING); printf(".\n");
  return 0; }
