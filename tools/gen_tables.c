/* translator prototype: prints tables of the library as Gallina terms */
#include "error.c"
#include "fifo.c"
#include "ieee488.c"
#include "minimal.c"
#include "lexer.c"
#include "utils.c"
#include "parser.c"
#include "units.c"
#include "expression.c"
#include <inttypes.h>
static void bytes(const char*s){ printf("["); for(size_t i=0;s[i];i++) printf("%s%u",i?";":"",(unsigned char)s[i]); printf("]%%N"); }
int main(){
  printf("(* GENERATED from the working tree by gen_tables.c -- do not edit *)\nFrom Coq Require Import List NArith ZArith.\nImport ListNotations.\n");
  printf("Definition gen_units : list (list N * Z * Z) := [\n");
  for(int i=0; scpi_units_def[i].name; i++){ uint64_t b; memcpy(&b,&scpi_units_def[i].mult,8); printf("  %s(",i?"; ":"  "); bytes(scpi_units_def[i].name); printf(", %d, %" PRIu64 ")%%Z\n",scpi_units_def[i].unit,b); }
  printf("].\nDefinition gen_specials : list (list N * Z) := [\n");
  for(int i=0; scpi_special_numbers_def[i].name; i++){ printf("  %s(",i?"; ":"  "); bytes(scpi_special_numbers_def[i].name); printf(", %d)%%Z\n",scpi_special_numbers_def[i].tag); }
  printf("].\nDefinition gen_bool_def : list (list N * Z) := [\n");
  for(int i=0; scpi_bool_def[i].name; i++){ printf("  %s(",i?"; ":"  "); bytes(scpi_bool_def[i].name); printf(", %d)%%Z\n",scpi_bool_def[i].tag); }
  printf("].\nDefinition gen_err_classes : list (Z * Z * N) := [\n");
  for(int i=0;i<ERROR_DEFS_N;i++) printf("  %s((%d)%%Z, (%d)%%Z, %u%%N)\n",i?"; ":"  ",errs[i].from,errs[i].to,errs[i].esrBit);
  printf("].\nDefinition gen_err_desc : list (Z * list N) := [\n"); int first=1;
  for(int c=-32768;c<=32767;c++){ const char*d=SCPI_ErrorTranslate(c); if(strcmp(d,"Unknown error")){ printf("  %s((%d)%%Z, ",first?"  ":"; ",c); bytes(d); printf(")\n"); first=0; } }
  printf("].\nDefinition gen_err_fallback : list N := "); bytes(SCPI_ErrorTranslate(12345)); printf(".\n");
  printf("Definition gen_desc_max : Z := %d%%Z.\nDefinition gen_line_ending : list N := ",SCPI_STD_ERROR_DESC_MAX_STRING_LENGTH); bytes(SCPI_LINE_ENDING); printf(".\n");
  /* register tables: per register (class, group); per group (event, enable, condition, ptfilt, ntfilt, parent_reg, parent_bit); NONE printed as -1 */
  printf("Definition gen_reg_count : Z := %d%%Z.\nDefinition gen_reg_details : list (Z * Z) := [\n", (int)SCPI_REG_COUNT);
  for(int i=0;i<SCPI_REG_COUNT;i++) printf("  %s(%d, %d)%%Z\n", i?"; ":"  ", (int)scpi_reg_details[i].type, (int)scpi_reg_details[i].group);
  printf("].\nDefinition gen_group_details : list (Z * Z * Z * Z * Z * Z * N) := [\n");
#define RN(x) ((x)==SCPI_REG_NONE?-1:(int)(x))
  for(int i=0;i<SCPI_REG_GROUP_COUNT;i++){ scpi_reg_group_info_t g=scpi_reg_group_details[i];
    printf("  %s((%d)%%Z, (%d)%%Z, (%d)%%Z, (%d)%%Z, (%d)%%Z, (%d)%%Z, %u%%N)\n", i?"; ":"  ", RN(g.event), RN(g.enable), RN(g.condition), RN(g.ptfilt), RN(g.ntfilt), RN(g.parent_reg), (unsigned)g.parent_bit); }
  printf("].\nDefinition gen_reg_classes : list Z := [%d; %d; %d; %d; %d]%%Z.  (* STB SRE EVEN ENAB COND *)\n", (int)SCPI_REG_CLASS_STB,(int)SCPI_REG_CLASS_SRE,(int)SCPI_REG_CLASS_EVEN,(int)SCPI_REG_CLASS_ENAB,(int)SCPI_REG_CLASS_COND);
  printf("Definition gen_stb_bits : list N := [%u; %u; %u; %u; %u]%%N.  (* SRQ QMA ESR OPS QES *)\n", (unsigned)STB_SRQ,(unsigned)STB_QMA,(unsigned)STB_ESR,(unsigned)STB_OPS,(unsigned)STB_QES);
  printf("Definition gen_reg_val_bits : Z := %d%%Z.\n", (int)(8*sizeof(scpi_reg_val_t)));
  /* formatting configuration */
  { char pf[8]; const char*b2=getBasePrefix(2),*b8=getBasePrefix(8),*b16=getBasePrefix(16),*b10=getBasePrefix(10);
    printf("Definition gen_base_prefix : list (Z * list N) := [(2%%Z, "); bytes(b2?b2:""); printf("); (8%%Z, "); bytes(b8?b8:""); printf("); (16%%Z, "); bytes(b16?b16:""); printf("); (10%%Z, "); bytes(b10?b10:""); printf(")].\n"); (void)pf; }
#define STR2(x) #x
#define STR(x) STR2(x)
  printf("Definition gen_double_fmt : list N := "); bytes(STR(SCPIDEFINE_doubleToStr(v, s, l))); printf(".\n");
  printf("Definition gen_float_fmt : list N := "); bytes(STR(SCPIDEFINE_floatToStr(v, s, l))); printf(".\n");
  printf("Definition gen_desc_parts : Z := %d%%Z.\n", (int)SCPIDEFINE_DESCRIPTION_MAX_PARTS);
  printf("Definition gen_config : list Z := [%d; %d; %d; %d]%%Z.  (* USE_DEVICE_DEPENDENT_ERROR_INFORMATION USE_MEMORY_ALLOCATION_FREE USE_CUSTOM_DTOSTRE HAVE_STDBOOL *)\n",
         (int)USE_DEVICE_DEPENDENT_ERROR_INFORMATION,(int)USE_MEMORY_ALLOCATION_FREE,(int)USE_CUSTOM_DTOSTRE,(int)HAVE_STDBOOL);
  /* character classes of the lexer, obtained from the recognisers' behaviour (not from the names of lexer.c's static
     helpers, which a refactoring may change): for every byte value b, does the recogniser accept b in the position that
     the class governs?  L(f, text, n) = return value of recogniser f on the n bytes of text. */
#define L(f, n) (st_.buffer = tb_, st_.pos = tb_, st_.len = (n), tk_.type = SCPI_TOKEN_UNKNOWN, tk_.len = 0, f(&st_, &tk_))
#define CC(name, prep, expr) do { printf("Definition gen_cc_%s : list N := [", name); int first_ = 1; \
    for (int b = 0; b < 256; b++) { char tb_[8]; lex_state_t st_; scpi_token_t tk_; prep; if (expr) { printf("%s%d", first_ ? "" : "; ", b); first_ = 0; } } \
    printf("]%%N.\n"); } while (0)
  CC("isws", (tb_[0] = (char) b), L(scpiLex_WhiteSpace, 1) == 1);
  CC("isbdigit", (tb_[0] = '#', tb_[1] = 'B', tb_[2] = (char) b), L(scpiLex_NondecimalNumericData, 3) == 3 && tk_.type == SCPI_TOKEN_BINNUM);
  CC("isqdigit", (tb_[0] = '#', tb_[1] = 'Q', tb_[2] = (char) b), L(scpiLex_NondecimalNumericData, 3) == 3 && tk_.type == SCPI_TOKEN_OCTNUM);
  CC("isxdigit", (tb_[0] = '#', tb_[1] = 'H', tb_[2] = (char) b), L(scpiLex_NondecimalNumericData, 3) == 3 && tk_.type == SCPI_TOKEN_HEXNUM);
  CC("isH", (tb_[0] = '#', tb_[1] = (char) b, tb_[2] = '8'), L(scpiLex_NondecimalNumericData, 3) == 3 && tk_.type == SCPI_TOKEN_HEXNUM);
  CC("isQ", (tb_[0] = '#', tb_[1] = (char) b, tb_[2] = '0'), L(scpiLex_NondecimalNumericData, 3) == 3 && tk_.type == SCPI_TOKEN_OCTNUM);
  CC("isB", (tb_[0] = '#', tb_[1] = (char) b, tb_[2] = '0'), L(scpiLex_NondecimalNumericData, 3) == 3 && tk_.type == SCPI_TOKEN_BINNUM);
  CC("isplusmn", (tb_[0] = (char) b, tb_[1] = '1'), L(scpiLex_DecimalNumericProgramData, 2) == 2 && !(b >= '0' && b <= '9') && b != '.');
  CC("isE", (tb_[0] = '1', tb_[1] = (char) b, tb_[2] = '1'), L(scpiLex_DecimalNumericProgramData, 3) == 3 && !(b >= '0' && b <= '9') && b != '.');
  CC("isdigit", (tb_[0] = (char) b), L(scpiLex_DecimalNumericProgramData, 1) == 1);
  CC("isnzdigit", (tb_[0] = '#', tb_[1] = (char) b, tb_[2] = '0', tb_[3] = '0', tb_[4] = '0', tb_[5] = '0'), (L(scpiLex_ArbitraryBlockProgramData, 2), st_.pos - st_.buffer == 2) && b != '#');
  CC("isalpha", (tb_[0] = (char) b), L(scpiLex_CharacterProgramData, 1) == 1);
  CC("ismnem", (tb_[0] = 'A', tb_[1] = (char) b), L(scpiLex_CharacterProgramData, 2) == 2);
  CC("isascii7", (tb_[0] = '\'', tb_[1] = (char) b, tb_[2] = '\''), b != '\'' && L(scpiLex_StringProgramData, 3) == 3);
  CC("isexpr", (tb_[0] = '(', tb_[1] = (char) b, tb_[2] = ')'), L(scpiLex_ProgramExpression, 3) == 3);
#undef CC
#define CC(name, expr) do { printf("Definition gen_cc_%s : list N := [", name); int first_ = 1; \
    for (int b = 0; b < 256; b++) { int u = (int)(uint8_t) b; if (expr) { printf("%s%d", first_ ? "" : "; ", b); first_ = 0; } } \
    printf("]%%N.\n"); } while (0)
  /* <ctype.h> as utils.c, parser.c and expression.c rely on it (strncasecmp, islower in patternSeparatorShortPos, the isspace of strtol) */
  CC("islower", islower(u)); CC("isupper", isupper(u)); CC("isspace", isspace(u));
  printf("Definition gen_tolower : list N := ["); for (int b = 0; b < 256; b++) printf("%s%d", b ? "; " : "", tolower(b)); printf("]%%N.\n");
  /* widths the models abstract from (they count in Z), and the work buffer of the custom formatter */
  { scpi_t c_; scpi_fifo_t f_;
    printf("Definition gen_widths : list Z := [%d; %d; %d; %d; %d; %d]%%Z.  (* bits of output_count, input_count, fifo wr, rd, count, size *)\n",
           (int)(8*sizeof c_.output_count), (int)(8*sizeof c_.input_count), (int)(8*sizeof f_.wr), (int)(8*sizeof f_.rd), (int)(8*sizeof f_.count), (int)(8*sizeof f_.size)); }
  printf("Definition gen_dtostre_buf : Z := %d%%Z.\n", (int)SCPI_DTOSTRE_BUFFER_SIZE);
  printf("Definition gen_native_format : Z := %d%%Z.  (* SCPI_GetNativeFormat(): 1 big endian (NORMAL), 2 little endian (SWAPPED) *)\n", (int)SCPI_GetNativeFormat());
  return 0; }
