#!/usr/bin/env python3
"""tools/eval_seed.py <property> <dir-with-patch.diff-demo.c-README.md> <name> [more properties to run...]
Confirms a seeded defect in a scratch worktree (suite passes with it, demo passes clean / fails patched), runs the
check(s) against /repo with the patch applied (undone afterwards) and stores everything under seeded/<name>/."""
import json, os, re, shutil, subprocess, sys, time
ROOT = os.path.dirname(os.path.dirname(os.path.abspath(__file__)))


def sh(cmd, cwd=None, timeout=1800):
    p = subprocess.run(cmd, shell=isinstance(cmd, str), cwd=cwd, stdout=subprocess.PIPE, stderr=subprocess.STDOUT, timeout=timeout)
    return p.returncode, p.stdout.decode(errors='replace')


def main():
    prop, src, name = sys.argv[1], sys.argv[2], sys.argv[3]
    more = sys.argv[4:]
    patch = os.path.join(src, 'patch.diff')
    demo = os.path.join(src, 'demo.c')
    readme = open(os.path.join(src, 'README.md'), errors='replace').read() if os.path.exists(os.path.join(src, 'README.md')) else ''
    wt = '/tmp/evalwt_%d' % os.getpid()
    sh('git -C /repo worktree add -q --detach %s HEAD' % wt)
    meta = {'property': prop, 'name': name, 'ran': []}
    try:
        # build flags: only from the command line(s) that compile demo.c
        flags = ' '.join(sorted(set(f for l in readme.split('\n') if 'gcc' in l and 'demo' in l for f in re.findall(r'-std=\w+|-D(?:USE|HAVE)_\w+=\d|-Wl,--wrap=\w+|-fsanitize=[\w,]+|-DDEMO_\w+', l))))
        def build_demo(out):
            return sh('gcc -w -I %s/libscpi/inc %s %s %s/libscpi/src/*.c -lm -o %s' % (wt, flags, demo, wt, out))
        rc, o = build_demo('/tmp/demo_clean_%d' % os.getpid())
        meta['demo_build_clean'] = rc
        rc1, o1 = sh('/tmp/demo_clean_%d' % os.getpid(), timeout=120) if rc == 0 else (99, o)
        meta['demo_clean_rc'] = rc1
        rc, o = sh('git -C %s apply %s' % (wt, patch))
        meta['patch_applies'] = rc == 0
        rc, o = build_demo('/tmp/demo_patched_%d' % os.getpid())
        rc2, o2 = sh('/tmp/demo_patched_%d' % os.getpid(), timeout=120) if rc == 0 else (99, o)
        meta['demo_patched_rc'] = rc2
        meta['demo_patched_output'] = o2[-600:]
        rc, o = sh('make -C %s test' % wt, timeout=900)
        passed = re.findall(r'^\s+tests\s+(\d+)\s+(\d+)\s+(\d+)\s+(\d+)', o, re.M)
        meta['suite_with_patch'] = {'rc': rc, 'tests': [(int(a), int(c), int(d)) for a, b, c, d in passed]}
        meta['suite_passes_with_patch'] = rc == 0 and sum(int(d) for a, b, c, d in passed) == 0 and sum(int(a) for a, b, c, d in passed) == 71
    finally:
        sh('git -C /repo worktree remove --force %s' % wt)
        for f in ('/tmp/demo_clean_%d' % os.getpid(), '/tmp/demo_patched_%d' % os.getpid()):
            if os.path.exists(f):
                os.remove(f)
    meta['confirmed'] = bool(meta.get('patch_applies') and meta.get('suite_passes_with_patch') and meta.get('demo_clean_rc') == 0 and meta.get('demo_patched_rc') not in (0, 99))
    # run the checks against /repo with the patch
    detected = {}
    rc, o = sh('git -C /repo apply %s' % patch)
    try:
        if rc == 0:
            for p in [prop] + more:
                t0 = time.time()
                rc, o = sh('./check %s quick' % p, cwd=ROOT, timeout=3000)
                lines = [l for l in o.split('\n') if l.startswith('VIOLATION') or l.startswith(p + ' ') or 'no longer checks' in l or l.startswith('  violation')]
                detected[p] = {'rc': rc, 'fired': rc == 1 and any(l.startswith('VIOLATION') for l in lines), 'summary': [l[:300] for l in lines[:6]], 'wall_s': round(time.time() - t0, 1)}
                meta['ran'].append('./check %s quick' % p)
    finally:
        sh('git -C /repo checkout -- .')
    meta['detected'] = detected
    dst = os.path.join(ROOT, 'seeded', name)
    os.makedirs(dst, exist_ok=True)
    for f in ('patch.diff', 'demo.c', 'README.md'):
        if os.path.exists(os.path.join(src, f)):
            shutil.copy(os.path.join(src, f), dst)
    m = re.search(r'(?:needs?|trigger|manifest)[^\n]*\n?[^\n]*', readme, re.I)
    meta['needs_to_manifest'] = ' '.join(m.group(0).split())[:500] if m else ''
    json.dump(meta, open(os.path.join(dst, 'meta.json'), 'w'), indent=1)
    print(name, 'confirmed' if meta['confirmed'] else 'NOT CONFIRMED', {p: d['fired'] for p, d in detected.items()})
    for p, d in detected.items():
        for l in d['summary'][:3]:
            print('   ', l[:220])


main()
