#!/usr/bin/env python3
"""tools/mk_seed_table.py: print the two markdown tables of DESIGN.md section 13.7/13.8 from seeded/*/meta.json and patch.diff."""
import glob, json, os, re
ROOT = os.path.dirname(os.path.dirname(os.path.abspath(__file__)))


def funcs(patch):
    files, fns = [], []
    for l in open(patch, errors='replace'):
        m = re.match(r'\+\+\+ b/(\S+)', l)
        if m:
            files.append(os.path.basename(m.group(1)))
        m = re.match(r'@@ .* @@\s*(.*)', l)
        if m and m.group(1):
            f = re.search(r'(\w+)\s*\(', m.group(1))
            if f and f.group(1) not in fns and f.group(1) not in ('if', 'while', 'for', 'switch'):
                fns.append(f.group(1))
    return sorted(set(files)), fns


def main():
    print('| seeded defect | file (function) | fired | first shapes |')
    print('|---|---|---|---|')
    for d in sorted(glob.glob(os.path.join(ROOT, 'seeded', 'C*'))):
        mp = os.path.join(d, 'meta.json')
        if not os.path.exists(mp):
            continue
        meta = json.load(open(mp))
        files, fns = funcs(os.path.join(d, 'patch.diff'))
        fired = [p for p, v in meta.get('detected', {}).items() if v.get('fired')]
        shapes = []
        for p, v in meta.get('detected', {}).items():
            for l in v.get('summary', []):
                m = re.search(r'replay=\S*/C\d\d-([a-z0-9-]+?)-[0-9a-f]{10}\.json', l)
                if m and m.group(1) not in shapes:
                    shapes.append(m.group(1))
        print('| `seeded/%s` | %s (%s) | %s | %s |' % (os.path.basename(d), ', '.join(files), ', '.join(fns[:3]), ', '.join(fired) or '**missed**', ', '.join(shapes[:3])))
    print()
    print('| change | files | checks run | alarms |')
    print('|---|---|---|---|')
    for d in sorted(glob.glob(os.path.join(ROOT, 'seeded', 'harmless', '*'))):
        mp = os.path.join(d, 'meta.json')
        if not os.path.exists(mp):
            continue
        meta = json.load(open(mp))
        files, _ = funcs(os.path.join(d, 'patch.diff'))
        al = [p for p, v in meta.get('checks', {}).items() if v.get('alarm')]
        print('| `seeded/harmless/%s` | %s | %d checks run | %s |' % (os.path.basename(d), ', '.join(files), len(meta.get('checks', {})), ', '.join(al) or 'none'))


main()
