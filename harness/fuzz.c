/* Coverage-guided search for C01 (thorough tier only): libFuzzer drives the same scenario runner as the correspondence
   harness.  The input bytes choose a command table (from the file named by VERIF_FUZZ_TABLES, one "|C tag pat script|C ..."
   string per line, written by props/C01.py), the buffer and queue sizes and a chunking; the rest is the byte stream.
   Any sanitizer report, leak or timeout is a violation of C01 on the working tree; the crashing input is the replay.
   This is a search aid, not part of any proof. */
#define main impl_main
#include "impl.c"
#undef main

static char *tables[64]; static int ntables;
static char fline[1 << 20];

int LLVMFuzzerInitialize(int *argc, char ***argv) {
    (void) argc; (void) argv;
    setlocale(LC_ALL, "C");
    const char *fn = getenv("VERIF_FUZZ_TABLES");
    FILE *f = fn ? fopen(fn, "r") : NULL;
    static char buf[1 << 16];
    while (f && ntables < 64 && fgets(buf, sizeof buf, f)) { buf[strcspn(buf, "\n")] = 0; if (buf[0]) tables[ntables++] = strdup(buf); }
    if (f) fclose(f);
    if (!ntables) tables[ntables++] = strdup("|C 0 2a49444e3f RTEXT:6162|C 1 54455354 PI32:0;PD:0;PTEXT:4:0;RI32:5");
    return 0;
}

int LLVMFuzzerTestOneInput(const unsigned char *data, size_t size) {
    static const int caps[] = {2, 3, 4, 5, 8, 16, 32, 64, 256, 256, 256, 1024};
    static const int heaps[] = {2, 5, 16, 64};
    if (size < 4 || size > 4096) return 0;
    int cap = caps[data[0] % 12], q = 1 + data[1] % 4, heap = heaps[(data[1] >> 4) % 4];
    const char *tab = tables[data[2] % ntables];
    unsigned mode = data[3];
    size_t n = size - 4; const unsigned char *s = data + 4;
    size_t o = (size_t) snprintf(fline, sizeof fline, "S %d %d %d%s", cap, q, heap, tab);
    static const char hexd[] = "0123456789abcdef";
    size_t i = 0; unsigned k = mode;
    if (mode % 5 == 4) {            /* a complete line handed to SCPI_Parse */
        o += (size_t) snprintf(fline + o, sizeof fline - o, "|L ");
        for (; i < n && o + 4 < sizeof fline; i++) { unsigned char b = s[i] ? s[i] : ' '; fline[o++] = hexd[b >> 4]; fline[o++] = hexd[b & 15]; }
        if (n == 0) fline[o++] = '-';
    } else while (i < n && o + 16 < sizeof fline) {
        size_t len = (mode % 5 == 0) ? n : (mode % 5 == 1) ? 1 : 1 + (k = k * 1103515245u + 12345u, (k >> 16) % 9);
        if (len > n - i) len = n - i;
        o += (size_t) snprintf(fline + o, sizeof fline - o, "|I ");
        for (size_t j = 0; j < len && o + 4 < sizeof fline; j++) { fline[o++] = hexd[s[i + j] >> 4]; fline[o++] = hexd[s[i + j] & 15]; }
        i += len;
        if (((k >> 8) & 31) == 0 && o + 8 < sizeof fline) o += (size_t) snprintf(fline + o, sizeof fline - o, "|I -");   /* an occasional flush */
    }
    if ((mode & 64) && o + 8 < sizeof fline) o += (size_t) snprintf(fline + o, sizeof fline - o, "|I -");
    fline[o] = 0;
    if (getenv("VERIF_FUZZ_PRINT")) { puts(fline); fflush(stdout); return 0; }      /* translate an input file into its scenario line */
    ol = 0; wl = 0;
    run_scenario(fline);
    ol = 0; wl = 0; if (ob) ob[0] = 0;
    return 0;
}
