/* Implementation driver of the correspondence check.
 *
 * Built on every run from /repo's working tree (the library's .c files are #included so that
 * file-static functions and tables are reachable), with ASan + UBSan and -DSCPI_PARSER_VERIF.
 * Reads one case per line on stdin and prints exactly one result line per case on stdout
 * (flushed), so that a sanitizer abort or the watchdog identifies the offending case by the
 * number of complete lines printed so far.  Formats are documented in DESIGN.md section 3.2.
 */
#ifdef VERIF_STRICT
/* strict ISO C build (gcc -std=c99, no feature-test macros): the library falls back on its own strncasecmp / strnlen / strndup.
   The driver declares the few POSIX functions it uses itself. */
#include <stddef.h>
char *strtok_r(char *, const char *, char **); char *strdup(const char *); size_t strnlen(const char *, size_t);
#else
#define _GNU_SOURCE
#endif
#include "error.c"
#include "fifo.c"
#include "ieee488.c"
#include "minimal.c"
#include "lexer.c"
#include "utils.c"
#include "parser.c"
#include "units.c"
#include "expression.c"
#include <inttypes.h>
#include <errno.h>
#include <stdarg.h>
#include <locale.h>
#include <signal.h>
#include <unistd.h>
#include <stdlib.h>

/* ------------------------------------------------------------------ output line assembly */
static char *ob; static size_t ol, oc;
static void oput(const char *s, size_t n) {
    if (ol + n + 1 > oc) { oc = (ol + n + 1) * 2; ob = realloc(ob, oc); }
    memcpy(ob + ol, s, n); ol += n; ob[ol] = 0;
}
static void oprintf(const char *fmt, ...) {
    char tmp[512]; va_list ap; va_start(ap, fmt); int n = vsnprintf(tmp, sizeof tmp, fmt, ap); va_end(ap);
    if (n > 0) oput(tmp, (size_t) n < sizeof tmp ? (size_t) n : sizeof tmp - 1);
}
static void ohex(const void *p, size_t n) {
    static const char hx[] = "0123456789abcdef"; const unsigned char *q = p;
    for (size_t i = 0; i < n; i++) { char b[2] = { hx[q[i] >> 4], hx[q[i] & 15] }; oput(b, 2); }
}
static void oend(void) { fwrite(ob ? ob : "", 1, ol, stdout); fputc('\n', stdout); fflush(stdout); ol = 0; if (ob) ob[0] = 0; }

static size_t unhex(const char *h, unsigned char *out) {
    size_t n = 0;
    while (h[0] && h[1] && h[0] != ' ' && h[0] != '|') {
        unsigned x; if (sscanf(h, "%2x", &x) != 1) break; out[n++] = (unsigned char) x; h += 2;
    }
    return n;
}
/* exact-size heap copy so that ASan sees any over-read/over-write */
/* exact-size buffers, also for size 0: ASan gives malloc(0) one addressable byte, so a zero-length buffer is taken from a
   poisoned static region instead and any access through it is reported */
#include <sanitizer/asan_interface.h>
static char zero_guard[64];
static void *zalloc(size_t n) { if (n) return malloc(n); ASAN_POISON_MEMORY_REGION(zero_guard, sizeof zero_guard); return zero_guard + 32; }
static void zfree(void *p) { if ((char *) p >= zero_guard && (char *) p < zero_guard + sizeof zero_guard) return; free(p); }
static void *exact(const void *src, size_t n) { void *p = malloc(n); if (n) memcpy(p, src, n); return p; }

/* ------------------------------------------------------------------ watchdog */
static void on_alarm(int sig) { (void) sig; static const char m[] = "\n@@TIMEOUT\n"; if (write(2, m, sizeof m - 1)) {} _exit(124); }

/* ------------------------------------------------------------------ parser scenarios (kind S) */
static unsigned char wbuf[1 << 19]; static size_t wl;
static void flushw(void) { if (wl) { oput(" W", 2); ohex(wbuf, wl); wl = 0; } }
static int muted;
static size_t cb_write(scpi_t *c, const char *d, size_t l) { (void) c; if (wl + l <= sizeof wbuf) { memcpy(wbuf + wl, d, l); wl += l; } return l; }
static int cb_error(scpi_t *c, int_fast16_t e) { (void) c; if (muted) return 0; flushw(); oprintf(" E%d", (int) e); return 0; }
static scpi_result_t cb_flush(scpi_t *c) { (void) c; flushw(); oput(" F", 2); return SCPI_RES_OK; }
static scpi_result_t cb_ctrl(scpi_t *c, scpi_ctrl_name_t n, scpi_reg_val_t v) { (void) c; if (muted) return SCPI_RES_OK; flushw(); if (n == SCPI_CTRL_SRQ) oprintf(" Q%d", (int) v); return SCPI_RES_OK; }
static scpi_result_t cb_reset(scpi_t *c) { (void) c; return SCPI_RES_OK; }
static scpi_interface_t ifc = { cb_error, cb_write, cb_ctrl, cb_flush, cb_reset };
static scpi_interface_t ifc_noerr = { NULL, cb_write, cb_ctrl, cb_flush, cb_reset };      /* a firmware that installs no error callback (legal: every use is NULL-checked) */

#define MAXCMD 48
static char *scripts[MAXCMD]; static char *patterns[MAXCMD]; static scpi_command_t cmds[MAXCMD + 1]; static int ncmd;
static const scpi_choice_def_t choice_def[] = { {"BUS", 5}, {"IMMediate", 6}, {"EXTernal", 7}, SCPI_CHOICE_LIST_END };

static void pvals_bytes(const unsigned char *p, size_t l) { for (size_t i = 0; i < l; i++) oprintf("%s%d", i ? "," : "", p[i]); }

static scpi_result_t generic(scpi_t *c) {
    int tag = SCPI_CmdTag(c);
    flushw(); oprintf(" H%d:", tag); ohex(c->param_list.cmd_raw.data, c->param_list.cmd_raw.length);
    if (tag < 0 || tag >= MAXCMD || !scripts[tag]) return SCPI_RES_OK;
    char *sc = strdup(scripts[tag]); scpi_result_t ret = SCPI_RES_OK; char *save = NULL;
    if (strcmp(sc, "-") != 0) for (char *op = strtok_r(sc, ";", &save); op; op = strtok_r(NULL, ";", &save)) {
        char name[16]; static char a1[1 << 15], a3[1 << 15]; char a2[64] = ""; a1[0] = 0; a3[0] = 0;
        sscanf(op, "%15[^:]:%32767[^:]:%63[^:]:%32767s", name, a1, a2, a3);
        int ok = 1, mand = 0, isread = 0;
#define AFTER(m) isread = 1; mand = (m);
        if (!strcmp(name, "PI32")) { int32_t v = 0; AFTER(atoi(a1)) ok = SCPI_ParamInt32(c, &v, mand); flushw(); oprintf(" P1:%d:", ok); if (ok) oprintf("%d", v); }
        else if (!strcmp(name, "PU32")) { uint32_t v = 0; AFTER(atoi(a1)) ok = SCPI_ParamUInt32(c, &v, mand); flushw(); oprintf(" P2:%d:", ok); if (ok) oprintf("%u", v); }
        else if (!strcmp(name, "PI64")) { int64_t v = 0; AFTER(atoi(a1)) ok = SCPI_ParamInt64(c, &v, mand); flushw(); oprintf(" P3:%d:", ok); if (ok) oprintf("%" PRId64, v); }
        else if (!strcmp(name, "PU64")) { uint64_t v = 0; AFTER(atoi(a1)) ok = SCPI_ParamUInt64(c, &v, mand); flushw(); oprintf(" P4:%d:", ok); if (ok) oprintf("%" PRIu64, v); }
        else if (!strcmp(name, "PBOOL")) { scpi_bool_t v = 0; AFTER(atoi(a1)) ok = SCPI_ParamBool(c, &v, mand); flushw(); oprintf(" P5:%d:", ok); if (ok) oprintf("%d", v ? 1 : 0); }
        else if (!strcmp(name, "PCHOICE")) { int32_t v = 0; AFTER(atoi(a1)) ok = SCPI_ParamChoice(c, choice_def, &v, mand); flushw(); oprintf(" P6:%d:", ok); if (ok) oprintf("%d", v); }
        else if (!strcmp(name, "PCHARS")) { const char *p = NULL; size_t l = 0; AFTER(atoi(a1)) ok = SCPI_ParamCharacters(c, &p, &l, mand); flushw(); oprintf(" P7:%d:", ok); if (ok) pvals_bytes((const unsigned char *) p, l); }
        else if (!strcmp(name, "PTEXT")) {
            size_t bl = atoi(a1); AFTER(atoi(a2)) char *b = zalloc(bl); memset(b, 0x5a, bl); size_t cl = 0;   /* exact size, also for 0: a write at b[0] is then an ASan report */
            ok = SCPI_ParamCopyText(c, b, bl, &cl, mand); flushw(); oprintf(" P8:%d:", ok);
            if (ok) { oprintf("%d", (cl < bl && b[cl] == 0) ? 1 : 0); for (size_t i = 0; i < cl; i++) oprintf(",%d", (unsigned char) b[i]); }
            zfree(b); }
        else if (!strcmp(name, "PBLOCK")) { const char *p = NULL; size_t l = 0; AFTER(atoi(a1)) ok = SCPI_ParamArbitraryBlock(c, &p, &l, mand); flushw(); oprintf(" P9:%d:", ok); if (ok) pvals_bytes((const unsigned char *) p, l); }
        else if (!strcmp(name, "PD")) { double v = 0; AFTER(atoi(a1)) ok = SCPI_ParamDouble(c, &v, mand); uint64_t b; memcpy(&b, &v, 8); flushw(); oprintf(" P10:%d:", ok); if (ok) oprintf("%" PRIu64, b); }
        else if (!strcmp(name, "PF")) { float v = 0; AFTER(atoi(a1)) ok = SCPI_ParamFloat(c, &v, mand); uint32_t b; memcpy(&b, &v, 4); flushw(); oprintf(" P11:%d:", ok); if (ok) oprintf("%u", b); }
        else if (!strcmp(name, "PNUM")) {
            scpi_number_t v; memset(&v, 0, sizeof v); AFTER(atoi(a1)) ok = SCPI_ParamNumber(c, scpi_special_numbers_def, &v, mand); flushw(); oprintf(" P12:%d:", ok);
            if (ok) { if (v.special) oprintf("1,%d,%d,%d", v.content.tag, v.unit, v.base); else { uint64_t b; memcpy(&b, &v.content.value, 8); oprintf("0,%" PRIu64 ",%d,%d", b, v.unit, v.base); } } }
        else if (!strcmp(name, "PARR")) {   /* PARR:type:cap:mand  -- ASCII format array readers; type i32|u32|i64|u64|d|f */
            size_t cap = atoi(a2), n = 0; AFTER(atoi(a3)) flushw();
            if (!strcmp(a1, "i32")) { int32_t *a = zalloc(cap * 4); ok = SCPI_ParamArrayInt32(c, a, cap, &n, SCPI_FORMAT_ASCII, mand); oprintf(" P13:%d:", ok); if (ok) for (size_t i = 0; i < n && i < cap; i++) oprintf("%s%d", i ? "," : "", a[i]); zfree(a); }
            else if (!strcmp(a1, "u32")) { uint32_t *a = zalloc(cap * 4); ok = SCPI_ParamArrayUInt32(c, a, cap, &n, SCPI_FORMAT_ASCII, mand); oprintf(" P14:%d:", ok); if (ok) for (size_t i = 0; i < n && i < cap; i++) oprintf("%s%u", i ? "," : "", a[i]); zfree(a); }
            else if (!strcmp(a1, "i64")) { int64_t *a = zalloc(cap * 8); ok = SCPI_ParamArrayInt64(c, a, cap, &n, SCPI_FORMAT_ASCII, mand); oprintf(" P15:%d:", ok); if (ok) for (size_t i = 0; i < n && i < cap; i++) oprintf("%s%" PRId64, i ? "," : "", a[i]); zfree(a); }
            else if (!strcmp(a1, "u64")) { uint64_t *a = zalloc(cap * 8); ok = SCPI_ParamArrayUInt64(c, a, cap, &n, SCPI_FORMAT_ASCII, mand); oprintf(" P16:%d:", ok); if (ok) for (size_t i = 0; i < n && i < cap; i++) oprintf("%s%" PRIu64, i ? "," : "", a[i]); zfree(a); }
            else if (!strcmp(a1, "d")) { double *a = zalloc(cap * 8); ok = SCPI_ParamArrayDouble(c, a, cap, &n, SCPI_FORMAT_ASCII, mand); oprintf(" P17:%d:", ok); if (ok) for (size_t i = 0; i < n && i < cap; i++) { uint64_t b; memcpy(&b, &a[i], 8); oprintf("%s%" PRIu64, i ? "," : "", b); } zfree(a); }
            else { float *a = zalloc(cap * 4); ok = SCPI_ParamArrayFloat(c, a, cap, &n, SCPI_FORMAT_ASCII, mand); oprintf(" P18:%d:", ok); if (ok) for (size_t i = 0; i < n && i < cap; i++) { uint32_t b; memcpy(&b, &a[i], 4); oprintf("%s%u", i ? "," : "", b); } zfree(a); }
            if (ok) oprintf(";%zu", n); }
        else if (!strcmp(name, "PEXPRN")) {  /* PEXPRN:idx:mand -- parameter must be an expression; numeric list entry idx (double) */
            scpi_parameter_t p; AFTER(atoi(a2)) ok = SCPI_Parameter(c, &p, mand);
            if (!ok) { flushw(); oprintf(" P19:0:"); }
            if (ok) { scpi_bool_t ir = 0; scpi_parameter_t f, t; memset(&f, 0, sizeof f); memset(&t, 0, sizeof t);
                scpi_expr_result_t r = SCPI_ExprNumericListEntry(c, &p, atoi(a1), &ir, &f, &t);
                flushw(); oprintf(" P19:1:%d", (int) r); if (r == SCPI_EXPR_OK) { oprintf(",%d,%d,%d", ir ? 1 : 0, (int) (f.ptr - p.ptr), f.len); if (ir) oprintf(",%d,%d", (int) (t.ptr - p.ptr), t.len); } } }
        else if (!strcmp(name, "PEXPRC")) {  /* PEXPRC:idx:cap:mand -- channel list entry */
            scpi_parameter_t p; AFTER(atoi(a3)) ok = SCPI_Parameter(c, &p, mand);
            if (!ok) { flushw(); oprintf(" P20:0:"); }
            if (ok) { int cap = atoi(a2); scpi_bool_t ir = 0; size_t dims = 0; int32_t *f = zalloc(cap * 4), *t = zalloc(cap * 4);
                scpi_expr_result_t r = SCPI_ExprChannelListEntry(c, &p, atoi(a1), &ir, cap ? f : NULL, cap ? t : NULL, cap, &dims);
                flushw(); oprintf(" P20:1:%d", (int) r);
                if (r == SCPI_EXPR_OK) { int m = cap < (int) dims ? cap : (int) dims; oprintf(",%d,%zu", ir ? 1 : 0, dims); for (int i = 0; i < m; i++) oprintf(",%d", f[i]); if (ir) for (int i = 0; i < m; i++) oprintf(",%d", t[i]); }
                zfree(f); zfree(t); } }
        else if (!strcmp(name, "RI32")) SCPI_ResultInt32(c, (int32_t) strtoll(a1, 0, 10));
        else if (!strcmp(name, "RREP")) { long n = strtol(a1, 0, 10); int32_t v = (int32_t) strtoll(a2, 0, 10); for (long i = 0; i < n; i++) SCPI_ResultInt32(c, v); }   /* RREP:n:v  n result items in one unit */
        else if (!strcmp(name, "RU32")) SCPI_ResultUInt32Base(c, (uint32_t) strtoull(a1, 0, 10), atoi(a2));
        else if (!strcmp(name, "RI64")) SCPI_ResultInt64(c, (int64_t) strtoll(a1, 0, 10));
        else if (!strcmp(name, "RU64")) SCPI_ResultUInt64Base(c, strtoull(a1, 0, 10), atoi(a2));
        else if (!strcmp(name, "RI8")) SCPI_ResultInt8(c, (int8_t) atoi(a1));
        else if (!strcmp(name, "RU8")) SCPI_ResultUInt8Base(c, (uint8_t) atoi(a1), atoi(a2));
        else if (!strcmp(name, "RI16")) SCPI_ResultInt16(c, (int16_t) atoi(a1));
        else if (!strcmp(name, "RU16")) SCPI_ResultUInt16Base(c, (uint16_t) atoi(a1), atoi(a2));
        else if (!strcmp(name, "RBOOL")) SCPI_ResultBool(c, atoi(a1));
        else if (!strcmp(name, "RD")) { uint64_t b = strtoull(a1, 0, 10); double d; memcpy(&d, &b, 8); SCPI_ResultDouble(c, d); }
        else if (!strcmp(name, "RF")) { uint32_t b = (uint32_t) strtoull(a1, 0, 10); float f; memcpy(&f, &b, 4); SCPI_ResultFloat(c, f); }
        else if (!strcmp(name, "RTEXT")) { unsigned char *t = malloc(strlen(a1) / 2 + 1); size_t n = unhex(a1, t); t[n] = 0; SCPI_ResultText(c, (char *) t); free(t); }
        else if (!strcmp(name, "RCHARS")) { unsigned char *t = malloc(strlen(a1) / 2 + 1); size_t n = unhex(a1, t); SCPI_ResultCharacters(c, (char *) t, n); free(t); }
        else if (!strcmp(name, "RMNEM")) { unsigned char *t = malloc(strlen(a1) / 2 + 1); size_t n = unhex(a1, t); t[n] = 0; SCPI_ResultMnemonic(c, (char *) t); free(t); }
        else if (!strcmp(name, "RBLOCK")) { unsigned char *t = malloc(strlen(a1) / 2 + 1); size_t n = unhex(a1, t); SCPI_ResultArbitraryBlock(c, t, n); free(t); }
        else if (!strcmp(name, "RBIG") || !strcmp(name, "RBIGS")) {   /* RBIG:n:seed  one block of n pattern bytes; RBIGS:n:seed:chunk  the same streamed in pieces */
            size_t n = strtoul(a1, 0, 10), chunk = strtoul(a3, 0, 10); unsigned sd = (unsigned) atoi(a2); unsigned char *t = malloc(n ? n : 1);
            for (size_t i = 0; i < n; i++) t[i] = (unsigned char) (sd + i * 7);
            if (!strcmp(name, "RBIG")) SCPI_ResultArbitraryBlock(c, t, n);
            else { SCPI_ResultArbitraryBlockHeader(c, n); for (size_t off = 0; off < n && chunk; off += chunk) SCPI_ResultArbitraryBlockData(c, t + off, n - off < chunk ? n - off : chunk); }
            free(t); }
        else if (!strcmp(name, "RHDR")) SCPI_ResultArbitraryBlockHeader(c, strtoul(a1, 0, 10));
        else if (!strcmp(name, "RDATA")) { unsigned char *t = malloc(strlen(a1) / 2 + 1); size_t n = unhex(a1, t); SCPI_ResultArbitraryBlockData(c, t, n); free(t); }
        else if (!strcmp(name, "RARR")) {   /* RARR:size:fmt:hexdata  (little-endian element images) */
            int size = atoi(a1), fmt = atoi(a2); unsigned char *raw = malloc(strlen(a3) / 2 + 1); size_t nb = unhex(a3, raw); size_t n = nb / size;
            void *arr = exact(raw, nb);
            if (size == 1) SCPI_ResultArrayUInt8(c, arr, n, fmt); else if (size == 2) SCPI_ResultArrayUInt16(c, arr, n, fmt);
            else if (size == 4) SCPI_ResultArrayUInt32(c, arr, n, fmt); else SCPI_ResultArrayUInt64(c, arr, n, fmt);
            free(arr); free(raw); }
        else if (!strcmp(name, "PUSH")) SCPI_ErrorPush(c, atoi(a1));
        else if (!strcmp(name, "NUMS")) { int n = atoi(a1); int32_t *a = zalloc(sizeof(int32_t) * (n)); for (int i = 0; i < n; i++) a[i] = -99; int r = SCPI_CommandNumbers(c, a, n, atoi(a2)); flushw(); oprintf(" N%d:", r); for (int i = 0; i < n; i++) oprintf("%s%d", i ? "," : "", a[i]); zfree(a); }
        else if (!strcmp(name, "ISCMD")) { unsigned char *t = malloc(strlen(a1) / 2 + 1); size_t n = unhex(a1, t); t[n] = 0; int r = SCPI_IsCmd(c, (char *) t); flushw(); oprintf(" I%d", r ? 1 : 0); free(t); }
        else if (!strcmp(name, "SYSTERR")) SCPI_SystemErrorNextQ(c);
        else if (!strcmp(name, "RETERR")) { ret = SCPI_RES_ERR; break; }
        if (isread && !ok && (mand || SCPI_ParamErrorOccurred(c))) { ret = SCPI_RES_ERR; break; }
    }
    free(sc); return ret;
}

static void dump_queue(scpi_t *ctx) {
    /* remaining queue content, oldest first: Q<code>[:infohex] ... ; silent for the event stream */
    muted = 1; oput(" |", 2);
    while (SCPI_ErrorCount(ctx) > 0) { scpi_error_t e; SCPI_ErrorPop(ctx, &e);
        oprintf(" Q%d", (int) e.error_code);
#if USE_DEVICE_DEPENDENT_ERROR_INFORMATION
        if (e.device_dependent_info) {
#if USE_MEMORY_ALLOCATION_FREE
            oput(":", 1); ohex(e.device_dependent_info, strlen(e.device_dependent_info));
#else
            size_t l1 = 0, l2 = 0; const char *s2 = NULL; oput(":", 1);
            if (scpiheap_get_parts(&ctx->error_info_heap, e.device_dependent_info, &l1, &s2, &l2)) { ohex(e.device_dependent_info, l1); if (s2) ohex(s2, l2); }
#endif
        }
        SCPIDEFINE_free(&ctx->error_info_heap, e.device_dependent_info, false);
#endif
    }
    muted = 0;
}

static void run_scenario(char *line) {
    /* S cap qcap[ heap]|C tag pathex script|...|I hex|I -|L hex */
    scpi_t ctx; int cap = 0, qcap = 0, hs = 16; char *ibuf = NULL, *heap = NULL; scpi_error_t *eq = NULL; int inited = 0;
    for (int i = 0; i < ncmd; i++) free(patterns[i]);
    for (int i = 0; i < MAXCMD; i++) { free(scripts[i]); scripts[i] = NULL; }
    ncmd = 0; cmds[0].pattern = NULL; cmds[0].callback = NULL; cmds[0].tag = 0; wl = 0;
    char *save = NULL;
    for (char *part = strtok_r(line, "|", &save); part; part = strtok_r(NULL, "|", &save)) {
        if (part[0] == 'S') sscanf(part, "S %d %d %d", &cap, &qcap, &hs);
        else if (part[0] == 'C') {
            int tag; static char pat[2048]; static char sc[1 << 16]; sc[0] = 0;
            sscanf(part, "C %d %2047s %65535s", &tag, pat, sc);
            unsigned char *pb = malloc(strlen(pat) / 2 + 1); size_t n = unhex(pat, pb); pb[n] = 0;
            if (ncmd < MAXCMD && tag >= 0 && tag < MAXCMD) {
                patterns[ncmd] = (char *) pb; free(scripts[tag]); scripts[tag] = strdup(sc[0] ? sc : "-");
                cmds[ncmd].pattern = patterns[ncmd]; cmds[ncmd].callback = strcmp(sc, "NULL") ? generic : NULL; cmds[ncmd].tag = tag; ncmd++;      /* script NULL: an entry without callback */
                cmds[ncmd].pattern = NULL; cmds[ncmd].callback = NULL; cmds[ncmd].tag = 0;
            } else free(pb);
        } else if (part[0] == 'I' || part[0] == 'L') {
            if (!inited) {
                ibuf = malloc(cap); memset(ibuf, 0x7f, cap); eq = malloc(sizeof(scpi_error_t) * (qcap));
                SCPI_Init(&ctx, cmds, &ifc, scpi_units_def, "a", "b", "c", "d", ibuf, cap, eq, qcap);
#if USE_DEVICE_DEPENDENT_ERROR_INFORMATION && !USE_MEMORY_ALLOCATION_FREE
                heap = malloc(hs); SCPI_InitHeap(&ctx, heap, hs);
#endif
                inited = 1;
            }
            const char *h = part + 2; static unsigned char d[1 << 16]; size_t n = (h[0] == '-') ? 0 : unhex(h, d);
            if (part[0] == 'I') { char *chunk = exact(d, n); int r = SCPI_Input(&ctx, chunk, (int) n); free(chunk); flushw(); oprintf(" R%d", r ? 1 : 0); }
            else { char *ln = malloc(n + 1); memcpy(ln, d, n); ln[n] = 0; int r = SCPI_Parse(&ctx, ln, (int) n); free(ln); flushw(); oprintf(" R%d", r ? 1 : 0); }
        }
    }
    if (inited) {
        flushw();
#ifdef SCPI_PARSER_VERIF
        ASAN_UNPOISON_MEMORY_REGION(ibuf, cap);
#endif
        oput(" B", 2); ohex(ctx.buffer.data, ctx.buffer.position);
        oprintf(" G"); for (int r = 0; r < SCPI_REG_COUNT; r++) oprintf("%s%d", r ? "," : "", (int) SCPI_RegGet(&ctx, (scpi_reg_name_t) r));
        dump_queue(&ctx);
    }
    free(ibuf); free(eq); free(heap);
}

/* ------------------------------------------------------------------ lexer (kind LEX) */
typedef int (*lexfn)(lex_state_t *, scpi_token_t *);
static void lex_one(const char *name, lexfn f, const unsigned char *s, int n, int off) {
    char *b = exact(s, n); lex_state_t st = { b, b + off, n }; scpi_token_t t; t.type = SCPI_TOKEN_UNKNOWN; t.ptr = b + off; t.len = 0;
    int r = f(&st, &t);
    oprintf(" %s:%d,%d,%d,%d,%d", name, (int) t.type, t.ptr ? (int) (t.ptr - (b + off)) : 0, t.len, r, (int) (st.pos - (b + off))); free(b);
}
static void run_lex(char *line) {
    int off = 0; static char hx[1 << 16]; hx[0] = 0; static unsigned char s[1 << 15];
    sscanf(line, "LEX %d %65535s", &off, hx); int n = (int) (hx[0] == '-' ? 0 : unhex(hx, s));
    oput("LEX", 3);
    lex_one("ws", scpiLex_WhiteSpace, s, n, off); lex_one("hdr", scpiLex_ProgramHeader, s, n, off); lex_one("chr", scpiLex_CharacterProgramData, s, n, off);
    lex_one("dec", scpiLex_DecimalNumericProgramData, s, n, off); lex_one("suf", scpiLex_SuffixProgramData, s, n, off); lex_one("nd", scpiLex_NondecimalNumericData, s, n, off);
    lex_one("str", scpiLex_StringProgramData, s, n, off); lex_one("blk", scpiLex_ArbitraryBlockProgramData, s, n, off); lex_one("exp", scpiLex_ProgramExpression, s, n, off);
    lex_one("nl", scpiLex_NewLine, s, n, off); lex_one("com", scpiLex_Comma, s, n, off); lex_one("sem", scpiLex_Semicolon, s, n, off);
    lex_one("pd", scpiParser_parseProgramData, s, n, off);
    { char *b = exact(s + off, n - off); scpi_parser_state_t ps; memset(&ps, 0, sizeof ps); int r = scpiParser_detectProgramMessageUnit(&ps, b, n - off);
      oprintf(" unit:%d,%d,%d,%d,%d,%d,%d,%d,%d", (int) ps.programHeader.type, ps.programHeader.ptr ? (int) (ps.programHeader.ptr - b) : 0, ps.programHeader.len,
              (int) ps.programData.type, ps.programData.ptr ? (int) (ps.programData.ptr - b) : 0, ps.programData.len, ps.numberOfParameters,
              ps.termination == SCPI_MESSAGE_TERMINATION_NONE ? 0 : (ps.termination == SCPI_MESSAGE_TERMINATION_NL ? 1 : 2), r); free(b); }
}

/* ------------------------------------------------------------------ matcher (kind MATCH) */
static void run_match(char *line) {
    static char ph[4096], hh[4096]; int n = 0, dflt = 0; ph[0] = hh[0] = 0;
    sscanf(line, "MATCH %4095s %4095s %d %d", ph, hh, &n, &dflt);
    unsigned char *p = malloc(strlen(ph) / 2 + 1), *h = malloc(strlen(hh) / 2 + 1);
    size_t pl = ph[0] == '-' ? 0 : unhex(ph, p); p[pl] = 0; size_t hl = hh[0] == '-' ? 0 : unhex(hh, h); h[hl] = 0;
    /* the header is followed by a NUL, as it is in the input buffer and in a line handed to SCPI_Parse */
    char *pc = exact(p, pl + 1); char *hc = exact(h, hl + 1);
    oput("MATCH", 5);
    if (n < 0) { int r = SCPI_Match(pc, hc, hl); oprintf(" %d", r ? 1 : 0); }   /* the public entry point (numbers = NULL) */
    else { int32_t *a = zalloc(4 * (n)); for (int i = 0; i < n; i++) a[i] = -99; int r = matchCommand(pc, hc, hl, a, n, dflt); oprintf(" %d:", r ? 1 : 0); for (int i = 0; i < n; i++) oprintf("%s%d", i ? "," : "", a[i]); zfree(a); }
    free(pc); free(hc); free(p); free(h);
}

/* ------------------------------------------------------------------ integer formatting (kind I2S) */
static void run_i2s(char *line) {
    int w, len, base, sign; unsigned hi, lo; sscanf(line, "I2S %d %u %u %d %d %d", &w, &hi, &lo, &len, &base, &sign);
    uint64_t v = ((uint64_t) hi << 32) | lo; char *b = zalloc(len); memset(b, 0x7e, len);
    /* through the public functions wherever one exists for the combination; the static worker otherwise */
    size_t r;
    if (w == 32 && sign && base == 10) r = SCPI_Int32ToStr((int32_t) (uint32_t) v, b, len);
    else if (w == 32 && !sign) r = SCPI_UInt32ToStrBase((uint32_t) v, b, len, (int8_t) base);
    else if (w == 64 && sign && base == 10) r = SCPI_Int64ToStr((int64_t) v, b, len);
    else if (w == 64 && !sign) r = SCPI_UInt64ToStrBase(v, b, len, (int8_t) base);
    else r = w == 32 ? UInt32ToStrBaseSign((uint32_t) v, b, len, (int8_t) base, sign) : UInt64ToStrBaseSign(v, b, len, (int8_t) base, sign);
    oput("I2S ", 4); ohex(b, r < (size_t) len ? r : (size_t) len); oprintf(" %d %zu", (r < (size_t) len && b[r] == 0) ? 1 : 0, r); zfree(b);
}

/* sweep over 32-bit values against an oracle built from libc printf (bases 8, 10, 16) and a plain loop (base 2):
   I2SSWEEP start count stride  ->  I2SSWEEP n=<conversions> bad=<first mismatch or -> */
static size_t canon32(uint32_t v, int base, int sign, char *out) {
    if (base == 10) return (size_t) (sign ? sprintf(out, "%" PRId32, (int32_t) v) : sprintf(out, "%" PRIu32, v));
    if (base == 16) return (size_t) sprintf(out, "%" PRIX32, v);
    if (base == 8) return (size_t) sprintf(out, "%" PRIo32, v);
    { char t[40]; int n = 0; if (!v) t[n++] = '0'; while (v) { t[n++] = (char) ('0' + (v & 1)); v >>= 1; } for (int i = 0; i < n; i++) out[i] = t[n - 1 - i]; out[n] = 0; return (size_t) n; }
}
static void run_i2ssweep(char *line) {
    unsigned long long start, count, stride; sscanf(line, "I2SSWEEP %llu %llu %llu", &start, &count, &stride);
    static const int bases[4] = { 2, 8, 10, 16 }; unsigned long long n = 0; char bad[200] = "-";
    char *full = malloc(40);
    for (unsigned long long k = 0; k < count && bad[0] == '-'; k++) {
        uint32_t v = (uint32_t) (start + k * stride);
        for (int bi = 0; bi < 4; bi++) for (int sign = 0; sign < 2; sign++) {
            char exp[48]; size_t el = canon32(v, bases[bi], sign, exp);
            memset(full, 0x7e, 40); size_t r = UInt32ToStrBaseSign(v, full, 40, (int8_t) bases[bi], sign); n++;
            if (r != el || memcmp(full, exp, el) != 0 || full[el] != 0) { snprintf(bad, sizeof bad, "v=%u,base=%d,sign=%d,len=40,got=%.*s,r=%zu,want=%s", v, bases[bi], sign, (int) (r < 40 ? r : 40), full, r, exp); break; }
            size_t tl = (size_t) ((v ^ (v >> 7) ^ (unsigned) bi) % (el + 2)); char *tb = zalloc(tl); memset(tb, 0x7e, tl);
            r = UInt32ToStrBaseSign(v, tb, tl, (int8_t) bases[bi], sign); n++;
            size_t wantr = el < tl ? el : tl;
            if (r != wantr || memcmp(tb, exp, wantr) != 0 || (wantr < tl && tb[wantr] != 0)) snprintf(bad, sizeof bad, "v=%u,base=%d,sign=%d,len=%zu,r=%zu,want=%.*s", v, bases[bi], sign, tl, r, (int) wantr, exp);
            zfree(tb); if (bad[0] != '-') break;
        }
    }
    free(full); oprintf("I2SSWEEP n=%llu bad=%s", n, bad);
}

/* ------------------------------------------------------------------ SCPI_ResultError direct (kind RERR) */
static scpi_t gctx; static char gib[16]; static scpi_error_t geq[4];
static void ginit(void) { static int done; if (!done) { SCPI_Init(&gctx, cmds, &ifc, scpi_units_def, "a", "b", "c", "d", gib, 16, geq, 4); done = 1; } gctx.output_count = 0; gctx.first_output = TRUE; wl = 0; }
static void run_rerr(char *line) {
    int code; static char ih[1 << 15]; ih[0] = 0; sscanf(line, "RERR %d %32767s", &code, ih);
    char *info = NULL; if (strcmp(ih, "-") != 0) { info = malloc(strlen(ih) / 2 + 1); size_t n = unhex(ih, (unsigned char *) info); info[n] = 0; }
    oput("RERR", 4);
#if USE_DEVICE_DEPENDENT_ERROR_INFORMATION && USE_MEMORY_ALLOCATION_FREE
    ginit(); scpi_error_t e; e.error_code = (int16_t) code; e.device_dependent_info = info; SCPI_ResultError(&gctx, &e); flushw();
#elif !USE_DEVICE_DEPENDENT_ERROR_INFORMATION
    ginit(); scpi_error_t e; e.error_code = (int16_t) code; SCPI_ResultError(&gctx, &e); flushw();
#else
    oput(" skip", 5);
#endif
    free(info);
}

/* ------------------------------------------------------------------ registers (kind REG) */
static void reg_show(scpi_t *c) { flushw(); oprintf(" S"); for (int r = 0; r < SCPI_REG_COUNT; r++) oprintf("%s%d", r ? "," : "", (int) SCPI_RegGet(c, (scpi_reg_name_t) r)); oprintf(";%d", (int) SCPI_ErrorCount(c)); }
static const scpi_command_t std_cmds[] = {
    { "*CLS", SCPI_CoreCls, 0 }, { "*ESE", SCPI_CoreEse, 0 }, { "*ESE?", SCPI_CoreEseQ, 0 }, { "*ESR?", SCPI_CoreEsrQ, 0 },
    { "*IDN?", SCPI_CoreIdnQ, 0 }, { "*OPC", SCPI_CoreOpc, 0 }, { "*OPC?", SCPI_CoreOpcQ, 0 }, { "*RST", SCPI_CoreRst, 0 },
    { "*SRE", SCPI_CoreSre, 0 }, { "*SRE?", SCPI_CoreSreQ, 0 }, { "*STB?", SCPI_CoreStbQ, 0 }, { "*TST?", SCPI_CoreTstQ, 0 }, { "*WAI", SCPI_CoreWai, 0 },
    { "SYSTem:ERRor[:NEXT]?", SCPI_SystemErrorNextQ, 0 }, { "SYSTem:ERRor:COUNt?", SCPI_SystemErrorCountQ, 0 }, { "SYSTem:VERSion?", SCPI_SystemVersionQ, 0 },
    { "STATus:OPERation?", SCPI_StatusOperationEventQ, 0 }, { "STATus:OPERation:EVENt?", SCPI_StatusOperationEventQ, 0 },
    { "STATus:OPERation:CONDition?", SCPI_StatusOperationConditionQ, 0 }, { "STATus:OPERation:ENABle", SCPI_StatusOperationEnable, 0 }, { "STATus:OPERation:ENABle?", SCPI_StatusOperationEnableQ, 0 },
    { "STATus:QUEStionable[:EVENt]?", SCPI_StatusQuestionableEventQ, 0 }, { "STATus:QUEStionable:CONDition?", SCPI_StatusQuestionableConditionQ, 0 },
    { "STATus:QUEStionable:ENABle", SCPI_StatusQuestionableEnable, 0 }, { "STATus:QUEStionable:ENABle?", SCPI_StatusQuestionableEnableQ, 0 },
    { "STATus:PRESet", SCPI_StatusPreset, 0 },
    SCPI_CMD_LIST_END
};
static void run_reg(char *line) {
    /* REG qcap|W r v|T r bits|U r bits|P code|O|C|L|M cmdhex ... ; after each op: state dump */
    scpi_t ctx; int qcap = 2; scpi_error_t *eq = NULL; char *ibuf = malloc(256); char *save = NULL; wl = 0;
    oput("REG", 3);
    for (char *part = strtok_r(line, "|", &save); part; part = strtok_r(NULL, "|", &save)) {
        int a, b;
        if (!strncmp(part, "REG", 3)) { int noerr = part[3] == 'N'; sscanf(part + (noerr ? 4 : 3), "%d", &qcap); eq = malloc(sizeof(scpi_error_t) * qcap); SCPI_Init(&ctx, std_cmds, noerr ? &ifc_noerr : &ifc, scpi_units_def, "a", "b", "c", "d", ibuf, 256, eq, qcap); }
        else if (part[0] == 'W') { sscanf(part, "W %d %d", &a, &b); SCPI_RegSet(&ctx, (scpi_reg_name_t) a, (scpi_reg_val_t) b); reg_show(&ctx); }
        else if (part[0] == 'T') { sscanf(part, "T %d %d", &a, &b); SCPI_RegSetBits(&ctx, (scpi_reg_name_t) a, (scpi_reg_val_t) b); reg_show(&ctx); }
        else if (part[0] == 'U') { sscanf(part, "U %d %d", &a, &b); SCPI_RegClearBits(&ctx, (scpi_reg_name_t) a, (scpi_reg_val_t) b); reg_show(&ctx); }
        else if (part[0] == 'P') { sscanf(part, "P %d", &a); SCPI_ErrorPush(&ctx, (int16_t) a); reg_show(&ctx); }
        else if (part[0] == 'O') { scpi_error_t e; SCPI_ErrorPop(&ctx, &e); SCPIDEFINE_free(&ctx.error_info_heap, e.device_dependent_info, false); reg_show(&ctx); }
        else if (part[0] == 'C') { SCPI_ErrorClear(&ctx); reg_show(&ctx); }
        else if (part[0] == 'L') { SCPI_CoreCls(&ctx); reg_show(&ctx); }
        else if (part[0] == 'M') { static unsigned char d[4096]; size_t n = unhex(part + 2, d); char *chunk = exact(d, n); SCPI_Input(&ctx, chunk, (int) n); free(chunk); reg_show(&ctx); }
    }
    muted = 1; if (eq) SCPI_ErrorClear(&ctx); muted = 0; free(eq); free(ibuf);
}

/* ------------------------------------------------------------------ error queue histories (kind EQ) */
static int fail_next_alloc;
#if USE_DEVICE_DEPENDENT_ERROR_INFORMATION && USE_MEMORY_ALLOCATION_FREE
/* allocation failure injection for the malloc configuration: the library calls strndup */
char *__real_strndup(const char *s, size_t n);
char *__wrap_strndup(const char *s, size_t n) { if (fail_next_alloc) { fail_next_alloc = 0; return NULL; } return __real_strndup(s, n); }
#endif
static void run_eq(char *line) {
    /* EQ qcap heapsize|P code infohex|- len fail|O|C|N|S  */
    scpi_t ctx; int qcap = 2, hs = 16; scpi_error_t *eq = NULL; char *heap = NULL; char *ibuf = malloc(64); char *save = NULL; wl = 0;
    oput("EQ", 2);
    for (char *part = strtok_r(line, "|", &save); part; part = strtok_r(NULL, "|", &save)) {
        if (!strncmp(part, "EQ", 2)) {
            sscanf(part, "EQ %d %d", &qcap, &hs); eq = malloc(sizeof(scpi_error_t) * qcap);
            SCPI_Init(&ctx, std_cmds, &ifc, scpi_units_def, "a", "b", "c", "d", ibuf, 64, eq, qcap);
#if USE_DEVICE_DEPENDENT_ERROR_INFORMATION && !USE_MEMORY_ALLOCATION_FREE
            heap = malloc(hs); SCPI_InitHeap(&ctx, heap, hs);
#endif
        } else if (part[0] == 'P') {
            int code, len = 0, fail = 0; static char ih[1 << 15]; ih[0] = 0; sscanf(part, "P %d %32767s %d %d", &code, ih, &len, &fail);
            char *info = NULL; if (!strcmp(ih, "=")) { info = malloc(1); info[0] = 0; }        /* "=": the empty string (not NULL) */
            else if (strcmp(ih, "-") != 0) { size_t n = strlen(ih) / 2; info = malloc(n + 1); unhex(ih, (unsigned char *) info); info[n] = 0; }
            fail_next_alloc = fail; muted = 1; SCPI_ErrorPushEx(&ctx, (int16_t) code, info, len); muted = 0; fail_next_alloc = 0; oprintf(" p%d", (int) SCPI_ErrorCount(&ctx)); free(info);
        } else if (part[0] == 'O') {
            scpi_error_t e; muted = 1; SCPI_ErrorPop(&ctx, &e); muted = 0; oprintf(" o%d", (int) e.error_code);
#if USE_DEVICE_DEPENDENT_ERROR_INFORMATION
            if (e.device_dependent_info) {
#if USE_MEMORY_ALLOCATION_FREE
                oput(":", 1); ohex(e.device_dependent_info, strlen(e.device_dependent_info));
#else
                size_t l1 = 0, l2 = 0; const char *s2 = NULL; oput(":", 1);
                if (scpiheap_get_parts(&ctx.error_info_heap, e.device_dependent_info, &l1, &s2, &l2)) { ohex(e.device_dependent_info, l1); if (s2) ohex(s2, l2); }
#endif
            }
            SCPIDEFINE_free(&ctx.error_info_heap, e.device_dependent_info, false);
#endif
        } else if (part[0] == 'C') { muted = 1; SCPI_ErrorClear(&ctx); muted = 0; oprintf(" c%d", (int) SCPI_ErrorCount(&ctx)); }
        else if (part[0] == 'N') { oprintf(" n%d", (int) SCPI_ErrorCount(&ctx)); }
        else if (part[0] == 'S') { muted = 1; ctx.output_count = 0; ctx.first_output = TRUE; wl = 0; SCPI_SystemErrorNextQ(&ctx); muted = 0; oput(" s", 2); ohex(wbuf, wl); wl = 0; }
#if USE_DEVICE_DEPENDENT_ERROR_INFORMATION && !USE_MEMORY_ALLOCATION_FREE
        if (part[0] != 'E') { oprintf("/%zu,%zu,", ctx.error_info_heap.wr, ctx.error_info_heap.count); ohex(heap, hs); }
#endif
    }
    muted = 1; if (eq) SCPI_ErrorClear(&ctx); muted = 0; free(eq); free(heap); free(ibuf);
}

/* ------------------------------------------------------------------ buffers (kinds D2S F2S N2S ARR DTOSTRE) */
static scpi_unit_t unit_of(const char *n) { for (int i = 0; scpi_units_def[i].name; i++) if (!strcmp(scpi_units_def[i].name, n)) return scpi_units_def[i].unit; return SCPI_UNIT_NONE; }
static void run_fp2s(char *line) {
    uint64_t b; int len; char k = line[0]; sscanf(line + 4, "%" SCNx64 " %d", &b, &len);
    char *buf = zalloc(len); memset(buf, 0x7e, len); size_t r;
    if (k == 'D') { double d; memcpy(&d, &b, 8); r = SCPI_DoubleToStr(d, buf, len); } else { uint32_t w = (uint32_t) b; float f; memcpy(&f, &w, 4); r = SCPI_FloatToStr(f, buf, len); }
    oprintf("%c2S ", k); ohex(buf, r < (size_t) len ? r : (size_t) len); oprintf(" %d %zu", (r < (size_t) len && buf[r] == 0) ? 1 : 0, r); zfree(buf);
}
static void run_n2s(char *line) {
    /* N2S special tag-or-bits unitname|- len */
    int special, len; uint64_t b; char un[64]; sscanf(line, "N2S %d %" SCNx64 " %63s %d", &special, &b, un, &len);
    scpi_number_t v; memset(&v, 0, sizeof v); v.special = special; if (special) v.content.tag = (int32_t) b; else memcpy(&v.content.value, &b, 8);
    v.unit = strcmp(un, "-") ? unit_of(un) : SCPI_UNIT_NONE; v.base = 10; ginit();
    char *buf = zalloc(len); memset(buf, 0x7e, len);
    size_t r = SCPI_NumberToStr(&gctx, scpi_special_numbers_def, &v, buf, len);
    oput("N2S ", 4); for (int i = 0; i < len; i++) { if ((unsigned char) buf[i] == 0x7e) oput("--", 2); else ohex(buf + i, 1); } oprintf(" %zu", r); zfree(buf);
}
static void run_dtostre(char *line) {
    uint64_t b; int prec, size, flags = 0; sscanf(line, "DTOSTRE %" SCNx64 " %d %d %d", &b, &prec, &size, &flags); double d; memcpy(&d, &b, 8);
    char *buf = zalloc(size); memset(buf, 0x7e, size);
    oput("DTOSTRE ", 8);
    if (isfinite(d)) { char dg[40]; int decpt = 0, sign = 0; scpi_ecvt(signbit(d) ? -d : d, prec, &decpt, &sign, dg, 31); oprintf("%s,%d ", dg, decpt); } else oput("-,0 ", 4);
    char *r = SCPI_dtostre(d, buf, size, prec, flags); (void) r; size_t l = strnlen(buf, size); ohex(buf, l); oprintf(" %d", l < (size_t) size ? 1 : 0); zfree(buf);
}

/* ARR fmt size hex-of-little-endian-element-images : SCPI_ResultArrayUInt8/16/32/64 on a fresh item context */
static void run_arr(char *line) {
    int fmt, size; static char hx[1 << 16]; hx[0] = 0; sscanf(line, "ARR %d %d %65535s", &fmt, &size, hx);
    unsigned char *raw = malloc(strlen(hx) / 2 + 1); size_t nb = hx[0] == '-' ? 0 : unhex(hx, raw); size_t n = nb / size;
    void *arr = exact(raw, nb); ginit();
    if (size == 1) SCPI_ResultArrayUInt8(&gctx, arr, n, fmt); else if (size == 2) SCPI_ResultArrayUInt16(&gctx, arr, n, fmt);
    else if (size == 4) SCPI_ResultArrayUInt32(&gctx, arr, n, fmt); else SCPI_ResultArrayUInt64(&gctx, arr, n, fmt);
    oput("ARR ", 4); ohex(wbuf, wl); wl = 0; oprintf(" %d", (int) gctx.output_count); free(arr); free(raw);
}

/* ------------------------------------------------------------------ expressions (kind EXPR) */
static int n170;
static int cb_error170(scpi_t *c, int_fast16_t e) { (void) c; if (e == -170) n170++; return 0; }
static void run_expr(char *line) {
    /* EXPR bodyhex|- idx cap : the expression is '(' body ')' */
    static char bh[1 << 15]; int idx, cap; sscanf(line, "EXPR %32767s %d %d", bh, &idx, &cap);
    unsigned char *body = malloc(strlen(bh) / 2 + 1); size_t L = bh[0] == '-' ? 0 : unhex(bh, body);
    char *full = malloc(L + 2); full[0] = '('; memcpy(full + 1, body, L); full[L + 1] = ')';
    scpi_parameter_t p; p.type = SCPI_TOKEN_PROGRAM_EXPRESSION; p.ptr = full; p.len = (int) L + 2;
    scpi_interface_t ifc2 = { cb_error170, NULL, NULL, NULL, NULL }; scpi_t ctx; char ib[16]; scpi_error_t eq[4];
    SCPI_Init(&ctx, cmds, &ifc2, scpi_units_def, "a", "b", "c", "d", ib, 16, eq, 4);
    oput("EXPR", 4);
    { scpi_bool_t ir = 0; scpi_parameter_t f, t; memset(&f, 0, sizeof f); memset(&t, 0, sizeof t);
      scpi_expr_result_t r = SCPI_ExprNumericListEntry(&ctx, &p, idx, &ir, &f, &t);
      oprintf(" n%d", (int) r); if (r == SCPI_EXPR_OK) { oprintf(",%d,%d,%d", ir ? 1 : 0, (int) (f.ptr - full), f.len); if (ir) oprintf(",%d,%d", (int) (t.ptr - full), t.len); } }
    SCPI_ErrorClear(&ctx);
    { scpi_bool_t ir = 0; int32_t a = 0, b = 0; scpi_expr_result_t r = SCPI_ExprNumericListEntryInt(&ctx, &p, idx, &ir, &a, &b);
      oprintf(" i%d", (int) r); if (r == SCPI_EXPR_OK) oprintf(",%d,%d,%d", ir ? 1 : 0, a, ir ? b : 0); }
    SCPI_ErrorClear(&ctx); n170 = 0;
    { scpi_bool_t ir = 0; size_t dims = 0; int32_t *f = zalloc(cap * 4), *t = zalloc(cap * 4);
      scpi_expr_result_t r = SCPI_ExprChannelListEntry(&ctx, &p, idx, &ir, cap ? f : NULL, cap ? t : NULL, cap, &dims);
      oprintf(" c%d", (int) r);
      if (r == SCPI_EXPR_OK) { int m = cap < (int) dims ? cap : (int) dims; oprintf(",%d,%zu,[", ir ? 1 : 0, dims); for (int i = 0; i < m; i++) oprintf("%s%d", i ? "," : "", f[i]); oput("],[", 3); if (ir) for (int i = 0; i < m; i++) oprintf("%s%d", i ? "," : "", t[i]); oput("]", 1); }
      oprintf(",e%d", n170); zfree(f); zfree(t); }
    SCPI_ErrorClear(&ctx);
    { scpi_bool_t ir = 0; double a = 0, b = 0; scpi_expr_result_t r = SCPI_ExprNumericListEntryDouble(&ctx, &p, idx, &ir, &a, &b);
      oprintf(" d%d", (int) r); if (r == SCPI_EXPR_OK) { uint64_t ab, bb; memcpy(&ab, &a, 8); memcpy(&bb, &b, 8); oprintf(",%d,%" PRIu64 ",%" PRIu64, ir ? 1 : 0, ab, ir ? bb : (uint64_t) 0); } }
    SCPI_ErrorClear(&ctx); free(full); free(body);
}

int main(void) {
    static char line[1 << 20];
    signal(SIGALRM, on_alarm);
    setlocale(LC_ALL, "C");
    while (fgets(line, sizeof line, stdin)) {
        line[strcspn(line, "\n")] = 0; alarm(10);
        /* every case starts from a defined errno: 0, or ERANGE for a case line prefixed with "Z " (what the firmware's own strtol/pow
           calls or an earlier case may leave behind; the library must not depend on it).  What one case leaves behind never decides
           the next one, so a replay of a single case reproduces. */
        if (line[0] == 'Z' && line[1] == ' ') { memmove(line, line + 2, strlen(line + 2) + 1); errno = ERANGE; } else errno = 0;
        if (line[0] == 'S' && line[1] == ' ') { oput("S", 1); run_scenario(line); }
        else if (!strncmp(line, "LEX ", 4)) run_lex(line);
        else if (!strncmp(line, "MATCH ", 6)) run_match(line);
        else if (!strncmp(line, "I2S ", 4)) run_i2s(line);
        else if (!strncmp(line, "I2SSWEEP ", 9)) { alarm(3000); run_i2ssweep(line); }
        else if (!strncmp(line, "RERR ", 5)) run_rerr(line);
        else if (!strncmp(line, "REG ", 4) || !strncmp(line, "REGN ", 5)) run_reg(line);
        else if (!strncmp(line, "EQ ", 3)) run_eq(line);
        else if (!strncmp(line, "D2S ", 4) || !strncmp(line, "F2S ", 4)) run_fp2s(line);
        else if (!strncmp(line, "N2S ", 4)) run_n2s(line);
        else if (!strncmp(line, "DTOSTRE ", 8)) run_dtostre(line);
        else if (!strncmp(line, "EXPR ", 5)) run_expr(line);
        else if (!strncmp(line, "ARR ", 4)) run_arr(line);
        else oput("?", 1);
        alarm(0); oend();
    }
    return 0;
}
